"""Writes MANIFEST.json from the table below (single source of truth for what is claimed)."""
import json
import os

HERE = os.path.dirname(os.path.abspath(__file__))
BASELINE = "cd /repo && /venv/bin/python -m pytest -ra -q -p no:cacheprovider --timeout=900 --continue-on-collection-errors"

COMMON_NOTE = ("Trusted: Lean 4.33 kernel (+ propext, Classical.choice, Quot.sound only; audited by #print axioms on every run), "
               "harness/gen_tables.py, the Python correspondence harness and the Lean driver's JSON glue. "
               "Hand-written model is tied to /repo by exact differential comparison on generated inputs on every run. ")

TV_NOTE = ("Trusted: Lean 4.33 kernel and the theorem ESV.Beh.check_sound/validate_sound (axioms audited every run); the Lean compiler executing "
           "the validator in the driver; this project's reading of docs/language_spec.rst (lean/ESV/Src/Sem.lean + harness/gen/surface.py lowering table); "
           "opcode class tables pinned in lean/ESV/Beh/Spec.lean and proved equal to the tables regenerated from /repo (ESV.TableTie); "
           "printer/astdump glue (cross-checked per program). ")

CHECKS = {
    "C01": dict(
        level="proof", design="4/C01 + 8.3",
        technique="Lean 4 theorems about a hand-written, statement-by-statement executable model of the ExplorerScript compiler (ESV.Comp: compile handlers, counters, "
                  "lone-jump folding, loop/case stacks, macros, strip_last_label, LabelFinalizer, OpsLabelJumpToRemover) and the small-step source semantics "
                  "(ESV.Src) + exact model-vs-implementation comparison of compile results on every generated program + per-program translation validation of the "
                  "REAL compiler's output by the kernel-checked equivalence checker (check_sound)",
        text="PROVED, for ALL programs of a decidable fragment: compile_correct_F5 (with F0..F4 as sub-fragments) - for every program p with F5Prog p (all statement "
             "forms: operations, assignments, with-blocks and inline contexts, if/elseif/else with ||, not, lone-jump folding and empty blocks, forever/while/while not/for "
             "with continue and break_loop, switch/case/default/break with fall-through and shared blocks, labels with jump and call anywhere incl. into other routines, "
             "macros in any definition order with nested calls, private labels and return; any nesting) whose compilation by the model succeeds, the source semantics of every "
             "routine is behaviourally equivalent (same sequences of operations and condition tests for every outcome of every test, halting preserved) to the SSB "
             "machine running the model's compile result. It is composed of backend_preserves (the three back-end passes preserve behaviour for ALL well-formed labelled "
             "code; every conjunct of the hypothesis WFL shown necessary by a counterexample theorem), frontend_wfl (front-end output is well-formed for ALL programs under the "
             "decidable FrontGuard), codegen_correct_F5 and falls_through_sound (the compiler's _falls_through analysis is sound for all labelled code). 99.2 % of the generated "
             "programs lie inside the fragment (evidence: backend_wfl.in_F4 / in_F5 of backend_wfl.tosrc_agree); outside it are only: a folded single-exit case block behind a "
             "block ending in if-else / switch / forever / a macro call, and the guards shown necessary by counterexample theorems that reproduce on the real compiler (a plain "
             "op named Return, duplicate labels / macro variables, jump or control statements inside a with-block, undefined labels). PARTIAL in that sense: the full statement "
             "of the property (every accepted program) is kept visible in lean/ESV/Props/C01Frontend.lean and DESIGN 8.3. The theorem is about the model; the model is tied to "
             "/repo on every run by comparing its compile result with the real compiler's result op for op (raw offsets, jump parameters, routine infos, coroutine names) on "
             "every generated program (backend_wfl.model_result_equals_real), and toSrc (model input -> semantics input) with the harness lowering (tosrc_agree). Independently "
             "of the model, EVERY generated program - inside or outside the fragment - has the real compiler's output validated against the source semantics by the proven "
             "checker (verdicts), which is what exhibits a failing input when the compiler is changed.",
        note=TV_NOTE + "The ANTLR parser is not modelled (generated ASTs are printed, parsed by the repo's parser and must give the same AST). The compiler model is hand-written; "
             "its faithfulness rests on the exact comparison above and on C03's."),
    "C03": dict(
        level="proof", design="4/C03",
        technique="Lean 4 theorems about a hand-written, statement-by-statement executable model of the ExplorerScript compiler after parsing "
                  "(compile handlers with the op/label counters, allocate()d header numbers, lone-jump shortcut, loop/case stacks, macro blueprints and "
                  "ExplorerScriptMacro.build, routine tables, routine_op_offsets_are_ordered, strip_last_label, LabelFinalizer, OpsLabelJumpToRemover) and "
                  "of the SsbScript compiler (model of C07) + exact model-vs-implementation correspondence on generated programs (ops with RAW offsets "
                  "and jump targets, tables, exception classes) + property oracle on the real compile results",
        text="Kernel-checked: compile_closed — for ALL programs of the model's input language (any nesting of all statement forms, labels and jumps "
             "across routines, alias routines, routine ids in any order, macros with nested calls and any resolution order handed in): if compilation "
             "succeeds then op offsets are pairwise distinct across routines, every op named in OPS_WITH_JUMP_TO_MEM_OFFSET has as LAST parameter an int "
             "that is the offset of an op of the result, the three tables are equally long (no pseudo item can remain: by typing) — under the decidable "
             "guard NoUserJumpOps (no operation written in the source is itself named like a jump-carrying op); without the guard the property is false "
             "on the real compiler ('def 0 { Jump(7); }', compile_closed_counterexample, known finding). Built from backend_closed (for ARBITRARY labelled "
             "code with distinct op offsets the three back-end passes yield a closed result or fail; strip_last_label_offsets, finalizer_offsets_survive, "
             "remover_closed) and counter_fresh (front-end invariant by induction over the statement tree: every offset handed out by Counter.__call__ / "
             "allocate / visiting-time ticks / macro expansion is used at most once; dropped numbers are never reused), tables_same_length. "
             "ssbscript_compile_closed: the same for the SsbScript compiler model under the guards MarkersLast (jump-carrying ops end in a @label marker) "
             "and IdsFresh (no routine id negative or defined twice), each shown necessary by a counterexample theorem that also fails on the real code "
             "(known findings).",
        note=COMMON_NOTE + "The model starts after parsing; headers, assignments and message switches are lowered to opcode + parameters by the harness "
             "(harness/gen/complower.py on the table of harness/gen/surface.py), so the theorem is about control-flow code generation, numbering, labels, macros "
             "and the back end; the ANTLR parser is covered differentially (generated AST printed, text compiled by the real compiler, AST given to the model, "
             "astdump(print(ast)) == ast). Macro resolution order is an input taken from the real compiler (C05); imports and source maps are not modelled. "
             "Known findings: user_op_named_like_jump_op, ssbs_jump_op_without_trailing_marker, ssbs_routine_id_defined_twice."),
    "C04": dict(
        level="proof", design="4/C04",
        technique="Lean 4 theorems about a hand-written model of the literal printers and readers (ssb_data_types.py repr_string/escape_*/"
                  "__str__ of every parameter class, compiler/utils.py singleline_/multiline_string_literal, util.exps_int, "
                  "SsbOpParamFixedPoint.from_str, common_syntax.parse_position_marker_arg, the STRING_LITERAL / MULTILINE_STRING_LITERAL / "
                  "INTEGER / DECIMAL token rules) + exact model-vs-implementation correspondence (functions, real ANTLR lexer's first token) + "
                  "property oracle on real op lists printed by both real decompilers in every printing context and compiled back by both real compilers",
        text="Kernel-checked for ALL strings, indents, quote preferences and following text: the text repr_string prints is consumed as exactly one "
             "string token of the intended kind and reads back as the original value (read_repr_string, tok_*_exact, const_string_roundtrip, "
             "langstring_roundtrip) under the decidable guards GuardS (single-line and both-triple-quotes fall-back form: every backslash is followed "
             "by a character other than the delimiting quote and is not last; no raw \\r or \\f outside such a pair; no backslash directly before the "
             "other quote or before the letter n) and GuardM (triple-quoted form: no str.splitlines boundary other than \\n; some line empty or "
             "starting with a non-blank; at indent 0 the last line not blank-only). Outside the guards the pinned code really fails: one "
             "_counterexample theorem per class, the same witnesses fail on the real code and are listed in known_findings.jsonl (23 narrow kinds); "
             "on 620 000 function-level round trips of the thorough tier no value outside the guards round-trips, so the guards are exact there. "
             "For ALL integers: str(int) is an INTEGER token and exps_int reads it back (int_roundtrip); hex/octal/binary spellings in either letter "
             "case and all-zero spellings with or without sign give the spec value (int_bases, int_zeros). For ALL fixed-point values with a non-empty "
             "fraction: printed text is a DECIMAL token and from_str returns the same value (fixed_roundtrip); every spelling [-]0..0digits.fraction "
             "has the documented normal form (fixed_normal_form). Position marks: each coordinate reads back as (rel, 2 if offset > 1 else 0), exact "
             "iff offset is 0 or 2 (posarg_roundtrip, posarg_exact_iff); guard exactness is kernel-checked on all 585 strings of length <= 3 over an 8-symbol alphabet (guard_exact_small); the name round-trips when it needs no escaping (posmark_roundtrip). "
             "Dungeon-mode numbers 0..3 are determined by their configured constants when these are distinct (dmode_roundtrip). The spec's dedent "
             "rules are an equation of the model (dedent_rules) and the spec's own examples are evaluated in the kernel.",
        note=COMMON_NOTE + "ANTLR lexing/parsing outside the four literal token rules (blank skipping, argument lists, language-string braces, "
             "identifiers) is not modelled: it is exercised differentially only, by the end-to-end channel. Python's str/int primitives (replace, "
             "split, splitlines, strip, slicing, int(s,0), str(int)) are modelled by hand and compared with the interpreter on every run; CPython's "
             "4300-digit limit for decimal int<->str conversion is outside the model. Position-mark names, constant names and language names are "
             "taken to be plain names/identifiers. Exactness of the guards (outside => fails) is empirical, not a theorem."),
    "C07": dict(
        level="proof", design="4/C07",
        technique="Lean 4 theorems about a hand-written model of the SsbScript decompiler (OpsLabelJumpToResolver, process_op_for_jump, SsbScriptSsbDecompiler) and compiler (SsbScriptCompilerListener parse events, OpsLabelJumpToRemover) on a statement AST + exact model-vs-implementation correspondence (text of the real decompiler parsed with the repo's own parser, real compiler output) + property oracle on real objects",
        text="Kernel-checked theorem ssbscript_roundtrip for all routine sets in the class WF' (any number of routines of the five kinds incl. empty ones, arbitrary opcode names and parameters, unreachable ops, jumps between routines; strictly increasing offsets; every jump-table op carries its int target, an op offset of the set, as last parameter at the table index; headers expressible in SsbScript): decompile then compile succeeds and returns the same routine count, kinds, targets, coroutine names, the same ops in order with equal parameters, each jump parameter denoting the op at the position of the original target (order-preserving bijective renumbering). Supporting theorems: the compiler is independent of label ids (compile_by_name, all ASTs), labels bind to the next op also across routine boundaries, alias routines, jump marker not last is dropped; counterexample theorems show each WF' clause is needed. The model is compared with the real code on every run.",
        note=COMMON_NOTE + "The model starts at the statement AST: the text layer is covered differentially (the real decompiler's text is parsed by the repository's own SsbScript parser into the AST and compared with the model's AST; harness/astdump_ssbs.py is trusted glue, cross-checked by astdump(print(ast)) == ast) and the printing/lexing of parameter literals belongs to C04. Known finding opcode_name_is_keyword: opcode names that are SsbScript keywords do not survive (ParseError)."),
    "C02": dict(
        level="translation_validation", design="4/C02",
        technique="translation validation: Lean 4 kernel-checked equivalence checker (check_sound) on the real decompiler's output (parsed text vs input; recompiled text vs input), per input",
        text="For every generated well-formed routine set (checked by the Lean machine: every path ends, no Jump-only cycle) the real decompiler's text is parsed with the repo's parser, given meaning by the Lean source semantics and validated against the input on the Lean SSB machine by the proven checker; the text is also compiled with the real compiler and validated machine-vs-machine; routine tables are compared. The front phases of the decompiler ARE modelled and proved for all inputs (lean/ESV/Decomp, ESV.DecompFront.resolve_preserves: the label resolver's output behaves like the input routine set; baseGraph_preserves: the base control-flow graph of SsbGraphMinimizer.__init__ is the control flow of the routine; optimizePaths_preserves and buildBranches_preserves: the first two rewriting passes preserve the behaviour of the graph, the latter for every answer of the heuristic join search that satisfies a decidable predicate evaluated on the real answers; groupBranches_preserves / invertBranches_stepB for the next two passes over the flag-based reading stepB; buildSwitchCases_preserves / groupSwitchCases_preserves for the switch passes over stepS; buildLoops_preserves / removeLabelMarkers_preserves for the last passes over stepL; front_through_graph_phase_preserve composes all eleven graph passes: the graph that is handed to the text writers behaves like the resolver's item list, for every answer of the heuristic searches that satisfies decidable predicates evaluated on the recorded real answers) and tied to the running code exactly on every generated routine set (labels, interleaved routines, vertex and edge lists with flow levels and loop flags, exception classes; igraph's incident-edge order re-measured); the real intermediate graphs are also validated per input by the proven checker. The text writers are modelled at the level of the statement tree they print (lean/ESV/Decomp/Writer*.lean), tied exactly (model program = lowered parse of the real text, exception class = exception class, on every generated routine set) and proved to preserve behaviour for the label-free and join fragments (writeRoutine_straightline / _labelfree / _joins: about half of the real routines); for switches, loops and jump statements in the writers, and for the decisions of the heuristic searches (recorded oracle inputs), no forall-inputs statement is claimed - those are validated per input. Input classes on which the pinned decompiler is wrong are known findings identified by a shape predicate of the input.",
        note=TV_NOTE + "Of the decompiler, label resolution, base graph construction, optimize_paths, build_branches (join search as recorded oracle), group_branches, invert_branches, build_and_group_switch_cases, group_switch_cases, build_switch_fallthroughs, build_loops and remove_label_markers and the text writers (statement-tree level) are modelled - the whole of convert(); heuristic searches as recorded oracles; the heuristic graph rewriting behind them and the writers are not. String parameters are kept inside C04's guard. A dungeon-mode number 0..3 may come back as its constant."),
    "C06": dict(
        level="other", design="4/C06",
        technique="Lean 4 proofs of every part of convert() that can raise past its try: label resolution never raises on well-formed routine sets (ESV.DecompFront.resolve_total, model tied exactly to the running code) and the fallback path is total and exact (ESV.C07.decompile_ok, ssbscript_roundtrip); the shape of convert() (what runs before the try, `except Exception`, handler = SsbScript decompiler) is read from the current source and compared with the pinned reading; termination and the structured path are explored on generated well-formed routine sets with op-for-op comparison of every fallback through the real compiler",
        text="Proof: (1) the only code of ExplorerScriptSsbDecompiler.convert that runs outside its try block is the label resolver (OpsLabelJumpToResolver / process_op_for_jump): it is modelled statement by statement (lean/ESV/Decomp/Model.lean; labels, interleaved routines and exception classes compared exactly with the running code on every generated routine set), and resolve_total shows that it raises nothing on ANY well-formed routine set (offsets increasing from 0, every jump-carrying op has an existing target as last parameter); resolve_preserves / baseGraph_preserves show in addition that the resolver's output and the base control-flow graph (SsbGraphMinimizer.__init__, also modelled and tied exactly, igraph edge order re-measured every run) behave like the input. Everything after it sits in `try: ... except Exception:` whose handler returns SsbScriptSsbDecompiler(...).convert(prefix) - that shape is extracted from the current source on every run and compared with a pinned reading. (2) the fallback text is the SsbScript decompiler's output; its exactness (compile(decompile x) reproduces x op for op) and the absence of exceptions on well-formed input are kernel-checked theorems over all routine sets. Exploration: that convert() answers at all (Python exception flow through igraph-based passes) cannot be a theorem here; it is explored on compiler-shaped and random well-formed routine sets (irreducible loops, jumps into blocks, jump-only routines), and each fallback produced is checked for the marker line and compiled back with the real ExplorerScript compiler.",
        note=COMMON_NOTE + "Not a theorem: termination of the igraph-based passes inside the try (explored with per-case time limits), exceptions that are not subclasses of Exception (none is raised by the code: KeyboardInterrupt/SystemExit only), and deepcopy of the input."),
    "C09": dict(
        level="other", design="4/C09",
        technique="Lean 4 proof of the writer protocol (line accounting and entry positions for all call sequences) tied to the code by replaying every recorded real call sequence; per-input validation of op-to-statement attribution through recompilation and the proven checker",
        text="Proof (K3): for every sequence of writer calls the line counter equals 1 + newlines written (also with multi-line strings), and an entry recorded before a statement names the 0-based line and the column where its text begins (ESV.C09.writer_line_inv, writer_entry_pos, writer_entry_inline_pos); the real decompilers' recorded call sequences are replayed through the Lean writer on every run and must give the identical text and map. SsbScript decompiler (which also writes the fallback text): modelled at character level as a fold of those writer calls (lean/ESV/SsbScript/Text.lean: text, add_opcode calls, position marks, exception classes) and compared exactly with SsbScriptSsbDecompiler.convert(prefix) on every run (generated and random routine sets, with and without prefix); for ALL routine sets and prefixes ESV.C09.ssbs_entry_per_op (one entry per printed op, keyed by its offset, in order), ssbs_entry_points_at_statement (the entry names an existing line of the text, column 4, where the op's name and an opening parenthesis begin), ssbs_line_of_next (strictly increasing lines) and ssbs_text_prints_ast (the text is the printed statement AST of the C07 model). Validation per input: keys are input offsets, entries sit at statement starts, every printed op has an entry, and after compiling the emitted text the op related to it by the proven checker is on the same line.",
        note=COMMON_NOTE + "Which op a statement belongs to is decided by unmodelled graph passes: validated per explored input. The compile-time map of the emitted text is the reference (C08)."),
    "C13": dict(
        level="translation_validation", design="4/C13",
        technique="per-input validation: decidable predicates (no jump statement, operations printed exactly once) on the parsed decompiler output + Lean kernel-checked behavioural validation",
        text="Flat structured programs are generated, compiled by the real compiler, decompiled by the real decompiler; the decompiled text must be ExplorerScript (no fallback), contain no jump statement, print every operation of the source exactly once, and (C02 machinery) be behaviourally equal to the compiled routines by the proven checker. Known findings: switch cases consisting only of break; default grouped with a case.",
        note=TV_NOTE + "The decompiler is not modelled; the claim is per explored input."),
    "C14": dict(
        level="proof", design="4/C14",
        technique="Lean 4 theorems about a hand-written model of source_map.py (serialize/deserialize/rewrite_offsets) + exact model-vs-implementation correspondence + property oracle on real objects",
        text="Kernel-checked theorems for all source maps with dict-like key uniqueness and all injective offset mappings: deserialize∘serialize = id (all four tables, every field), re-serialisation identical, equality after round trip, rewrite_offsets moves exactly the entries whose op is in the mapping and maps each return address to the new offset of the next surviving op. The model is compared with the real code on every run; operation sequences on ONE object (serialize / pretty / str / rewrite_offsets / store-and-read-back / ==, 2-7 steps) must answer at every step like a fresh object with the same entries, which is the functional reading the theorems state.",
        note=COMMON_NOTE + "Python's json module round trip on ints/strings/null/lists/objects is assumed; ill-typed JSON documents are out of scope."),
    "C17": dict(
        level="proof", design="4/C17",
        technique="Lean 4 theorems about a hand-written model of Pygments' Lexer.get_tokens preprocessing + RegexLexer loop + one matcher per regex of the regenerated rule table; table lemmas (rules_known, cover_ok, opts_known) over the regenerated tables; exact model-vs-implementation comparison of token lists and of every rule's compiled regex; property oracle on the real lexer",
        text="Kernel-checked for ALL texts (lists of Unicode scalar values) about the model: the lexer loop always terminates with a token list (every rule application consumes >= 1 character, no empty match, no missing state), the token texts of get_tokens_unprocessed concatenate to exactly the input, get_tokens' token texts concatenate to the preprocessed input, and no Error token is ever emitted (for any text, not only accepted programs). The literal property is false on the pinned code (Pygments defaults strip a leading U+FEFF, leading and trailing newlines and normalise CR): proved instead under the decidable guard Clean, which is shown to be exact (no_text_lost_iff), with kernel-checked counterexamples; the four defect shapes are recorded as known findings and replayed on the real lexer on every run.",
        note=COMMON_NOTE + "Pygments' RegexLexer engine, Lexer.get_tokens and Python's re module are MODELLED by hand, not verified: the tie is the per-run differential comparison (token lists on generated texts incl. exhaustive enumeration over the delimiter alphabet, every rule's compiled regex object vs the Lean matcher at random positions) plus table lemmas that fail to build when a regex, flag, state action or lexer option outside the modelled set appears. Unicode \\w/\\d membership tables are read from the running interpreter's re. words(): regex_opt's alternation order is argued irrelevant (keywords are ASCII word-character strings followed by \\b), not proved. Lone surrogates and bytes input are outside the model (surrogates are exercised on the real lexer only)."),
    "C10": dict(
        level="other", design="4/C10",
        technique="(A) Lean 4 theorems about a hand-written model of the compiler's rejection sites (lean/ESV/Static/Wf.lean: SsbScript dispatch, resolution of every import statement on its own "
                  "(direct path / first lookup path that has the file), import recursion with recursion_check, macro cycle check, macros-only check, routine id check, add phase and collect phase of every compile handler in the real collect "
                  "order, fixed-point routine target, OpsLabelJumpToRemover) on a static AST produced by the harness from the surface AST, tied to /repo on every run by "
                  "exception-CLASS equality on generated statically invalid / valid programs and import worlds; (B) exploration of compile() on generated strings in "
                  "worker processes (time and memory limits) with delta-debugged failing inputs; compile CLI run in a subprocess",
        text="Split claim, reported separately in the evidence. PROOF (part A, kernel-checked for ALL static ASTs, ALL imported macro sets, ALL import worlds, no guard): "
             "a program containing `break` at a position not enclosed by a switch case (loops do not reset the case flag, macro bodies do), `continue`/`break_loop` "
             "outside a loop, a jump or call to a label no routine places (labels placed only in macro bodies do not count; jumps inside macro expansions are private), "
             "a switch ending in a case without statements, two defaults (switch or message switch), a message-switch case holding statements, a label in a with-block, "
             "`not` on a bit test of a variable other than the performance progress list (if/elseif/while/for header), a call of an unknown macro, a call leaving a "
             "macro variable without value (ValueError), recursion among the file's macros (cycle check proved complete: macroCycle_of_closed), a missing import statement at any position of an import list "
             "(direct: the path is no file; lookup style: no lookup path has the file, whatever was found for the statements before it — resolve_lookup_none, "
             "imports_resolved_independently, rejects_missing_import_at), an import cycle reachable from the compiled file, routines in an imported file, an imported SsbScript file, or any failing imported file is rejected by the "
             "model with a documented class (rejects_* theorems, one per shape, plus core_rejects_* for Static.check on the core AST; also a first routine id other than "
             "0 and a decimal routine target). error_kinds_documented / world_error_kinds_documented: every error of the model, with or without imports, is "
             "SsbCompilerError or ValueError. The model follows the repaired /repo: the two clauses that were false on the pinned tree (IndexError from strip_last_label "
             "before the label check; routines in imported files accepted) were repaired by fix: commits and the guards/counterexamples are gone. EXPLORATION (part B, "
             "no theorem): 'never another exception type' over strings — token/character corruptions of valid programs, degenerate routines, routine headers, huge "
             "numbers, //?: attribute lines in all positions, SsbScript sources behind the attribute, random Unicode, nesting up to 200; quick 3 200 strings, thorough "
             "127 000. An undocumented exception type, a hang, an accepted defect, output left after a rejection, or a CLI that exits 0 / prints JSON on rejection is a "
             "VIOLATION. The 17 (type, site) pairs / shapes found on the pinned tree are all repaired (known_findings.jsonl, status fixed) and their minimal inputs are "
             "re-run first on every run.",
        note=COMMON_NOTE + "Part B is exploration only: the ANTLR runtime and the generated lexers/parsers are not modelled, so the exception class for an arbitrary string is "
             "searched, not proved. The model covers the rejection sites, not the back end: the order check on op offsets (a routine id written twice or out of order: "
             "SsbCompilerError) and LabelFinalizer are outside it; generated programs write every id once, ascending. The compile order of the macros of one file (macro "
             "resolution order, defect A4 of C05) is not modelled; generated macro call graphs are forests and a too-few-arguments call is never combined with a defect in "
             "another macro body. The harness does the path arithmetic of imports (join with the importing file's directory and each lookup path, posix normalisation); "
             "which candidate is a file, which lookup path wins and whether a statement is missing is decided in the Lean model; realpath/symlinks are not modelled. Import recursion uses fuel = number of files + 1; running out of fuel is reported as the SsbCompilerError the implementation raises one "
             "level earlier (pigeonhole argument, not proved). Workers run compile() with Python's default recursion limit (1000) and 1500 MB address space."),
    "C15": dict(
        level="proof", design="4/C15",
        technique="Lean 4 theorems about a hand-written model of cli/compile.py (build_ops, build_routines_json) and cli/decompile.py (parse_pos_mark_arg, "
                  "read_ops, read_routines, check_settings, the decompiler's coroutine id -> name table) and of the documented JSON structure (DocShape); "
                  "exact model-vs-implementation comparison (real functions in-process, and what the real commands print); property oracle on real "
                  "subprocess runs of `python -m explorerscript.cli.compile|decompile`; behavioural end-to-end part by translation validation "
                  "(kernel-checked validator beh.validate on the text the decompile command prints)",
        text="Kernel-checked about the model of the CURRENT code (after the fix: commits e79af4f, c9fbb9f, 463a62a, 61b451d), for ALL routine sets (any "
             "routine kinds, ops, parameters, offsets): what the decompile command reads from what the compile command prints is the canonical form of the "
             "set — same routines/ops/parameters, every jump parameter replaced by the 1-based position of the op it denotes, every op numbered by its "
             "position across all routines, coroutines named (cli_roundtrip); for every closed well-formed set each printed jump parameter IS the position of "
             "its target op (cli_build_positional) and the set the decompile command works on is a renumbering of the compiler's set whose jump parameters "
             "are positions (cli_positional: Renumbering c (canon c) and Positional (canon c)); every COROUTINE routine finds its name (cli_coroutines_named); "
             "the printed JSON has the documented structure (cli_docshape); check_settings + read_routines accept EVERY document of the documented structure "
             "— all five routine types, both target forms, all six argument types, integer or string position coordinates (cli_accepts_documented). Without "
             "the position table the round trip of a closed set is a renumbering iff the jump parameters already are positions (cli_raw_positional_iff). "
             "The defects of the pinned tree are kept as kernel-checked witnesses against a definition of the OLD behaviour (lean/ESV/Cli/Pinned.lean): "
             "cli_gap_counterexample, cli_gap_wrong_op_counterexample, cli_out_of_order_counterexample (internal offsets printed), "
             "cli_coroutine_counterexample, cli_target_null_counterexample, cli_posmark_int_counterexample — each also states what the repaired code gives; "
             "the same programs run through the real commands on every run and a regression is reported as a violation with the failing source. "
             "check_settings lets a document through only if the settings block is complete (cli_settings_complete). "
             "The behavioural end-to-end claim (decompiled text behaves like the source) and the exit-status claim are NOT theorems: they are checked per "
             "run on real subprocesses (translation validation with the proven checker; 70 programs quick / 2000 thorough through both commands, plus "
             "generated documented documents through the decompile command, and a stream of ~45 settings files — every documented member missing at "
             "every level, wrong types, additional members — through both commands).",
        note=COMMON_NOTE + "The decompiler behind read_routines is not modelled; where its text is wrong the check verifies that the command's text is "
             "identical to the decompiler's own answer through the Python API on the same routine set and records the case as the decompiler's defect "
             "(C02/C06); an SsbScript fall-back text is only compared with the API's text. Outside the model: JSON true/false (Python bool is an int), duplicate keys, documents that rely on duck typing (non-string "
             "opcode/constant/name), int(s, 0) spellings outside the INTEGER token (blanks, '+', '_'). DocShape is this project's reading of "
             "docs/cli_api_usage.rst (additional members allowed; target_id integer or string; FIXED_POINT a decimal string; position coordinates integer "
             "or whole/half-tile string); a hand-written Python validator of the same reading is compared with it on every document. "
             "json.loads(json.dumps(v)) == v is assumed (stdlib)."),
    "C08": dict(
        level="other", design="4/C08",
        technique="property oracle on the real compiler over marked multi-file projects (every op-producing source node recognisable from the content of its op; positions from the harness printer) + Lean 4 proof of the SourceMapBuilder protocol for all command sequences and of the counting behind macro return addresses for all blueprints + per-input validation (recorded builder calls replayed through the Lean model, every ExplorerScriptMacro.build call re-derived by the Lean model of build, decidable disciplines of the theorems evaluated on the recorded run)",
        text="Proof (K3), kernel-checked for ALL command sequences of SourceMapBuilder: the entry under an offset is the argument of the last add_opcode / add_macro_opcode for it (entry_is_last_add); a macro entry takes return address and parameter mapping from the top of the context stack and the call position from the pending next_macro_opcode_called_in (macro_entry_uses_stack_top); a call position is consumed by exactly the next add_macro_opcode (called_in_once); no offset is in both tables when the offsets given to the two methods are disjoint (direct_and_macro_disjoint_if); a run raises iff a pop or add_macro_opcode happens outside every context, and bracketed sequences leave the stack as found (run_ok_iff_depthOk, push_pop_balanced). For ALL blueprint lists built from ops, labels, concatenation and outputs of build: expanding at counter c pushes c+n+1 (n = non-label items), hands out exactly the offsets c+1..c+n, each smaller than the return address on top of the stack at that moment, every nested return address equals the next number of the counter when its expansion ends (ret_addr_bounds, blueprint_seg, events_bounds), the builder calls of the model of build follow that machine (buildLoop_trace), and the list build returns (nested start labels carrying the substituted parameter mappings) is a blueprint again (buildItems_blueprint). Validation per explored input: which source node an op belongs to, the designated-node table (design_notes/C08.md), macro file / name / position, call position on the first op, return address bounds against the real emitted ops, files named, position marks — checked by the oracle on the real compiler's output; no forall-programs statement about the compile handlers is claimed.",
        note=COMMON_NOTE + "The compile handlers and the ANTLR parser are not modelled. Positions come from the harness printer (cross-checked by parsing the text back with the repository's parser). Label jumps (Jump/Call ops) carry no recognisable content: each must have an entry at the start of some statement, header or case, and a census ties them to their statements (every continue / break / break_loop / jump / call statement, loop, switch and if registers the number of entries its handler generates at its own start, counted over emitted and dropped ops); exchanging the entries of two jump ops among themselves is not observable. Three narrow known findings remain in known_findings.jsonl (outer call site shadowed when a macro starts with a macro call, call position recorded on an op that jump elimination drops, position mark tuple layout vs docs). Five defects found by this check were repaired in /repo (1dfd06a hang on Position literals in nested same-file macros, db2d608 wrong file for transitively imported macros, a2649b8 position marks of other macros of a file, d39fded null file for relayed position marks, 4303b4a wrong parameter mapping at depth 3); their witnesses run as regression tests that must pass, a regression is a VIOLATION with the witness as failing input."),
    "C11": dict(
        level="other", design="4/C11",
        technique="Lean 4 theorems about an abstract protocol machine (K3) for the id(graph)-keyed memo table of graph_utils.py under ALL histories of "
                  "alloc / mutate / clear / query (lookup, store sections) / drop with recyclable ids, plus two small object models (parameter `indent`, compiler object); "
                  "trace validation: real convert() runs recorded by wrappers installed from outside are replayed through the Lean machine section by section and judged by the "
                  "Lean discipline predicates; history exploration of the real code: every call after a generated history in a long-lived process is compared byte for byte "
                  "with the same call alone in a fresh process, differences are shrunk and diagnosed; static tie: an AST inventory of mutable default arguments and of module/class-level state written by functions, "
                  "regenerated on every run and decided equal (table lemma history_state_inventory_pinned) to the list the model accounts for",
        text="Kernel-checked for ALL histories, graph ids (recycled or not), keys, arguments, contents and for an arbitrary search function: (cache_fresh) if every (re)allocation and "
             "mutation of a graph is followed by a clear before the next query and no key is queried with two argument sets between clears, every value the table returns is the value "
             "recomputed from the graph as it is now, from ANY earlier state of the table, and no KeyError; (call_independent_of_memo) a call whose queries all follow a clear of the "
             "same id within the call gives identical outputs (values and hit/miss) from any two states of the table, in particular after any history and in a fresh process; "
             "(tidy_prefix_then_fresh) the same holds for any call if the history before it left every table empty; counterexample theorems show that neither guard can be dropped "
             "(an id recycled after an abandoned convert() answers with the dead graph's value). print_indent_only: printing writes nothing but `indent`, the op keeps its meaning and "
             "compares equal; compile_reset: compile() on an object in any state leaves exactly the object state and exception of a freshly constructed object (all result attributes "
             "incl. macro_resolution_order, constructor state untouched). On every run the recorded real histories (quick: ~10^4 sections) must agree with the machine and every recorded call must be Isolated or follow a Tidy "
             "history - so the memo table cannot make a result depend on the history; all other process-wide state is covered by the exploration only: quick 100 histories x <= 6 calls, "
             "thorough 5000 x <= 20, with failing inputs, abandoned decompilations, repeated inputs, reused compiler objects, gc and allocation churn, the decompile CLI helpers, every reference "
             "call repeated in fresh processes under other hash seeds (1, random; more when the inventory flags set iteration) with identical results required.",
        note="K3: the machine is an abstraction of the locking/clearing protocol, not a model of the decompiler; the graph search `_impl` is a parameter. Trusted: Lean 4.33 kernel (axioms "
             "audited per run), the instrumentation in harness/impl_cache.py (monkeypatches; completeness of the mutation hooks is cross-checked by graph fingerprints at every query), "
             "the driver's JSON glue. NOT modellable and covered by exploration only: which ids CPython recycles (allocator state; id reuse is provoked, and observed in every run, but not "
             "controlled), the ANTLR runtime's class-level ATN/DFA caches (known finding: they change the MESSAGE of ParseErrors), igraph's internals, hash-seed dependent iteration "
             "orders. Known finding on the current tree: ParseError message. Found by this check and fixed in /repo during this round (oracle strict again): stale memo entry under a recycled id "
             "after an abandoned convert() (16ab1ed), cli read_routines module-level counter (5dd8dac), macro_resolution_order not reset (9934639), convert() twice on one decompiler object (e16283a)."),
    "C12": dict(
        level="other", design="4/C12",
        technique="Lean 4 theorem about the same memo-table machine shared by any number of threads under EVERY interleaving of the atomic sections the real functions consist of "
                  "(lock;lookup;unlock - compute - lock;store;unlock - lock;clear;unlock, ids recyclable between threads); trace validation of recorded concurrent runs against the "
                  "threaded Lean machine; schedule exploration of the real code: a deterministic PRNG-driven scheduler built on a sys.settrace line hook (schedule = replayable switch "
                  "list) and free running threads with a 1 microsecond switch interval, each run in a fresh process, every call compared with the same call alone; cold-start interpreters whose first calls are made by 6-8 threads at once; a compiler-only scenario (deeply nested inputs next to small ones at the interpreter's "
                  "default recursion limit); a static inventory of every write to process-wide state in the source, decided equal (table lemma) to the list the thread model accounts for",
        text="Kernel-checked (interleave_safe) for any number of threads, all programs and ALL schedules: if every thread follows the clear protocol on the graphs it owns, every query "
             "returns the value recomputed from the thread's own graph as it is at that moment and no section raises KeyError - the unlocked compute and the store 'after the cache may "
             "have been cleared in the meantime' are harmless, and recycled ids between threads are harmless; (interleave_sequential) hence, without ill-formed steps, every thread's query results are exactly those of its program run alone; "
             "interleave_stale_counterexample shows the result of a thread that queries before clearing depends on the schedule. Real concurrent runs are replayed through the machine on every run (events must agree). The property itself (each call returns "
             "what it returns alone, no foreign exception) is explored: quick ~20 scheduler runs (~10^6 yield points, ~10^5 thread switches) + ~20 free runs with 2-8 threads, thorough "
             "~500 + ~400; sequential-in-process and fresh-process references.",
        note="K3 abstraction as for C11; thread-private graphs (ownership) is an assumption of the theorem that the recorded runs are checked against (an op on a graph of another "
             "thread would show as an ill-formed step). shared_inventory_pinned ties the model's list of shared state to an AST inventory of the current source (sys.set* and similar calls, global statements, mutated module-level "
             "objects and the way they are mutated, unshadowed class-level mutables, class attribute writes, the generated parsers' class-level caches): a new shared write breaks "
             "the build and triggers a targeted schedule search. NOT modellable here, exploration only: the GIL's switch points inside C code (igraph, dict operations are atomic for the "
             "scheduler), CPython's id recycling, the ANTLR runtime's shared ATN/DFA caches (half of the scheduler runs also trace the antlr4 ATN simulators so that switches happen "
             "inside adaptivePredict/addDFAState; known finding: the MESSAGE of a ParseError depends on which thread parsed first). The deterministic scheduler serialises threads: it "
             "explores interleavings at the granularity of traced lines of graph_utils, graph_minimizer, ssb_decompiler, explorerscript_reader, macro, compiler utils, ssb_compiler, "
             "source_map only."),
    "C16": dict(
        level="other", design="4/C16",
        technique="Lean 4 theorems about a hand-written maximal-munch model of the token rules of ExplorerScript.g4 + SsbCommon.g4 (lean/ESV/Lex; vocabulary regenerated "
                  "from ExplorerScript.tokens, rule bodies keyed by the serialized ATN) and about the C04 literal readers + exact differential tie with the generated ANTLR lexer "
                  "(type, text, offset of every token) + metamorphic property oracle on the real compiler (k re-renderings of every generated program)",
        text="PARTIAL. Kernel-checked for ALL inputs, about the lexer model: a text classified as one token (punctuation, keyword/identifier, variable/macro call, INTEGER, DECIMAL, "
             "STRING_LITERAL, MULTILINE_STRING_LITERAL) followed by ANY separator made of blanks, line breaks, line comments, block comments and line joinings - or by no separator "
             "at a boundary the decidable predicate safeBoundary accepts - is lexed to that token and the rest is lexed as if it stood alone (skip_insertion, safe_boundary_suffices, "
             "separator_invisible, trailing_comment_invisible incl. the unterminated block comment); hence two renderings of one token sequence with any admissible separators have the "
             "same non-skip tokens (render_lex, layout_irrelevant_tokens). Side condition found by the proof: the text after a line joining must not continue with blanks and a form feed "
             "(line_joining_swallows_form_feed is the kernel-checked counterexample, replayed on the real lexer). The harness printer's separator table needs_sep is proved sound "
             "(needs_sep_sound) and compared with its Lean copy on every adjacent token pair. Literal values: every base/case/sign spelling of an integer is an INTEGER token and reads as "
             "the same value (int_spelling_irrelevant, int_zero_spellings), leading zeros of a decimal's whole part do not change the fixed-point value (decimal_leading_zeros_irrelevant), "
             "'...' vs \"...\" and the triple-quoted forms at any indentation read as the same string under the C04 guards (quote_style_irrelevant, multiline_form_irrelevant); thin models "
             "of for_target_def.collect and label.collect give header_spelling_irrelevant and label_marker_irrelevant. NOT proved: that the ANTLR parser and the compiler map equal token "
             "sequences with equal literal values to equal ops - the parser is not modelled. That step is covered by search only: quick 100 programs x 8 renderings, thorough 5000 x 20 "
             "(layout styles x re-spelling dimensions int/dec/str/label/header/comma/pos; every program is enriched with decimals of both signs in every integer-like slot, "
             "strings and marker names containing quotes in every string slot incl. import paths, negative integers), all compiled by the real compiler and compared field by field (ops incl. offsets and "
             "position-mark fields, routine infos, coroutine names, source map up to positions); violations are attributed to one dimension and shrunk.",
        note=COMMON_NOTE + "ANTLR's lexer semantics (longest match over all rules, first rule wins ties, a non-greedy sub-rule ends its rule at the first possible end, EOF inside "
             "BLOCK_COMMENT) is modelled by hand; the tie is the per-run comparison with the real lexer on every rendered program, on corrupted renderings and on random strings "
             "(0 mismatches on 300 000+ texts in the thorough tier). The rules DECIMAL_INTEGER/OCT_/HEX_/BIN_INTEGER (shadowed by INTEGER) are left out of the model. The ANTLR parser, "
             "the tree visitors and the compile handlers other than the two thin header/label models are NOT modelled. String re-spellings stay inside the C04 guards (no backslashes)."),
    "C18": dict(
        level="other", design="4/C18",
        technique="Lean 4 theorems about text spans (ANTLR line/column bookkeeping, offsetOf, replaceSpan) and, on the C16 lexer model, about splicing the printed form of a mark into "
                  "a rendering + differential ties (Lean replaceSpan vs the harness' splice, Lean posOf vs ANTLR token positions) + property oracle on the real PositionMarkVisitor, "
                  "compiler and printed form for generated programs with Position literals in every argument list of the grammar",
        text="PARTIAL. Kernel-checked for ALL texts (lists of code points): the (line, column) ANTLR's input stream gives to a character and the line-walking offsetOf are inverse "
             "(offset_position_inverse, position_offset_inverse); replacing the span from the first character of a literal to its LAST character inclusive - the listing's convention - "
             "by any new text yields pre ++ new ++ post, whatever line breaks and non-ASCII characters occur (splice_local); the printed form of a mark whose name needs no escaping is the "
             "eight-token sequence Position < 'name' , x , y > with safe inner boundaries (printed_mark_tokens), and splicing it for the pieces of a Position literal inside an admissible "
             "rendering changes the token sequence of the C16 lexer model exactly in the tokens of that literal (splice_tokens, splice_printed_mark); the printed form reads back as the "
             "mark (posmark_print_parse, from C04). NOT proved: that PositionMarkVisitor reports exactly one entry per position_marker context in source order with the positions of its "
             "first and last token, and that the compiler builds the parameter from the same tokens - the visitor walks an ANTLR parse tree, which is not modelled. These are decided by "
             "search on the real code: quick 200 / thorough 10 000 generated programs (literals in routine operations, macro bodies, macro-call arguments, with-blocks, inline-context "
             "operations, if/while/for/switch header operations, for-loop initialiser/increment; several per line, multi-line, comments inside, both quote styles, all number spellings, "
             "names with quotes/commas/'>'/non-ASCII/astral characters): (a) listing == printer's positions in order, (b) listing fields == literal value == every compiled parameter "
             "stemming from the literal (field-wise, name included), (c) for up to 4 literals per program an edited mark is spliced into the delimited span and the text recompiled: all "
             "ops, infos and coroutine names equal except that literal's parameter(s), which equal the edited mark; the listing of the new text changes in that entry only. "
             "Known finding (1 kind): a coordinate spelled -.5 parses but makes the listing (and the compiler) raise ValueError.",
        note=COMMON_NOTE + "ANTLR token positions (ctx.start/ctx.stop line and column, counted in code points, only \\n ends a line) are trusted and compared with Lean posOf on every "
             "token of the generated texts; the harness printer's own position bookkeeping is trusted. Edited marks use offsets 0/2 and names the printed form reproduces (predicate printable_name = C04 guard: no single quote, line break or form feed, no backslash directly before a quote or the letter n, no unpaired backslash at the end; backslash + ordinary character and doubled backslashes ARE used; half of the edits keep the literal's own name and change coordinates only); names with a quote or a backslash before quote/n/end stay excluded "
             "(outside that the printed form itself is lossy: C04 known findings). The compile-time source map's own position-mark spans (ArgListCompileHandler uses the span of the "
             "whole argument list) are C08's subject, not this property's."),
    "C05": dict(
        level="proof", design="4/C05 + 8.3",
        technique="behaviour: translation validation with the kernel-checked equivalence checker (check_sound) — real compiler output of generated programs with macros "
                  "(single file and multi-file layouts in temporary directories) vs the Lean source semantics of the program containing all macros (Stmt.macroCall = body inlined), "
                  "and vs the real compiler's output for the textually inlined macro-free program; ordering and import resolution: Lean 4 theorems about hand-written models of "
                  "MacroResolutionOrderVisitor (igraph vertex order = order of first mention, in_edges, _check_cycles, the ordering loop of repair 0989cb8 statement by statement), MacroVisitor's sort and _resolve_imported_file + exact "
                  "model-vs-implementation comparison (resolution order of every compiled file, resolved paths on the real temporary tree) + property oracles on the real outputs",
        text="All three sentences of the property are backed by kernel-checked theorems for ALL inputs about hand-written models that are compared exactly with the real code on every run (PARTIAL where a "
             "decidable fragment / guard is stated). The first sentence (compiled routines behave like the program with every macro call "
             "replaced by the body, parameters substituted, return leaving only the macro, labels private per expansion) is, in addition, decided per generated program by the proven checker on the REAL compiler's output (that is what exhibits a failing input when ExplorerScriptMacro.build is changed); "
             "for single-file programs it is a kernel-checked theorem about the compiler model ESV.Comp (tied op for op to the real compiler by C03): compile_correct_F5 - for ALL "
             "programs of the decidable fragment F5Prog (all statement forms, macros in any definition order under any resolution order for which compileMacros succeeds, nested calls, "
             "labels private to each expansion, return; macro names and variables distinct, macro bodies mention only their own labels; 96.6 % of the generated single-file programs: "
             "evidence in_F5) the source semantics in which a macro call IS the inlined body is behaviourally equivalent to the SSB machine on the compile result; and for projects with imports "
             "compile_correct_F6: the behaviour is that of the flattened project (Lean model of the import closure of _compile: imports resolved by the model of _resolve_imported_file, "
             "recursion check, macros-only compilation of imported files, routines in imports rejected), tied to the real compiler by exact comparison of the real multi-file result with the "
             "model's result on every generated layout (evidence in_F6, F6:flattened_model_result_equals_real). Each program is validated twice: against the Lean semantics in which a macro call "
             "IS the inlined body, and against the real compiler's output for the textually inlined program; all definition orders of a macro set must compile and be pairwise equivalent. "
             "The other two sentences are backed by kernel-checked theorems for ALL inputs about faithful models, and since /repo commit 0989cb8 (the repair this check proposed, "
             "now the code) the ordering statements hold IN FULL, without guard: the cycle check rejects exactly the cyclic call relations (cycle_detected_iff); the ordering loop never fails "
             "to find a next macro, so exactly the acyclic inputs get a resolution order (visit_never_stops, visitStart_ok_iff); that order lists every mentioned macro exactly once "
             "(order_total) and every callee before its callers (order_topological); hence every acyclic, closed set of macro definitions compiles in every definition order "
             "(all_acyclic_compile, via compiles_of_topological). The ordering of the pinned tree (one BFS per root + remove-then-append merge) is kept as ...Pinned definitions only: "
             "order_topological_counterexample / witness_does_not_compile state that it ordered macro top(){~mid();~leaf();} macro mid(){~leaf();} macro leaf(){..} as [leaf, top, mid] and "
             "rejected it with 'Macro mid not found', and that the repaired code gives [leaf, mid, top] and compiles it; the same witness runs on the real compiler on every run. "
             "Import resolution: relative imports resolve against the importing file's directory, absolute "
             "imports to themselves, other imports to the candidate of the first lookup path in list order whose candidate exists, none -> not found, '.'/'..' components rejected "
             "(resolve_relative, resolve_absolute, resolve_lookup_first_match, resolve_lookup_none, resolve_rejects_dot_components). Models are compared with the real code on every run.",
        note=TV_NOTE + "Additionally trusted for the ordering/import theorems: the hand-written models (tied by exact comparison on every run: macro_resolution_order of the main file and of "
             "every imported file, the paths _resolve_imported_file returns on the real temporary tree, error classes), igraph's behaviour as modelled (vertex ids in order of first mention, in_edges, "
             "get_all_simple_paths non-empty iff reachable), os.path.realpath modelled as lexical normalisation (the trees contain no symbolic links), the harness reading "
             "of the import rules of docs/language_spec.rst. No known finding is open: the four defects this check found (acyclic macro sets rejected because the resolution order was not topological, compile never returning for "
             "position marks in nested macros of one file, imported files with routines accepted, a directory taken for an import candidate) were repaired in /repo "
             "(0989cb8, 1dfd06a, 71619a5, 804e3de) and are recorded as fixed. "
             "Parameters receiving $PERFORMANCE_PROGRESS_LIST, non-integer arguments in integer-like positions and imports starting with '.' but not './' are outside the generated set."),
}

PENDING_REASON ="check not built yet in this round (design in DESIGN.md §4); will be claimed once its Lean model and correspondence exist"


def main() -> None:
    props = [json.loads(l)["id"] for l in open(os.path.join(HERE, "properties.jsonl"))]
    checks = []
    for pid in props:
        c = CHECKS.get(pid)
        if not c:
            continue
        checks.append({
            "property_id": pid,
            "quick_cmd": f"./check {pid} --tier quick",
            "thorough_cmd": f"./check {pid} --tier thorough",
            "evidence_file": f"evidence/{pid}.json",
            "replay_cmd_template": f"./check {pid} --replay {{path}}",
            "engine": "lean4-esv",
            "level_claimed": {"category": c["level"], "text": c["text"], "design_ref": f"DESIGN.md §{c['design']}"},
            "level_note": c["note"],
            "technique": c["technique"],
        })
    man = {
        "version": 1,
        "setup_cmd": "cd lean && lake build ESV esvdrive",
        "hooks": {
            "guard": "TECH_TICKS_EXPLORERSCRIPT_VERIF",
            "enable": "no in-repo hooks: the harness imports /repo in-process and wraps functions from outside; the variable is set by ./check for completeness",
            "baseline_off_cmd": BASELINE,
            "source_commits": [],
            "add_only": True,
        },
        "engines": [{
            "name": "lean4-esv", "path": "lean/",
            "serves_properties": [c["property_id"] for c in checks],
            "kind_free_text": "Lean 4 project (models + theorems + compiled driver) with a Python correspondence/validation harness (harness/)",
        }],
        "checks": checks,
        "not_applicable": [{"property_id": p, "reason": PENDING_REASON} for p in props if p not in CHECKS],
        "notes": "Every check: regenerate lean/ESV/Gen/Tables.lean from /repo, lake build the property's theorems, audit axioms, run the implementation on generated inputs, evaluate the property oracle on the real outputs, compare with the Lean model. See DESIGN.md.",
    }
    with open(os.path.join(HERE, "MANIFEST.json"), "w") as fh:
        json.dump(man, fh, indent=1)


if __name__ == "__main__":
    main()
