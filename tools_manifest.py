"""Writes MANIFEST.json from the table below (single source of truth for what is claimed)."""
import json
import os

HERE = os.path.dirname(os.path.abspath(__file__))
BASELINE = "cd /repo && /venv/bin/python -m pytest -ra -q -p no:cacheprovider --timeout=900 --continue-on-collection-errors"

COMMON_NOTE = ("Trusted: Lean 4.33 kernel (+ propext, Classical.choice, Quot.sound only; audited by #print axioms on every run), "
               "harness/gen_tables.py, the Python correspondence harness and the Lean driver's JSON glue. "
               "Hand-written model is tied to /repo by exact differential comparison on generated inputs on every run. ")

TV_NOTE = ("Trusted: Lean 4.33 kernel and the theorem ESV.Beh.check_sound/validate_sound (axioms audited every run); the Lean compiler executing "
           "the validator in the driver; this project's reading of docs/language_spec.rst (lean/ESV/Src/Sem.lean + harness/gen/surface.py lowering table); "
           "opcode class tables pinned in lean/ESV/Beh/Spec.lean and proved equal to the tables regenerated from /repo (ESV.TableTie); "
           "printer/astdump glue (cross-checked per program). ")

CHECKS = {
    "C01": dict(
        level="translation_validation", design="4/C01",
        technique="translation validation: Lean 4 kernel-checked equivalence checker (check_sound) fed with the real compiler's output vs the Lean source semantics, on generated programs",
        text="Every generated program is compiled by the real compiler and each routine is validated against the Lean small-step source semantics on the Lean SSB machine by a checker whose soundness (equal operation/test traces for every outcome of every test, halting preserved) is a kernel-checked theorem over all transition systems and relations. A verdict is per program; no forall-programs theorem about the compiler is claimed.",
        note=TV_NOTE + "The ANTLR parser and the compiler are not modelled."),
    "C04": dict(
        level="proof", design="4/C04",
        technique="Lean 4 theorems about a hand-written model of the literal printers and readers (ssb_data_types.py repr_string/escape_*/"
                  "__str__ of every parameter class, compiler/utils.py singleline_/multiline_string_literal, util.exps_int, "
                  "SsbOpParamFixedPoint.from_str, common_syntax.parse_position_marker_arg, the STRING_LITERAL / MULTILINE_STRING_LITERAL / "
                  "INTEGER / DECIMAL token rules) + exact model-vs-implementation correspondence (functions, real ANTLR lexer's first token) + "
                  "property oracle on real op lists printed by both real decompilers in every printing context and compiled back by both real compilers",
        text="Kernel-checked for ALL strings, indents, quote preferences and following text: the text repr_string prints is consumed as exactly one "
             "string token of the intended kind and reads back as the original value (read_repr_string, tok_*_exact, const_string_roundtrip, "
             "langstring_roundtrip) under the decidable guards GuardS (single-line and both-triple-quotes fall-back form: every backslash is followed "
             "by a character other than the delimiting quote and is not last; no raw \\r or \\f outside such a pair; no backslash directly before the "
             "other quote or before the letter n) and GuardM (triple-quoted form: no str.splitlines boundary other than \\n; some line empty or "
             "starting with a non-blank; at indent 0 the last line not blank-only). Outside the guards the pinned code really fails: one "
             "_counterexample theorem per class, the same witnesses fail on the real code and are listed in known_findings.jsonl (23 narrow kinds); "
             "on 620 000 function-level round trips of the thorough tier no value outside the guards round-trips, so the guards are exact there. "
             "For ALL integers: str(int) is an INTEGER token and exps_int reads it back (int_roundtrip); hex/octal/binary spellings in either letter "
             "case and all-zero spellings with or without sign give the spec value (int_bases, int_zeros). For ALL fixed-point values with a non-empty "
             "fraction: printed text is a DECIMAL token and from_str returns the same value (fixed_roundtrip); every spelling [-]0..0digits.fraction "
             "has the documented normal form (fixed_normal_form). Position marks: each coordinate reads back as (rel, 2 if offset > 1 else 0), exact "
             "iff offset is 0 or 2 (posarg_roundtrip, posarg_exact_iff); guard exactness is kernel-checked on all 585 strings of length <= 3 over an 8-symbol alphabet (guard_exact_small); the name round-trips when it needs no escaping (posmark_roundtrip). "
             "Dungeon-mode numbers 0..3 are determined by their configured constants when these are distinct (dmode_roundtrip). The spec's dedent "
             "rules are an equation of the model (dedent_rules) and the spec's own examples are evaluated in the kernel.",
        note=COMMON_NOTE + "ANTLR lexing/parsing outside the four literal token rules (blank skipping, argument lists, language-string braces, "
             "identifiers) is not modelled: it is exercised differentially only, by the end-to-end channel. Python's str/int primitives (replace, "
             "split, splitlines, strip, slicing, int(s,0), str(int)) are modelled by hand and compared with the interpreter on every run; CPython's "
             "4300-digit limit for decimal int<->str conversion is outside the model. Position-mark names, constant names and language names are "
             "taken to be plain names/identifiers. Exactness of the guards (outside => fails) is empirical, not a theorem."),
    "C07": dict(
        level="proof", design="4/C07",
        technique="Lean 4 theorems about a hand-written model of the SsbScript decompiler (OpsLabelJumpToResolver, process_op_for_jump, SsbScriptSsbDecompiler) and compiler (SsbScriptCompilerListener parse events, OpsLabelJumpToRemover) on a statement AST + exact model-vs-implementation correspondence (text of the real decompiler parsed with the repo's own parser, real compiler output) + property oracle on real objects",
        text="Kernel-checked theorem ssbscript_roundtrip for all routine sets in the class WF' (any number of routines of the five kinds incl. empty ones, arbitrary opcode names and parameters, unreachable ops, jumps between routines; strictly increasing offsets; every jump-table op carries its int target, an op offset of the set, as last parameter at the table index; headers expressible in SsbScript): decompile then compile succeeds and returns the same routine count, kinds, targets, coroutine names, the same ops in order with equal parameters, each jump parameter denoting the op at the position of the original target (order-preserving bijective renumbering). Supporting theorems: the compiler is independent of label ids (compile_by_name, all ASTs), labels bind to the next op also across routine boundaries, alias routines, jump marker not last is dropped; counterexample theorems show each WF' clause is needed. The model is compared with the real code on every run.",
        note=COMMON_NOTE + "The model starts at the statement AST: the text layer is covered differentially (the real decompiler's text is parsed by the repository's own SsbScript parser into the AST and compared with the model's AST; harness/astdump_ssbs.py is trusted glue, cross-checked by astdump(print(ast)) == ast) and the printing/lexing of parameter literals belongs to C04. Known finding opcode_name_is_keyword: opcode names that are SsbScript keywords do not survive (ParseError)."),
    "C14": dict(
        level="proof", design="4/C14",
        technique="Lean 4 theorems about a hand-written model of source_map.py (serialize/deserialize/rewrite_offsets) + exact model-vs-implementation correspondence + property oracle on real objects",
        text="Kernel-checked theorems for all source maps with dict-like key uniqueness and all injective offset mappings: deserialize∘serialize = id (all four tables, every field), re-serialisation identical, equality after round trip, rewrite_offsets moves exactly the entries whose op is in the mapping and maps each return address to the new offset of the next surviving op. The model is compared with the real code on every run.",
        note=COMMON_NOTE + "Python's json module round trip on ints/strings/null/lists/objects is assumed; ill-typed JSON documents are out of scope."),
    "C17": dict(
        level="proof", design="4/C17",
        technique="Lean 4 theorems about a hand-written model of Pygments' Lexer.get_tokens preprocessing + RegexLexer loop + one matcher per regex of the regenerated rule table; table lemmas (rules_known, cover_ok, opts_known) over the regenerated tables; exact model-vs-implementation comparison of token lists and of every rule's compiled regex; property oracle on the real lexer",
        text="Kernel-checked for ALL texts (lists of Unicode scalar values) about the model: the lexer loop always terminates with a token list (every rule application consumes >= 1 character, no empty match, no missing state), the token texts of get_tokens_unprocessed concatenate to exactly the input, get_tokens' token texts concatenate to the preprocessed input, and no Error token is ever emitted (for any text, not only accepted programs). The literal property is false on the pinned code (Pygments defaults strip a leading U+FEFF, leading and trailing newlines and normalise CR): proved instead under the decidable guard Clean, which is shown to be exact (no_text_lost_iff), with kernel-checked counterexamples; the four defect shapes are recorded as known findings and replayed on the real lexer on every run.",
        note=COMMON_NOTE + "Pygments' RegexLexer engine, Lexer.get_tokens and Python's re module are MODELLED by hand, not verified: the tie is the per-run differential comparison (token lists on generated texts incl. exhaustive enumeration over the delimiter alphabet, every rule's compiled regex object vs the Lean matcher at random positions) plus table lemmas that fail to build when a regex, flag, state action or lexer option outside the modelled set appears. Unicode \\w/\\d membership tables are read from the running interpreter's re. words(): regex_opt's alternation order is argued irrelevant (keywords are ASCII word-character strings followed by \\b), not proved. Lone surrogates and bytes input are outside the model (surrogates are exercised on the real lexer only)."),
    "C05": dict(
        level="translation_validation", design="4/C05",
        technique="behaviour: translation validation with the kernel-checked equivalence checker (check_sound) — real compiler output of generated programs with macros "
                  "(single file and multi-file layouts in temporary directories) vs the Lean source semantics of the program containing all macros (Stmt.macroCall = body inlined), "
                  "and vs the real compiler's output for the textually inlined macro-free program; ordering and import resolution: Lean 4 theorems about hand-written models of "
                  "MacroResolutionOrderVisitor (igraph vertex/edge order, bfsiter, merge, _check_cycles), MacroVisitor's sort and _resolve_imported_file + exact "
                  "model-vs-implementation comparison (resolution order of every compiled file, resolved paths on the real temporary tree) + property oracles on the real outputs",
        text="ONE category is claimed for the whole property: translation validation, because its first sentence (compiled routines behave like the program with every macro call "
             "replaced by the body, parameters substituted, return leaving only the macro, labels private per expansion) is decided per generated program by a proven checker, not by a "
             "forall-programs theorem about macro expansion (ExplorerScriptMacro.build is not modelled). Each program is validated twice: against the Lean semantics in which a macro call "
             "IS the inlined body, and against the real compiler's output for the textually inlined program; all definition orders of a macro set must compile and be pairwise equivalent. "
             "The other two sentences are backed by kernel-checked theorems for ALL inputs about faithful models: the cycle check rejects exactly the cyclic call relations "
             "(cycle_detected_iff); for acyclic inputs the resolution order lists every mentioned macro exactly once (order_total); the claim 'every callee precedes its callers' "
             "(hence 'every acyclic set compiles') is FALSE for the pinned code — counterexample theorem on macro top(){~mid();~leaf();} macro mid(){~leaf();} macro leaf(){..} "
             "(order [leaf, top, mid], 'Macro mid not found'), reproduced on the real compiler on every run and recorded as known finding — and is proved under the decidable guard "
             "'all call chains from a macro down to a given leaf macro have equal length' (order_topological_partial, all_macros_compile_partial); a verified stable Kahn order "
             "(topoOrder_topological, topoOrder_complete) backs the proposed repair. Import resolution: relative imports resolve against the importing file's directory, absolute "
             "imports to themselves, other imports to the candidate of the first lookup path in list order whose candidate exists, none -> not found, '.'/'..' components rejected "
             "(resolve_relative, resolve_absolute, resolve_lookup_first_match, resolve_lookup_none, resolve_rejects_dot_components). Models are compared with the real code on every run.",
        note=TV_NOTE + "Additionally trusted for the ordering/import theorems: the hand-written models (tied by exact comparison on every run: macro_resolution_order of the main file and of "
             "every imported file, the paths _resolve_imported_file returns on the real temporary tree, error classes), igraph's behaviour as modelled (bfsiter visits out-neighbours in "
             "vertex-id order; get_all_simple_paths non-empty iff reachable), os.path.realpath modelled as lexical normalisation (the trees contain no symbolic links), the harness reading "
             "of the import rules of docs/language_spec.rst. Known finding on the current tree (check exits 0 with a KNOWN-FINDING line): macro_order_not_topological; three more defects this check found "
             "(compile never returning for position marks in nested macros of one file, imported files with routines accepted, a directory taken for an import candidate) were "
             "repaired in /repo meanwhile (1dfd06a, 71619a5, 804e3de) and are recorded as fixed. "
             "Parameters receiving $PERFORMANCE_PROGRESS_LIST, non-integer arguments in integer-like positions and imports starting with '.' but not './' are outside the generated set."),
}

PENDING_REASON = "check not built yet in this round (design in DESIGN.md §4); will be claimed once its Lean model and correspondence exist"


def main() -> None:
    props = [json.loads(l)["id"] for l in open(os.path.join(HERE, "properties.jsonl"))]
    checks = []
    for pid in props:
        c = CHECKS.get(pid)
        if not c:
            continue
        checks.append({
            "property_id": pid,
            "quick_cmd": f"./check {pid} --tier quick",
            "thorough_cmd": f"./check {pid} --tier thorough",
            "evidence_file": f"evidence/{pid}.json",
            "replay_cmd_template": f"./check {pid} --replay {{path}}",
            "engine": "lean4-esv",
            "level_claimed": {"category": c["level"], "text": c["text"], "design_ref": f"DESIGN.md §{c['design']}"},
            "level_note": c["note"],
            "technique": c["technique"],
        })
    man = {
        "version": 1,
        "setup_cmd": "cd lean && lake build ESV esvdrive",
        "hooks": {
            "guard": "TECH_TICKS_EXPLORERSCRIPT_VERIF",
            "enable": "no in-repo hooks: the harness imports /repo in-process and wraps functions from outside; the variable is set by ./check for completeness",
            "baseline_off_cmd": BASELINE,
            "source_commits": [],
            "add_only": True,
        },
        "engines": [{
            "name": "lean4-esv", "path": "lean/",
            "serves_properties": [c["property_id"] for c in checks],
            "kind_free_text": "Lean 4 project (models + theorems + compiled driver) with a Python correspondence/validation harness (harness/)",
        }],
        "checks": checks,
        "not_applicable": [{"property_id": p, "reason": PENDING_REASON} for p in props if p not in CHECKS],
        "notes": "Every check: regenerate lean/ESV/Gen/Tables.lean from /repo, lake build the property's theorems, audit axioms, run the implementation on generated inputs, evaluate the property oracle on the real outputs, compare with the Lean model. See DESIGN.md.",
    }
    with open(os.path.join(HERE, "MANIFEST.json"), "w") as fh:
        json.dump(man, fh, indent=1)


if __name__ == "__main__":
    main()
