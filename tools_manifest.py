"""Writes MANIFEST.json from the table below (single source of truth for what is claimed)."""
import json
import os

HERE = os.path.dirname(os.path.abspath(__file__))
BASELINE = "cd /repo && /venv/bin/python -m pytest -ra -q -p no:cacheprovider --timeout=900 --continue-on-collection-errors"

COMMON_NOTE = ("Trusted: Lean 4.33 kernel (+ propext, Classical.choice, Quot.sound only; audited by #print axioms on every run), "
               "harness/gen_tables.py, the Python correspondence harness and the Lean driver's JSON glue. "
               "Hand-written model is tied to /repo by exact differential comparison on generated inputs on every run. ")

CHECKS = {
    "C07": dict(
        level="proof", design="4/C07",
        technique="Lean 4 theorems about a hand-written model of the SsbScript decompiler (OpsLabelJumpToResolver, process_op_for_jump, SsbScriptSsbDecompiler) and compiler (SsbScriptCompilerListener parse events, OpsLabelJumpToRemover) on a statement AST + exact model-vs-implementation correspondence (text of the real decompiler parsed with the repo's own parser, real compiler output) + property oracle on real objects",
        text="Kernel-checked theorem ssbscript_roundtrip for all routine sets in the class WF' (any number of routines of the five kinds incl. empty ones, arbitrary opcode names and parameters, unreachable ops, jumps between routines; strictly increasing offsets; every jump-table op carries its int target, an op offset of the set, as last parameter at the table index; headers expressible in SsbScript): decompile then compile succeeds and returns the same routine count, kinds, targets, coroutine names, the same ops in order with equal parameters, each jump parameter denoting the op at the position of the original target (order-preserving bijective renumbering). Supporting theorems: the compiler is independent of label ids (compile_by_name, all ASTs), labels bind to the next op also across routine boundaries, alias routines, jump marker not last is dropped; counterexample theorems show each WF' clause is needed. The model is compared with the real code on every run.",
        note=COMMON_NOTE + "The model starts at the statement AST: the text layer is covered differentially (the real decompiler's text is parsed by the repository's own SsbScript parser into the AST and compared with the model's AST; harness/astdump_ssbs.py is trusted glue, cross-checked by astdump(print(ast)) == ast) and the printing/lexing of parameter literals belongs to C04. Known finding opcode_name_is_keyword: opcode names that are SsbScript keywords do not survive (ParseError)."),
    "C14": dict(
        level="proof", design="4/C14",
        technique="Lean 4 theorems about a hand-written model of source_map.py (serialize/deserialize/rewrite_offsets) + exact model-vs-implementation correspondence + property oracle on real objects",
        text="Kernel-checked theorems for all source maps with dict-like key uniqueness and all injective offset mappings: deserialize∘serialize = id (all four tables, every field), re-serialisation identical, equality after round trip, rewrite_offsets moves exactly the entries whose op is in the mapping and maps each return address to the new offset of the next surviving op. The model is compared with the real code on every run.",
        note=COMMON_NOTE + "Python's json module round trip on ints/strings/null/lists/objects is assumed; ill-typed JSON documents are out of scope."),
}

PENDING_REASON = "check not built yet in this round (design in DESIGN.md §4); will be claimed once its Lean model and correspondence exist"


def main() -> None:
    props = [json.loads(l)["id"] for l in open(os.path.join(HERE, "properties.jsonl"))]
    checks = []
    for pid in props:
        c = CHECKS.get(pid)
        if not c:
            continue
        checks.append({
            "property_id": pid,
            "quick_cmd": f"./check {pid} --tier quick",
            "thorough_cmd": f"./check {pid} --tier thorough",
            "evidence_file": f"evidence/{pid}.json",
            "replay_cmd_template": f"./check {pid} --replay {{path}}",
            "engine": "lean4-esv",
            "level_claimed": {"category": c["level"], "text": c["text"], "design_ref": f"DESIGN.md §{c['design']}"},
            "level_note": c["note"],
            "technique": c["technique"],
        })
    man = {
        "version": 1,
        "setup_cmd": "cd lean && lake build ESV esvdrive",
        "hooks": {
            "guard": "TECH_TICKS_EXPLORERSCRIPT_VERIF",
            "enable": "no in-repo hooks: the harness imports /repo in-process and wraps functions from outside; the variable is set by ./check for completeness",
            "baseline_off_cmd": BASELINE,
            "source_commits": [],
            "add_only": True,
        },
        "engines": [{
            "name": "lean4-esv", "path": "lean/",
            "serves_properties": [c["property_id"] for c in checks],
            "kind_free_text": "Lean 4 project (models + theorems + compiled driver) with a Python correspondence/validation harness (harness/)",
        }],
        "checks": checks,
        "not_applicable": [{"property_id": p, "reason": PENDING_REASON} for p in props if p not in CHECKS],
        "notes": "Every check: regenerate lean/ESV/Gen/Tables.lean from /repo, lake build the property's theorems, audit axioms, run the implementation on generated inputs, evaluate the property oracle on the real outputs, compare with the Lean model. See DESIGN.md.",
    }
    with open(os.path.join(HERE, "MANIFEST.json"), "w") as fh:
        json.dump(man, fh, indent=1)


if __name__ == "__main__":
    main()
