"""Writes MANIFEST.json from the table below (single source of truth for what is claimed)."""
import json
import os

HERE = os.path.dirname(os.path.abspath(__file__))
BASELINE = "cd /repo && /venv/bin/python -m pytest -ra -q -p no:cacheprovider --timeout=900 --continue-on-collection-errors"

COMMON_NOTE = ("Trusted: Lean 4.33 kernel (+ propext, Classical.choice, Quot.sound only; audited by #print axioms on every run), "
               "harness/gen_tables.py, the Python correspondence harness and the Lean driver's JSON glue. "
               "Hand-written model is tied to /repo by exact differential comparison on generated inputs on every run. ")

TV_NOTE = ("Trusted: Lean 4.33 kernel and the theorem ESV.Beh.check_sound/validate_sound (axioms audited every run); the Lean compiler executing "
           "the validator in the driver; this project's reading of docs/language_spec.rst (lean/ESV/Src/Sem.lean + harness/gen/surface.py lowering table); "
           "opcode class tables pinned in lean/ESV/Beh/Spec.lean and proved equal to the tables regenerated from /repo (ESV.TableTie); "
           "printer/astdump glue (cross-checked per program). ")

CHECKS = {
    "C01": dict(
        level="translation_validation", design="4/C01",
        technique="translation validation: Lean 4 kernel-checked equivalence checker (check_sound) fed with the real compiler's output vs the Lean source semantics, on generated programs",
        text="Every generated program is compiled by the real compiler and each routine is validated against the Lean small-step source semantics on the Lean SSB machine by a checker whose soundness (equal operation/test traces for every outcome of every test, halting preserved) is a kernel-checked theorem over all transition systems and relations. A verdict is per program; no forall-programs theorem about the compiler is claimed.",
        note=TV_NOTE + "The ANTLR parser and the compiler are not modelled."),
    "C14": dict(
        level="proof", design="4/C14",
        technique="Lean 4 theorems about a hand-written model of source_map.py (serialize/deserialize/rewrite_offsets) + exact model-vs-implementation correspondence + property oracle on real objects",
        text="Kernel-checked theorems for all source maps with dict-like key uniqueness and all injective offset mappings: deserialize∘serialize = id (all four tables, every field), re-serialisation identical, equality after round trip, rewrite_offsets moves exactly the entries whose op is in the mapping and maps each return address to the new offset of the next surviving op. The model is compared with the real code on every run.",
        note=COMMON_NOTE + "Python's json module round trip on ints/strings/null/lists/objects is assumed; ill-typed JSON documents are out of scope."),
    "C17": dict(
        level="proof", design="4/C17",
        technique="Lean 4 theorems about a hand-written model of Pygments' Lexer.get_tokens preprocessing + RegexLexer loop + one matcher per regex of the regenerated rule table; table lemmas (rules_known, cover_ok, opts_known) over the regenerated tables; exact model-vs-implementation comparison of token lists and of every rule's compiled regex; property oracle on the real lexer",
        text="Kernel-checked for ALL texts (lists of Unicode scalar values) about the model: the lexer loop always terminates with a token list (every rule application consumes >= 1 character, no empty match, no missing state), the token texts of get_tokens_unprocessed concatenate to exactly the input, get_tokens' token texts concatenate to the preprocessed input, and no Error token is ever emitted (for any text, not only accepted programs). The literal property is false on the pinned code (Pygments defaults strip a leading U+FEFF, leading and trailing newlines and normalise CR): proved instead under the decidable guard Clean, which is shown to be exact (no_text_lost_iff), with kernel-checked counterexamples; the four defect shapes are recorded as known findings and replayed on the real lexer on every run.",
        note=COMMON_NOTE + "Pygments' RegexLexer engine, Lexer.get_tokens and Python's re module are MODELLED by hand, not verified: the tie is the per-run differential comparison (token lists on generated texts incl. exhaustive enumeration over the delimiter alphabet, every rule's compiled regex object vs the Lean matcher at random positions) plus table lemmas that fail to build when a regex, flag, state action or lexer option outside the modelled set appears. Unicode \\w/\\d membership tables are read from the running interpreter's re. words(): regex_opt's alternation order is argued irrelevant (keywords are ASCII word-character strings followed by \\b), not proved. Lone surrogates and bytes input are outside the model (surrogates are exercised on the real lexer only)."),
}

PENDING_REASON = "check not built yet in this round (design in DESIGN.md §4); will be claimed once its Lean model and correspondence exist"


def main() -> None:
    props = [json.loads(l)["id"] for l in open(os.path.join(HERE, "properties.jsonl"))]
    checks = []
    for pid in props:
        c = CHECKS.get(pid)
        if not c:
            continue
        checks.append({
            "property_id": pid,
            "quick_cmd": f"./check {pid} --tier quick",
            "thorough_cmd": f"./check {pid} --tier thorough",
            "evidence_file": f"evidence/{pid}.json",
            "replay_cmd_template": f"./check {pid} --replay {{path}}",
            "engine": "lean4-esv",
            "level_claimed": {"category": c["level"], "text": c["text"], "design_ref": f"DESIGN.md §{c['design']}"},
            "level_note": c["note"],
            "technique": c["technique"],
        })
    man = {
        "version": 1,
        "setup_cmd": "cd lean && lake build ESV esvdrive",
        "hooks": {
            "guard": "TECH_TICKS_EXPLORERSCRIPT_VERIF",
            "enable": "no in-repo hooks: the harness imports /repo in-process and wraps functions from outside; the variable is set by ./check for completeness",
            "baseline_off_cmd": BASELINE,
            "source_commits": [],
            "add_only": True,
        },
        "engines": [{
            "name": "lean4-esv", "path": "lean/",
            "serves_properties": [c["property_id"] for c in checks],
            "kind_free_text": "Lean 4 project (models + theorems + compiled driver) with a Python correspondence/validation harness (harness/)",
        }],
        "checks": checks,
        "not_applicable": [{"property_id": p, "reason": PENDING_REASON} for p in props if p not in CHECKS],
        "notes": "Every check: regenerate lean/ESV/Gen/Tables.lean from /repo, lake build the property's theorems, audit axioms, run the implementation on generated inputs, evaluate the property oracle on the real outputs, compare with the Lean model. See DESIGN.md.",
    }
    with open(os.path.join(HERE, "MANIFEST.json"), "w") as fh:
        json.dump(man, fh, indent=1)


if __name__ == "__main__":
    main()
