"""Writes MANIFEST.json from the table below (single source of truth for what is claimed)."""
import json
import os

HERE = os.path.dirname(os.path.abspath(__file__))
BASELINE = "cd /repo && /venv/bin/python -m pytest -ra -q -p no:cacheprovider --timeout=900 --continue-on-collection-errors"

COMMON_NOTE = ("Trusted: Lean 4.33 kernel (+ propext, Classical.choice, Quot.sound only; audited by #print axioms on every run), "
               "harness/gen_tables.py, the Python correspondence harness and the Lean driver's JSON glue. "
               "Hand-written model is tied to /repo by exact differential comparison on generated inputs on every run. ")

TV_NOTE = ("Trusted: Lean 4.33 kernel and the theorem ESV.Beh.check_sound/validate_sound (axioms audited every run); the Lean compiler executing "
           "the validator in the driver; this project's reading of docs/language_spec.rst (lean/ESV/Src/Sem.lean + harness/gen/surface.py lowering table); "
           "opcode class tables pinned in lean/ESV/Beh/Spec.lean and proved equal to the tables regenerated from /repo (ESV.TableTie); "
           "printer/astdump glue (cross-checked per program). ")

CHECKS = {
    "C01": dict(
        level="translation_validation", design="4/C01",
        technique="translation validation: Lean 4 kernel-checked equivalence checker (check_sound) fed with the real compiler's output vs the Lean source semantics, on generated programs",
        text="Every generated program is compiled by the real compiler and each routine is validated against the Lean small-step source semantics on the Lean SSB machine by a checker whose soundness (equal operation/test traces for every outcome of every test, halting preserved) is a kernel-checked theorem over all transition systems and relations. A verdict is per program; no forall-programs theorem about the compiler is claimed.",
        note=TV_NOTE + "The ANTLR parser and the compiler are not modelled."),
    "C04": dict(
        level="proof", design="4/C04",
        technique="Lean 4 theorems about a hand-written model of the literal printers and readers (ssb_data_types.py repr_string/escape_*/"
                  "__str__ of every parameter class, compiler/utils.py singleline_/multiline_string_literal, util.exps_int, "
                  "SsbOpParamFixedPoint.from_str, common_syntax.parse_position_marker_arg, the STRING_LITERAL / MULTILINE_STRING_LITERAL / "
                  "INTEGER / DECIMAL token rules) + exact model-vs-implementation correspondence (functions, real ANTLR lexer's first token) + "
                  "property oracle on real op lists printed by both real decompilers in every printing context and compiled back by both real compilers",
        text="Kernel-checked for ALL strings, indents, quote preferences and following text: the text repr_string prints is consumed as exactly one "
             "string token of the intended kind and reads back as the original value (read_repr_string, tok_*_exact, const_string_roundtrip, "
             "langstring_roundtrip) under the decidable guards GuardS (single-line and both-triple-quotes fall-back form: every backslash is followed "
             "by a character other than the delimiting quote and is not last; no raw \\r or \\f outside such a pair; no backslash directly before the "
             "other quote or before the letter n) and GuardM (triple-quoted form: no str.splitlines boundary other than \\n; some line empty or "
             "starting with a non-blank; at indent 0 the last line not blank-only). Outside the guards the pinned code really fails: one "
             "_counterexample theorem per class, the same witnesses fail on the real code and are listed in known_findings.jsonl (23 narrow kinds); "
             "on 620 000 function-level round trips of the thorough tier no value outside the guards round-trips, so the guards are exact there. "
             "For ALL integers: str(int) is an INTEGER token and exps_int reads it back (int_roundtrip); hex/octal/binary spellings in either letter "
             "case and all-zero spellings with or without sign give the spec value (int_bases, int_zeros). For ALL fixed-point values with a non-empty "
             "fraction: printed text is a DECIMAL token and from_str returns the same value (fixed_roundtrip); every spelling [-]0..0digits.fraction "
             "has the documented normal form (fixed_normal_form). Position marks: each coordinate reads back as (rel, 2 if offset > 1 else 0), exact "
             "iff offset is 0 or 2 (posarg_roundtrip, posarg_exact_iff); guard exactness is kernel-checked on all 585 strings of length <= 3 over an 8-symbol alphabet (guard_exact_small); the name round-trips when it needs no escaping (posmark_roundtrip). "
             "Dungeon-mode numbers 0..3 are determined by their configured constants when these are distinct (dmode_roundtrip). The spec's dedent "
             "rules are an equation of the model (dedent_rules) and the spec's own examples are evaluated in the kernel.",
        note=COMMON_NOTE + "ANTLR lexing/parsing outside the four literal token rules (blank skipping, argument lists, language-string braces, "
             "identifiers) is not modelled: it is exercised differentially only, by the end-to-end channel. Python's str/int primitives (replace, "
             "split, splitlines, strip, slicing, int(s,0), str(int)) are modelled by hand and compared with the interpreter on every run; CPython's "
             "4300-digit limit for decimal int<->str conversion is outside the model. Position-mark names, constant names and language names are "
             "taken to be plain names/identifiers. Exactness of the guards (outside => fails) is empirical, not a theorem."),
    "C07": dict(
        level="proof", design="4/C07",
        technique="Lean 4 theorems about a hand-written model of the SsbScript decompiler (OpsLabelJumpToResolver, process_op_for_jump, SsbScriptSsbDecompiler) and compiler (SsbScriptCompilerListener parse events, OpsLabelJumpToRemover) on a statement AST + exact model-vs-implementation correspondence (text of the real decompiler parsed with the repo's own parser, real compiler output) + property oracle on real objects",
        text="Kernel-checked theorem ssbscript_roundtrip for all routine sets in the class WF' (any number of routines of the five kinds incl. empty ones, arbitrary opcode names and parameters, unreachable ops, jumps between routines; strictly increasing offsets; every jump-table op carries its int target, an op offset of the set, as last parameter at the table index; headers expressible in SsbScript): decompile then compile succeeds and returns the same routine count, kinds, targets, coroutine names, the same ops in order with equal parameters, each jump parameter denoting the op at the position of the original target (order-preserving bijective renumbering). Supporting theorems: the compiler is independent of label ids (compile_by_name, all ASTs), labels bind to the next op also across routine boundaries, alias routines, jump marker not last is dropped; counterexample theorems show each WF' clause is needed. The model is compared with the real code on every run.",
        note=COMMON_NOTE + "The model starts at the statement AST: the text layer is covered differentially (the real decompiler's text is parsed by the repository's own SsbScript parser into the AST and compared with the model's AST; harness/astdump_ssbs.py is trusted glue, cross-checked by astdump(print(ast)) == ast) and the printing/lexing of parameter literals belongs to C04. Known finding opcode_name_is_keyword: opcode names that are SsbScript keywords do not survive (ParseError)."),
    "C02": dict(
        level="translation_validation", design="4/C02",
        technique="translation validation: Lean 4 kernel-checked equivalence checker (check_sound) on the real decompiler's output (parsed text vs input; recompiled text vs input), per input",
        text="For every generated well-formed routine set (checked by the Lean machine: every path ends, no Jump-only cycle) the real decompiler's text is parsed with the repo's parser, given meaning by the Lean source semantics and validated against the input on the Lean SSB machine by the proven checker; the text is also compiled with the real compiler and validated machine-vs-machine; routine tables are compared. No forall-inputs statement about the decompiler (igraph heuristics) is claimed. Input classes on which the pinned decompiler is wrong are known findings identified by a shape predicate of the input.",
        note=TV_NOTE + "The decompiler is not modelled. String parameters are kept inside C04's guard. A dungeon-mode number may come back as its constant."),
    "C06": dict(
        level="other", design="4/C06",
        technique="Lean 4 proof of the fallback path (SsbScript round trip theorem ESV.C07.ssbscript_roundtrip) + exploration of totality on generated well-formed routine sets with op-for-op comparison of every fallback through the real compiler",
        text="Proof: the fallback text is the SsbScript decompiler's output; its exactness (compile(decompile x) reproduces x op for op) and the absence of exceptions on well-formed input are kernel-checked theorems over all routine sets. Exploration: that convert() answers at all (Python exception flow through igraph-based passes) cannot be a theorem here; it is explored on compiler-shaped and random well-formed routine sets (irreducible loops, jumps into blocks, jump-only routines), and each fallback produced is checked for the marker line and compiled back with the real ExplorerScript compiler.",
        note=COMMON_NOTE + "Totality of the structured path is explored, not proved."),
    "C09": dict(
        level="other", design="4/C09",
        technique="Lean 4 proof of the writer protocol (line accounting and entry positions for all call sequences) tied to the code by replaying every recorded real call sequence; per-input validation of op-to-statement attribution through recompilation and the proven checker",
        text="Proof (K3): for every sequence of writer calls the line counter equals 1 + newlines written (also with multi-line strings), and an entry recorded before a statement names the 0-based line and the column where its text begins (ESV.C09.writer_line_inv, writer_entry_pos, writer_entry_inline_pos); the real decompilers' recorded call sequences are replayed through the Lean writer on every run and must give the identical text and map. Validation per input: keys are input offsets, entries sit at statement starts, every printed op has an entry, and after compiling the emitted text the op related to it by the proven checker is on the same line.",
        note=COMMON_NOTE + "Which op a statement belongs to is decided by unmodelled graph passes: validated per explored input. The compile-time map of the emitted text is the reference (C08)."),
    "C13": dict(
        level="translation_validation", design="4/C13",
        technique="per-input validation: decidable predicates (no jump statement, operations printed exactly once) on the parsed decompiler output + Lean kernel-checked behavioural validation",
        text="Flat structured programs are generated, compiled by the real compiler, decompiled by the real decompiler; the decompiled text must be ExplorerScript (no fallback), contain no jump statement, print every operation of the source exactly once, and (C02 machinery) be behaviourally equal to the compiled routines by the proven checker. Known findings: switch cases consisting only of break; default grouped with a case.",
        note=TV_NOTE + "The decompiler is not modelled; the claim is per explored input."),
    "C14": dict(
        level="proof", design="4/C14",
        technique="Lean 4 theorems about a hand-written model of source_map.py (serialize/deserialize/rewrite_offsets) + exact model-vs-implementation correspondence + property oracle on real objects",
        text="Kernel-checked theorems for all source maps with dict-like key uniqueness and all injective offset mappings: deserialize∘serialize = id (all four tables, every field), re-serialisation identical, equality after round trip, rewrite_offsets moves exactly the entries whose op is in the mapping and maps each return address to the new offset of the next surviving op. The model is compared with the real code on every run.",
        note=COMMON_NOTE + "Python's json module round trip on ints/strings/null/lists/objects is assumed; ill-typed JSON documents are out of scope."),
    "C17": dict(
        level="proof", design="4/C17",
        technique="Lean 4 theorems about a hand-written model of Pygments' Lexer.get_tokens preprocessing + RegexLexer loop + one matcher per regex of the regenerated rule table; table lemmas (rules_known, cover_ok, opts_known) over the regenerated tables; exact model-vs-implementation comparison of token lists and of every rule's compiled regex; property oracle on the real lexer",
        text="Kernel-checked for ALL texts (lists of Unicode scalar values) about the model: the lexer loop always terminates with a token list (every rule application consumes >= 1 character, no empty match, no missing state), the token texts of get_tokens_unprocessed concatenate to exactly the input, get_tokens' token texts concatenate to the preprocessed input, and no Error token is ever emitted (for any text, not only accepted programs). The literal property is false on the pinned code (Pygments defaults strip a leading U+FEFF, leading and trailing newlines and normalise CR): proved instead under the decidable guard Clean, which is shown to be exact (no_text_lost_iff), with kernel-checked counterexamples; the four defect shapes are recorded as known findings and replayed on the real lexer on every run.",
        note=COMMON_NOTE + "Pygments' RegexLexer engine, Lexer.get_tokens and Python's re module are MODELLED by hand, not verified: the tie is the per-run differential comparison (token lists on generated texts incl. exhaustive enumeration over the delimiter alphabet, every rule's compiled regex object vs the Lean matcher at random positions) plus table lemmas that fail to build when a regex, flag, state action or lexer option outside the modelled set appears. Unicode \\w/\\d membership tables are read from the running interpreter's re. words(): regex_opt's alternation order is argued irrelevant (keywords are ASCII word-character strings followed by \\b), not proved. Lone surrogates and bytes input are outside the model (surrogates are exercised on the real lexer only)."),
    "C10": dict(
        level="other", design="4/C10",
        technique="(A) Lean 4 theorems about a hand-written model of the compiler's rejection sites (lean/ESV/Static/Wf.lean: add phase and collect phase of every "
                  "compile handler in the real collect order, macro cycle check, import recursion with recursion_check, macros_only, strip_last_label on an "
                  "op-free routine, OpsLabelJumpToRemover) on a static AST produced by the harness from the surface AST, tied to /repo on every run by "
                  "exception-CLASS equality on generated statically invalid / valid programs and import worlds; (B) exploration of compile() on generated "
                  "strings in worker processes (time and memory limits) with delta-debugged failing inputs; compile CLI run in a subprocess",
        text="Split claim, reported separately in the evidence. PROOF (part A, kernel-checked for ALL static ASTs, ALL imported macro sets, ALL import worlds): "
             "a program containing `break` at a position not enclosed by a switch case (loops do not reset the case flag, macro bodies do), `continue`/`break_loop` "
             "outside a loop, a switch ending in a case without statements, two defaults (switch or message switch), a message-switch case holding statements, "
             "a label in a with-block, `not` on a bit test of a variable other than the performance progress list (if/elseif/while/for header), a call of an unknown "
             "macro, a call leaving a macro variable without value (ValueError), recursion among the file's macros (cycle check proved complete: macroCycle_of_closed), "
             "a missing import, an import cycle reachable from the compiled file, or a failing imported file is rejected by the model with a documented class "
             "(rejects_* theorems, one per shape, plus core_rejects_* for Static.check on the core AST). A jump or call to a label no routine places (labels placed only "
             "in macro bodies do not count; jumps inside macro expansions are private) is always rejected (rejects_jump_undefined) and with a documented class under the "
             "decidable guard `Guard` (no routine consists of calls of label-only macros: the pinned strip_last_label raises IndexError there first — "
             "error_kinds_counterexample, rejects_jump_undefined_counterexample, replayed on the real code every run). error_kinds: the model's only other class is that "
             "IndexError. 'Routines in an imported file' is FALSE on the pinned code (routines_in_import_accepted, ssbscript_import_accepted: kernel-checked witnesses, "
             "reproduced on the real compiler every run, known findings); it is proved for the model variant in which HasRoutinesVisitor visits the tree "
             "(rejects_routines_in_import_if_reparsed). EXPLORATION (part B, no theorem): 'never another exception type' over strings — token/character corruptions of "
             "valid programs, degenerate routines, routine headers, huge numbers, //?: attribute lines in all positions, SsbScript sources behind the attribute, random "
             "Unicode, nesting up to 200; quick 3 200 strings, thorough 127 000. Every undocumented (type, innermost repository frame) pair of the pinned tree is listed in "
             "known_findings.jsonl (17 kinds incl. two no-answer shapes); a new pair, an accepted defect, output left after a rejection, or a CLI that exits 0 / prints JSON "
             "on rejection is a VIOLATION.",
        note=COMMON_NOTE + "Part B is exploration only: the ANTLR runtime and the generated lexers/parsers are not modelled, so the exception class for an arbitrary string is "
             "searched, not proved. The model covers the rejection sites, not the back end: the op-offset assert, LabelFinalizer, the routine table (negative / descending / "
             "huge routine ids, decimal routine targets) are outside it and appear as known findings of part B. The compile order of the macros of one file (macro resolution "
             "order, defect A4 of C05) is not modelled; generated macro call graphs are forests and a too-few-arguments call is never combined with a defect in another macro "
             "body. Import paths are resolved by the harness (posix normalisation, lookup directories); realpath/symlinks are not modelled. Import recursion uses fuel = number "
             "of files + 1; running out of fuel is reported as the SsbCompilerError the implementation raises one level earlier (pigeonhole argument, not proved). "
             "Workers run compile() with Python's default recursion limit (1000) and 1500 MB address space."),
    "C15": dict(
        level="proof", design="4/C15",
        technique="Lean 4 theorems about a hand-written model of cli/compile.py (build_ops, build_routines_json) and cli/decompile.py (parse_pos_mark_arg, "
                  "read_ops, read_routines, check_settings, the decompiler's coroutine id -> name table) and of the documented JSON structure (DocShape); "
                  "exact model-vs-implementation comparison (real functions in-process, and what the real commands print); property oracle on real "
                  "subprocess runs of `python -m explorerscript.cli.compile|decompile`; behavioural end-to-end part by translation validation "
                  "(kernel-checked validator beh.validate on the text the decompile command prints)",
        text="Kernel-checked about the model of the CURRENT code (after the fix: commits e79af4f, c9fbb9f, 463a62a, 61b451d), for ALL routine sets (any "
             "routine kinds, ops, parameters, offsets): what the decompile command reads from what the compile command prints is the canonical form of the "
             "set — same routines/ops/parameters, every jump parameter replaced by the 1-based position of the op it denotes, every op numbered by its "
             "position across all routines, coroutines named (cli_roundtrip); for every closed well-formed set each printed jump parameter IS the position of "
             "its target op (cli_build_positional) and the set the decompile command works on is a renumbering of the compiler's set whose jump parameters "
             "are positions (cli_positional: Renumbering c (canon c) and Positional (canon c)); every COROUTINE routine finds its name (cli_coroutines_named); "
             "the printed JSON has the documented structure (cli_docshape); check_settings + read_routines accept EVERY document of the documented structure "
             "— all five routine types, both target forms, all six argument types, integer or string position coordinates (cli_accepts_documented). Without "
             "the position table the round trip of a closed set is a renumbering iff the jump parameters already are positions (cli_raw_positional_iff). "
             "The defects of the pinned tree are kept as kernel-checked witnesses against a definition of the OLD behaviour (lean/ESV/Cli/Pinned.lean): "
             "cli_gap_counterexample, cli_gap_wrong_op_counterexample, cli_out_of_order_counterexample (internal offsets printed), "
             "cli_coroutine_counterexample, cli_target_null_counterexample, cli_posmark_int_counterexample — each also states what the repaired code gives; "
             "the same programs run through the real commands on every run and a regression is reported as a violation with the failing source. "
             "The behavioural end-to-end claim (decompiled text behaves like the source) and the exit-status claim are NOT theorems: they are checked per "
             "run on real subprocesses (translation validation with the proven checker; 70 programs quick / 2000 thorough through both commands, plus "
             "generated documented documents through the decompile command).",
        note=COMMON_NOTE + "The decompiler behind read_routines is not modelled; where its text is wrong the check verifies that the command's text is "
             "identical to the decompiler's own answer through the Python API on the same routine set and records the case as the decompiler's defect "
             "(C02/C06); an SsbScript fall-back text is only compared with the API's text. Outside the model: JSON true/false (Python bool is an int), duplicate keys, documents that rely on duck typing (non-string "
             "opcode/constant/name), int(s, 0) spellings outside the INTEGER token (blanks, '+', '_'). DocShape is this project's reading of "
             "docs/cli_api_usage.rst (additional members allowed; target_id integer or string; FIXED_POINT a decimal string; position coordinates integer "
             "or whole/half-tile string); a hand-written Python validator of the same reading is compared with it on every document. "
             "json.loads(json.dumps(v)) == v is assumed (stdlib)."),
}

PENDING_REASON ="check not built yet in this round (design in DESIGN.md §4); will be claimed once its Lean model and correspondence exist"


def main() -> None:
    props = [json.loads(l)["id"] for l in open(os.path.join(HERE, "properties.jsonl"))]
    checks = []
    for pid in props:
        c = CHECKS.get(pid)
        if not c:
            continue
        checks.append({
            "property_id": pid,
            "quick_cmd": f"./check {pid} --tier quick",
            "thorough_cmd": f"./check {pid} --tier thorough",
            "evidence_file": f"evidence/{pid}.json",
            "replay_cmd_template": f"./check {pid} --replay {{path}}",
            "engine": "lean4-esv",
            "level_claimed": {"category": c["level"], "text": c["text"], "design_ref": f"DESIGN.md §{c['design']}"},
            "level_note": c["note"],
            "technique": c["technique"],
        })
    man = {
        "version": 1,
        "setup_cmd": "cd lean && lake build ESV esvdrive",
        "hooks": {
            "guard": "TECH_TICKS_EXPLORERSCRIPT_VERIF",
            "enable": "no in-repo hooks: the harness imports /repo in-process and wraps functions from outside; the variable is set by ./check for completeness",
            "baseline_off_cmd": BASELINE,
            "source_commits": [],
            "add_only": True,
        },
        "engines": [{
            "name": "lean4-esv", "path": "lean/",
            "serves_properties": [c["property_id"] for c in checks],
            "kind_free_text": "Lean 4 project (models + theorems + compiled driver) with a Python correspondence/validation harness (harness/)",
        }],
        "checks": checks,
        "not_applicable": [{"property_id": p, "reason": PENDING_REASON} for p in props if p not in CHECKS],
        "notes": "Every check: regenerate lean/ESV/Gen/Tables.lean from /repo, lake build the property's theorems, audit axioms, run the implementation on generated inputs, evaluate the property oracle on the real outputs, compare with the Lean model. See DESIGN.md.",
    }
    with open(os.path.join(HERE, "MANIFEST.json"), "w") as fh:
        json.dump(man, fh, indent=1)


if __name__ == "__main__":
    main()
