"""validate MANIFEST.json and evidence/*.json against the schemas (python3-vt has jsonschema)"""
import json, sys, glob, os
import jsonschema
here = os.path.dirname(os.path.abspath(__file__))
m = json.load(open(os.path.join(here, "MANIFEST.json")))
jsonschema.validate(m, json.load(open("/root/.vp/MANIFEST.schema.json")))
props = [json.loads(l)["id"] for l in open(os.path.join(here, "properties.jsonl"))]
claimed = [c["property_id"] for c in m["checks"]]
na = [c["property_id"] for c in m.get("not_applicable", [])]
assert sorted(claimed + na) == sorted(props), (sorted(set(props) - set(claimed) - set(na)), "unaccounted")
es = json.load(open("/root/.vp/EVIDENCE.schema.json"))
for f in sorted(glob.glob(os.path.join(here, "evidence", "*.json"))):
    e = json.load(open(f))
    jsonschema.validate(e, es)
    lvl = [c for c in m["checks"] if c["property_id"] == e["property_id"]]
    if lvl and lvl[0]["level_claimed"]["category"] != e["level"]:
        print("LEVEL MISMATCH", f, lvl[0]["level_claimed"]["category"], e["level"])
    print("ok", os.path.basename(f), e["level"], e["tier"], e["wall_s"])
print("manifest ok; claimed", len(claimed), "n/a", len(na))
