"""Evaluate the checks against HARMLESS changes kept under benign/<id>/ (patch.diff, notes.md, meta.json): behaviour-preserving
refactorings written by independent sub-agents (given an area of the code, a scratch worktree, nothing from /verif).
For every change: scratch copy of /repo's HEAD, apply, run the test suite, run the listed checks with VERIF_REPO=<copy>;
a check that exits non-zero raised an alarm on code where every property holds.  Usage: tools_benign.py [id ...] [--checks C01,C03]"""
from __future__ import annotations

import argparse
import json
import os
import shutil
import subprocess
import tempfile

HERE = os.path.dirname(os.path.abspath(__file__))
PY = "/venv/bin/python"
AREA_CHECKS = {"A": ["C01", "C03", "C05", "C08", "C10", "C16", "C11", "C12"], "B": ["C02", "C06", "C09", "C13", "C11", "C12"],
               "C": ["C07", "C14", "C15", "C06", "C09", "C03", "C11", "C12"], "D": ["C04", "C16", "C17", "C18", "C05", "C10", "C11", "C12"]}


def sh(cmd, cwd, env=None, timeout=3600):
    p = subprocess.run(cmd, cwd=cwd, env=env, capture_output=True, text=True, timeout=timeout)
    return p.returncode, p.stdout + p.stderr


def main() -> None:
    ap = argparse.ArgumentParser()
    ap.add_argument("ids", nargs="*")
    ap.add_argument("--checks", default=None)
    a = ap.parse_args()
    base = os.path.join(HERE, "benign")
    ids = a.ids or sorted(d for d in os.listdir(base) if os.path.isdir(os.path.join(base, d)))
    quiet = 0
    for bid in ids:
        d = os.path.join(base, bid)
        meta = json.load(open(os.path.join(d, "meta.json")))
        work = tempfile.mkdtemp(prefix="benign_eval_", dir="/tmp")
        copy = os.path.join(work, "repo")
        try:
            subprocess.run(["git", "-C", "/repo", "worktree", "add", "-q", "--detach", copy, "HEAD"], check=True)
            rca, outa = sh(["git", "apply", os.path.join(d, "patch.diff")], copy)
            if rca != 0:
                print(json.dumps({"id": bid, "error": "patch does not apply: " + outa[-300:]}))
                continue
            env = dict(os.environ, PYTHONPATH=copy)
            rct, _ = sh([PY, "-m", "pytest", "-q", "-p", "no:cacheprovider"], copy, env, 1800)
            checks = a.checks.split(",") if a.checks else AREA_CHECKS[meta["area"]]
            res = {}
            for c in checks:
                rcc, outc = sh([os.path.join(HERE, "check"), c, "--tier", "quick"], HERE, dict(os.environ, VERIF_REPO=copy, VERIF_SEED="0"), 7200)
                lines = [l for l in outc.splitlines() if l.startswith("VIOLATION")]
                res[c] = {"exit": rcc, "violation_lines": lines[:3], "detail": [l.strip()[:300] for l in outc.splitlines() if l.startswith("  ")][:3] if rcc else []}
            rec = {"id": bid, "tests_pass": rct == 0, "checks": res, "alarms": [c for c, v in res.items() if v["exit"] != 0]}
            quiet += not rec["alarms"]
            json.dump(rec, open(os.path.join(d, "result_quick.json"), "w"), indent=1)
            print(json.dumps(rec))
        finally:
            subprocess.run(["git", "-C", "/repo", "worktree", "remove", "--force", copy], capture_output=True)
            shutil.rmtree(work, ignore_errors=True)
    print(f"harmless changes: {len(ids)}, without any alarm: {quiet}")


if __name__ == "__main__":
    main()
