"""Ingest a seeded change produced by an independent sub-agent: <worktree>/out/changeN.diff + demoN.py -> seeded/<id>/"""
import json, os, shutil, sys
wt, prop, n = sys.argv[1], sys.argv[2], sys.argv[3]
needs = sys.argv[4] if len(sys.argv) > 4 else ""
sid = f"{prop}-{os.path.basename(wt).replace('mut_', '')}-{n}"
dst = os.path.join(os.path.dirname(os.path.abspath(__file__)), "seeded", sid)
os.makedirs(dst, exist_ok=True)
shutil.copy(os.path.join(wt, "out", f"change{n}.diff"), os.path.join(dst, "patch.diff"))
shutil.copy(os.path.join(wt, "out", f"demo{n}.py"), os.path.join(dst, "demo.py"))
notes = os.path.join(wt, "out", "notes.md")
if os.path.exists(notes):
    shutil.copy(notes, os.path.join(dst, "notes.md"))
json.dump({"property": prop, "needs": needs, "source": "independent sub-agent given only the property text and a scratch worktree of /repo",
           "ran": "tools_seeded.py (demo without/with the change, test suite with the change, the property's check with VERIF_REPO=<patched copy>)"},
          open(os.path.join(dst, "meta.json"), "w"), indent=1)
print(sid)
