"""Evaluate the checks against the seeded changes kept under seeded/<id>/ (patch.diff, demo.py, meta.json).
For every seeded change: take a scratch copy of /repo's HEAD outside /repo and /verif, apply the patch, confirm that
the demonstration fails with it (and passes without), run the existing test suite, run the property's check(s) with
VERIF_REPO pointing at the copy, and record whether a VIOLATION was reported.  The copy is removed afterwards.
Usage: tools_seeded.py [id ...] [--tier quick|thorough] [--checks C01,C03]"""
from __future__ import annotations

import argparse
import json
import os
import shutil
import subprocess
import sys
import tempfile

HERE = os.path.dirname(os.path.abspath(__file__))
PY = "/venv/bin/python"


def sh(cmd: list[str], cwd: str, env: dict | None = None, timeout: int = 3600) -> tuple[int, str]:
    p = subprocess.run(cmd, cwd=cwd, env=env, capture_output=True, text=True, timeout=timeout)
    return p.returncode, (p.stdout + p.stderr)


def main() -> None:
    ap = argparse.ArgumentParser()
    ap.add_argument("ids", nargs="*")
    ap.add_argument("--tier", default="quick")
    ap.add_argument("--checks", default=None)
    ap.add_argument("--skip-tests", action="store_true")
    a = ap.parse_args()
    base = os.path.join(HERE, "seeded")
    ids = a.ids or sorted(d for d in os.listdir(base) if os.path.isdir(os.path.join(base, d)))
    summary = []
    for sid in ids:
        d = os.path.join(base, sid)
        meta = json.load(open(os.path.join(d, "meta.json")))
        work = tempfile.mkdtemp(prefix="seed_eval_", dir="/tmp")
        copy = os.path.join(work, "repo")
        try:
            subprocess.run(["git", "-C", "/repo", "worktree", "add", "-q", "--detach", copy, "HEAD"], check=True)
            env = dict(os.environ, PYTHONPATH=copy)
            # the demonstrations were written as <worktree>/out/demoN.py and some locate the project relative to themselves
            os.makedirs(os.path.join(copy, "out"), exist_ok=True)
            demo = os.path.join(copy, "out", "demo.py")
            shutil.copy(os.path.join(d, "demo.py"), demo)
            rc0, out0 = sh([PY, demo], copy, env, 600)
            rca, outa = sh(["git", "apply", os.path.join(d, "patch.diff")], copy)
            if rca != 0:
                summary.append({"id": sid, "error": "patch does not apply: " + outa[-300:]})
                continue
            rc1, out1 = sh([PY, demo], copy, env, 600)
            tests_ok = None
            if not a.skip_tests:
                rct, outt = sh([PY, "-m", "pytest", "-q", "-p", "no:cacheprovider"], copy, env, 1800)
                tests_ok = rct == 0
            checks = (a.checks.split(",") if a.checks else meta.get("checks") or [meta["property"]])
            results = {}
            for c in checks:
                env2 = dict(os.environ, VERIF_REPO=copy, VERIF_SEED=str(meta.get("seed", 0)))
                rcc, outc = sh([os.path.join(HERE, "check"), c, "--tier", a.tier], HERE, env2, 7200)
                viol = [l for l in outc.splitlines() if l.startswith("VIOLATION")]
                results[c] = {"exit": rcc, "violation_lines": viol[:3], "detected": rcc == 1 and bool(viol),
                              "with_failing_input": any("no-failing-input-found" not in l for l in viol)}
            rec = {"id": sid, "property": meta["property"], "demo_without": rc0, "demo_with": rc1, "tests_pass_with_change": tests_ok,
                   "checks": results, "tier": a.tier}
            summary.append(rec)
            with open(os.path.join(d, f"result_{a.tier}.json"), "w") as fh:
                json.dump(rec, fh, indent=1)
            print(json.dumps(rec))
        finally:
            subprocess.run(["git", "-C", "/repo", "worktree", "remove", "--force", copy], capture_output=True)
            shutil.rmtree(work, ignore_errors=True)
    det = sum(1 for s in summary if any(c.get("detected") for c in s.get("checks", {}).values()))
    print(f"seeded changes: {len(summary)}, detected: {det}")


if __name__ == "__main__":
    main()
