#!/usr/bin/env python3
"""The Lean driver (lean/Driver/Main.lean, executable `esvdrive`) must build whatever /repo looks like: it may only import models
and executable definitions, never a proof module that depends on the table tie `ESV.Props.Tables` (ESV.Gen.x = ESV.Spec.x by
`decide`, false as soon as a change of /repo edits a regenerated table) nor any other `ESV.Props.*` module.

    python3 tools_driver_imports.py            # prints the offending import chains, exit code 1 if there are any

`driver_props_imports()` is called by harness/core.py:lean_prepare on every run (a violation is a broken tie)."""
from __future__ import annotations

import os
import re
import sys

HERE = os.path.dirname(os.path.abspath(__file__))
LEAN = os.path.join(HERE, "lean")
IMPORT = re.compile(r"^\s*(?:public\s+)?import\s+([A-Za-z0-9_.']+)\s*$")
FORBIDDEN_PREFIX = "ESV.Props"


def module_file(mod: str) -> str | None:
    p = os.path.join(LEAN, *mod.split(".")) + ".lean"
    return p if os.path.exists(p) else None


def imports_of(mod: str) -> list[str]:
    p = module_file(mod)
    if p is None:
        return []      # Init / Std / Lean: outside the project
    out = []
    in_comment = 0
    for line in open(p, encoding="utf-8"):
        s = line.strip()
        if in_comment:
            in_comment += s.count("/-") - s.count("-/")
            in_comment = max(in_comment, 0)
            continue
        if s.startswith("/-"):
            in_comment = s.count("/-") - s.count("-/")
            in_comment = max(in_comment, 0)
            continue
        if not s or s.startswith("--"):
            continue
        m = IMPORT.match(line)
        if m:
            out.append(m.group(1))
            continue
        break          # imports come first
    return out


def closure(root: str) -> dict[str, str | None]:
    """module -> the module that first imported it (None for the root)"""
    parent: dict[str, str | None] = {root: None}
    todo = [root]
    while todo:
        m = todo.pop()
        for i in imports_of(m):
            if i not in parent:
                parent[i] = m
                todo.append(i)
    return parent


def driver_props_imports(root: str = "Driver.Main") -> list[list[str]]:
    """import chains Driver.Main -> … -> ESV.Props.X (empty = the driver is independent of the proofs and of the table tie)"""
    parent = closure(root)
    chains = []
    for m in sorted(parent):
        if m == FORBIDDEN_PREFIX or m.startswith(FORBIDDEN_PREFIX + "."):
            chain = [m]
            while parent[chain[-1]] is not None:
                chain.append(parent[chain[-1]])  # type: ignore[arg-type]
            chains.append(list(reversed(chain)))
    return chains


if __name__ == "__main__":
    bad = driver_props_imports()
    for c in bad:
        print(" -> ".join(c))
    print(f"{len(closure('Driver.Main'))} modules in the import closure of Driver.Main, {len(bad)} of them under {FORBIDDEN_PREFIX}")
    sys.exit(1 if bad else 0)
