import json, os, shutil, sys
HERE = os.path.dirname(os.path.abspath(__file__))
for area in sys.argv[1:]:
    for n in range(1, 7):
        p = f"/tmp/benign/{area}/out/patch{n}.diff"
        if not os.path.exists(p):
            continue
        dst = os.path.join(HERE, "benign", f"{area}{n}")
        os.makedirs(dst, exist_ok=True)
        shutil.copy(p, os.path.join(dst, "patch.diff"))
        nt = f"/tmp/benign/{area}/out/notes{n}.md"
        if os.path.exists(nt):
            shutil.copy(nt, os.path.join(dst, "notes.md"))
        json.dump({"area": area, "source": "independent sub-agent asked for a strictly behaviour-preserving refactoring of one area of the code, in its own scratch worktree, given nothing from /verif"},
                  open(os.path.join(dst, "meta.json"), "w"), indent=1)
        print(area, n)
