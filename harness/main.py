"""./check <ID> [--tier quick|thorough] [--replay file]"""
from __future__ import annotations

import argparse
import importlib
import os
import sys
import traceback

from . import core


def main() -> int:
    ap = argparse.ArgumentParser()
    ap.add_argument("prop")
    ap.add_argument("--tier", default=os.environ.get("VERIF_TIER", "quick"), choices=["quick", "thorough"])
    ap.add_argument("--replay", default=None)
    a = ap.parse_args()
    seed = int(os.environ.get("VERIF_SEED", "0") or 0)
    sys.path.insert(0, core.REPO)
    os.environ[core.GUARD] = "1"
    prop = a.prop.upper()
    try:
        mod = importlib.import_module(f"harness.props.{prop.lower()}")
    except ModuleNotFoundError:
        print(f"no check for {prop}", file=sys.stderr)
        return 2
    run = core.Run(prop, a.tier, seed)
    try:
        if a.replay:
            return int(mod.replay(run, a.replay))
        return int(mod.run(run))
    except core.Infra as e:
        print(f"INFRASTRUCTURE: {e}", file=sys.stderr)
        return 2
    except Exception:
        traceback.print_exc()
        return 2


if __name__ == "__main__":
    sys.exit(main())
