"""The passes build_and_group_switch_cases / group_switch_cases of the ExplorerScript decompiler (model lean/ESV/Decomp/Switch.lean,
semantics SemS.lean, theorems lean/ESV/Props/DecompSwitch.lean): coverage counters of the routine-level tie (the exact comparison
itself is part of decomp_front.front_channels: keys "sc", "gs"), per-input validation of the REAL graphs with the proven checker
(`decompsw.validate`), and the graph-level tie on hand-built igraph graphs (`decompsw.switch` / impl_decomp.switch_on_graph)."""
from __future__ import annotations

from collections import Counter
from typing import Any

from . import core

MODULES = ["ESV.Props.DecompSwitch"]
THEOREMS = ["ESV.DecompFront.stepS_agrees", "ESV.DecompFront.buildSwitchCases_preserves", "ESV.DecompFront.groupSwitchCases_preserves",
            "ESV.DecompFront.front_through_switch_preserve", "ESV.Decomp.Sw.ltsPS_equiv_ltsS", "ESV.DecompFront.casePart_never_fuel",
            "ESV.Decomp.buildSwitchCases_in_edge_counterexample", "ESV.Decomp.buildSwitchCases_start_vertex_counterexample",
            "ESV.Decomp.buildSwitchCases_case_else_counterexample", "ESV.Decomp.buildSwitchCases_first_edge_counterexample",
            "ESV.Decomp.buildSwitchCases_flagged_edge_counterexample", "ESV.Decomp.buildSwitchCases_second_in_edge_counterexample",
            "ESV.Decomp.buildSwitchCases_jump_start_counterexample", "ESV.Decomp.buildSwitchCases_other_target_counterexample",
            "ESV.Decomp.buildSwitchCases_levels_counterexample", "ESV.Decomp.buildSwitchCases_flags_counterexample",
            "ESV.Decomp.buildSwitchCases_marks_counterexample", "ESV.Decomp.groupSwitchCases_else_ops_counterexample"]

SW_EXAMPLES: list[dict] = []   # first real inputs on which one of the two passes alone changes behaviour (counted only)


def count_switch(cnt: Counter, a: dict, b: dict, sw_answers: list) -> None:
    """coverage of the routine-level tie of the two switch passes; also aligns a search that raised with the model's
    OracleExhausted (the model has no answer left at that call)"""
    sc = a.get("sc")
    if isinstance(sc, dict):
        if sc.pop("oracle_raised", False) and isinstance(b.get("sc"), dict) and b["sc"].get("error") == "OracleExhausted":
            cnt["switch_cases:search_raised"] += 1
            a["sc"] = b["sc"]
        cnt["switch_cases:raises:" + a["sc"].get("error", "?")] += 1
    elif isinstance(sc, list):
        cnt["switch_cases:ok"] += 1
        ib = a.get("ib") or []
        if any(v.get("sws") is not None for g in sc for v in g["vs"]):
            cnt["switch_cases:marks_switch"] += 1
        if any(len(g["vs"]) != len(o["vs"]) for g, o in zip(sc, ib)):
            cnt["switch_cases:deletes_vertices"] += 1
        if any(v.get("swe") for g in sc for v in g["vs"]):
            cnt["switch_cases:marks_switch_end"] += 1
        ncases = [sum(len(e[5]) for e in g["es"] if e[0] == i) for g in sc for i, v in enumerate(g["vs"]) if v.get("sws") is not None]
        for k in ncases:
            cnt["switch_cases:switch_with_%s_cases" % (k if k < 4 else "4+")] += 1
    gs = a.get("gs")
    if isinstance(gs, dict):
        cnt["group_switch:raises:" + gs.get("error", "?")] += 1
    elif isinstance(gs, list):
        cnt["group_switch:ok"] += 1
        if isinstance(sc, list) and any(len(g["es"]) != len(o["es"]) for g, o in zip(gs, sc)):
            cnt["group_switch:merges_edges"] += 1
        if any(len(e[5]) > 1 for g in gs for e in g["es"]):
            cnt["group_switch:edge_with_several_cases"] += 1
        if any(e[4] and e[5] for g in gs for e in g["es"]):
            cnt["group_switch:else_edge_with_cases"] += 1
        # a merged edge whose case indices are NOT contiguous among the tests of its switch (`case 5 -> A, case > 3 -> B, case 7 -> A`):
        # the tests keep their index order (stepS; the writer yields such an edge once per run of indices)
        for g in gs:
            for e in g["es"]:
                mine = sorted(o[1] for o in e[5])
                if len(mine) > 1:
                    others = [o[1] for f in g["es"] if f[0] == e[0] and f is not e for o in f[5]]
                    if any(mine[0] < x < mine[-1] for x in others):
                        cnt["group_switch:merged_edge_with_interleaved_indices"] += 1
    for per_graph in sw_answers:
        for x in per_graph:
            cnt["switch_search_calls"] += 1
            cnt["switch_search_answer:" + ("none" if x is None else ("repeated_edge" if len(set(x)) < len(x) else f"{min(len(x), 4)}{'+' if len(x) >= 4 else ''}_edges"))] += 1


def switch_channels(run: core.Run, pool: core.Pool, drv: core.Driver, sets: list[dict], real: list, sw_answers_of: dict, jobs: int, cnt: Counter) -> int:
    """per-input validation of the REAL graphs of the two switch passes with the proven checker (REAL graph after each pass vs
    REAL graph before it, stepB / stepS), hypotheses of the theorems evaluated on the real graphs; then the graph-level tie.
    Returns the number of model/real mismatches of the graph-level tie."""
    reqs, idx = [], []
    for i, a in enumerate(real):
        if not a or not isinstance(a.get("ib"), list):
            continue
        reqs.append(dict({"op": "decompsw.validate", "ib": a["ib"], "sw_answers": sw_answers_of.get(i, [])},
                         **{k: a[k] for k in ("sc", "gs") if isinstance(a.get(k), list)}))
        idx.append(i)
    for i, rep in zip(idx, drv.batch_parallel(reqs, jobs)):
        if "error" in rep:
            cnt["validate_switch_error"] += 1
            run.broken_tie("decompsw.validate failed: " + str(rep["error"])[:200], {"channel": "decompsw.validate", "rs": sets[i]["rs"]})
            continue
        for v in rep["routines"]:
            r = v["r"]
            for phase, thm, hyps in (("bridge", "stepS_agrees", ("no_switch_marks",)), ("build", "buildSwitchCases_preserves", ("struct_ok", "answers_ok")),
                                     ("group", "groupSwitchCases_preserves", ("struct_ok",))):
                w = v.get(phase)
                if w is None:
                    continue
                key = {"bridge": "sw_bridge", "build": "switch_cases", "group": "group_switch"}[phase]
                tag = ":changed" if w.get("changed") else ""
                cnt[f"{key}:{w['verdict']}{tag}"] += 1
                hyp = all(w[h] for h in hyps)
                cnt[f"{key}:hypotheses_" + ("hold" if hyp else "fail:" + "+".join(h for h in hyps if not w[h])) + tag] += 1
                for extra in ("lvl_det", "flag_det", "else_det", "idx_det", "else_no_ops"):
                    if extra in w and not w[extra]:
                        cnt[f"{key}:not_{extra}"] += 1
                # "silent-left": a reachable cycle of labels and Jumps only in the graph before (outside the quantifier of C02/C06)
                bad = w["verdict"] in ("differ", "check-rejected", "silent-right", "budget", "start-deleted")
                if bad and hyp:
                    run.broken_tie(f"a real graph that meets the hypotheses of {thm} contradicts it ({phase}: {w['verdict']})",
                                   {"channel": "decompsw.validate", "rs": sets[i]["rs"], "routine": r, "verdict": w})
                    run.violation(f"front:{key}_changes_behaviour", f"routine {r}: the real graph after the {phase} pass does not behave like the real graph before it (the theorem's hypotheses hold: the pass no longer is the modelled one): {w['verdict']} {w.get('why', '')} after test outcomes {w.get('path')}",
                                  {"rs": sets[i]["rs"], "routine": r, "verdict": w})
                elif bad:
                    # COUNTED only (like front:build_branches_changes_behaviour): later passes / the writer may compensate; the final
                    # text is judged by C02's validation as before.  First examples kept in SW_EXAMPLES.
                    cnt[f"front:{key}_changes_behaviour"] += 1
                    run.violation(f"front:{key}_changes_behaviour", f"routine {r}: the real graph after the switch pass ({phase}) does not behave like the real graph before it: {w['verdict']} {w.get('why', '')} after test outcomes {w.get('path')}",
                                  {"rs": sets[i]["rs"], "routine": r, "verdict": w})
                    if len(SW_EXAMPLES) < 6:
                        SW_EXAMPLES.append({"phase": phase, "rs": sets[i]["rs"], "routine": r, "verdict": w,
                                            "before": real[i]["ib" if phase != "group" else "sc"][r],
                                            "after": real[i][{"bridge": "ib", "build": "sc", "group": "gs"}[phase]][r],
                                            "answers": (sw_answers_of.get(i) or [[]] * (r + 1))[r]})
    return switch_graph_tie(run, pool, drv, 300, jobs, cnt)


# ---------------------------------------------------------------------------------------------------------------------------
# graph-level tie: hand-built igraph graphs

SWITCH_NAMES = ["Switch", "SwitchSector", "ProcessSpecial", "message_SwitchMenu", "message_Menu"]
CASE_NAMES = {"message_SwitchMenu": ["CaseMenu", "CaseMenu2"]}
REG_CASES = ["Case", "CaseValue", "CaseVariable", "CaseScenario"]


def _v(n: Any, item: dict, **kw: Any) -> dict:
    d = dict(item, n=n, ifs=None, ife=[], mops=[], multi=False, sws=None, swe=[])
    d["not"] = False
    d.update(kw)
    return d


def _lj(off: int, name: str, label: int = 0, call: bool = False) -> dict:
    return {"k": "ljump", "off": off, "name": name, "params": [], "label": label, "call": call}


def _opv(off: int, name: str) -> dict:
    return {"k": "op", "off": off, "name": name, "params": []}


def _lab(i: int) -> dict:
    return {"k": "label", "id": i}


def _so(si: int, ix: int, off: int, name: str) -> list:
    return [si, ix, {"off": off, "name": name, "params": []}]


def _e(s: int, t: int, lv: int = 0, el: bool = False, so: list | None = None, loop: bool = False) -> list:
    return [s, t, lv, loop, el, so or []]


def _w(*vs: dict) -> list:
    return [_v(i, d, **d.pop("_kw", {})) for i, d in enumerate(vs)]


def _sw(off: int, name: str, sws: int) -> dict:
    return dict(_opv(off, name), _kw={"sws": sws})


def _ifj(off: int, name: str, ifs: int) -> dict:
    return dict(_lj(off, name), _kw={"ifs": ifs})


# the witnesses of lean/ESV/Decomp/SwCounter.lean / lean/ESV/Props/DecompSwitch.lean, replayed on the real passes:
# (name, pass, graph, answers, hypotheses hold, behaviour changes)
SW_WITNESSES: list[tuple] = [
    ("exSwitch", "build", {"vs": _w(_opv(0, "Switch"), _lj(1, "Case"), _lj(2, "CaseValue"), _lab(1), _opv(3, "Foo"), _lj(4, "Jump"), _lab(2), _opv(5, "Bar"), _lj(6, "Jump"), _lab(3), _opv(7, "Baz")),
                           "es": [_e(0, 1), _e(1, 3, 1), _e(1, 2), _e(2, 6, 1), _e(2, 9), _e(3, 4), _e(4, 5), _e(5, 9, 1), _e(6, 7), _e(7, 8), _e(8, 9, 1), _e(9, 10)]}, [[2, 5, 9]], True, False),
    ("cexSwIn", "build", {"vs": _w(_opv(0, "Switch"), _lj(1, "Case"), _lj(2, "CaseValue"), _opv(3, "Foo"), _opv(4, "Bar"), _opv(5, "Qux")),
                          "es": [_e(0, 1), _e(1, 3, 1), _e(1, 2), _e(2, 4, 1), _e(2, 5), _e(3, 2)]}, [None], False, True),
    ("cexSwStart", "build", {"vs": _w(_lj(0, "Case"), _opv(1, "Foo"), _opv(2, "Bar"), _opv(3, "Switch")),
                             "es": [_e(0, 1, 1), _e(0, 2), _e(1, 3), _e(3, 0)]}, [None], False, True),
    ("cexSwFall", "build", {"vs": _w(_opv(0, "Switch"), _opv(1, "Bar"), _opv(2, "Foo")), "es": [_e(0, 2), _e(0, 1, 1)]}, [None], False, True),
    ("cexSwPlain", "build", {"vs": _w(_opv(0, "Switch"), _lj(1, "Case"), _opv(2, "Qux"), _opv(3, "Foo"), _opv(4, "Bar")),
                             "es": [_e(0, 1), _e(0, 2, 1, True), _e(1, 3, 1), _e(1, 4)]}, [None], False, True),
    ("cexSwCaseElse", "build", {"vs": _w(_opv(0, "Switch"), _lj(1, "Case"), _opv(2, "Foo"), _opv(3, "Bar")),
                                "es": [_e(0, 1), _e(1, 2, 1, True), _e(1, 3)]}, [None], False, True),
    ("cexSwJumpIn", "build", {"vs": _w(_opv(0, "Switch"), _lj(1, "Case"), _lj(2, "Jump"), _opv(3, "Foo"), _lab(9), _opv(4, "Bar")),
                              "es": [_e(0, 1), _e(1, 3, 1), _e(1, 2), _e(2, 4, 1), _e(3, 2), _e(4, 5)]}, [[0]], False, True),
    ("cexSwJumpStart", "build", {"vs": _w(_lj(0, "Jump"), _opv(1, "Switch"), _lj(2, "Case"), _lab(9), _opv(3, "Bar")),
                                 "es": [_e(0, 3, 1), _e(1, 2), _e(2, 0, 1), _e(2, 3), _e(3, 4)]}, [[0]], False, True),
    ("cexSwJumpTarget", "build", {"vs": _w(_opv(0, "Switch"), _lj(1, "Case"), _opv(2, "Foo"), _lj(3, "Jump"), _lab(8), _opv(4, "Bar"), _lab(9), _opv(5, "Qux")),
                                  "es": [_e(0, 1), _e(1, 2, 1), _e(1, 4), _e(2, 3), _e(3, 6, 1), _e(4, 5), _e(6, 7)]}, [[5, 1]], False, True),
    ("cexSwLvl", "build", {"vs": _w(_opv(0, "Switch"), _lj(1, "Case"), _opv(2, "Foo"), _lj(3, "Jump"), _opv(4, "Qux"), _lab(9), _opv(5, "Bar")),
                           "es": [_e(0, 1), _e(1, 2, 1), _e(1, 5), _e(2, 3), _e(2, 4), _e(3, 5, 1), _e(5, 6)]}, [[2]], False, True),
    ("cexSwFlag", "build", {"vs": _w(_opv(0, "Switch"), _lj(1, "Case"), _ifj(2, "Branch", 0), _lj(3, "Jump"), _opv(4, "Qux"), _lab(9), _opv(5, "Bar")),
                            "es": [_e(0, 1), _e(1, 2, 1), _e(1, 5), _e(2, 3, 0, True), _e(2, 4, 0, True), _e(2, 6, 1), _e(3, 5, 1), _e(5, 6)]}, [[3]], False, True),
    ("cexSwMarks", "build", {"vs": _w(_opv(0, "Switch"), _lj(1, "Case"), _sw(2, "SwitchSector", 5), _lj(3, "Jump"), _opv(4, "Qux"), _lab(9), _opv(5, "Bar")),
                             "es": [_e(0, 1), _e(1, 2, 1), _e(1, 5), _e(2, 3, 0, True), _e(2, 4, 0, True), _e(3, 5, 1), _e(5, 6)]}, [[2]], False, True),
    ("exGroupSw", "group", {"vs": _w(_sw(0, "Switch", 0), _opv(1, "Foo"), _opv(2, "Bar")),
                            "es": [_e(0, 1, 1, False, [_so(0, 0, 10, "Case")]), _e(0, 2, 1, False, [_so(0, 1, 11, "CaseValue")]), _e(0, 1, 1, False, [_so(0, 2, 12, "CaseVariable")]), _e(0, 2, 0, True)]}, [], True, False),
    ("cexGsElseOps", "group", {"vs": _w(_sw(0, "Switch", 0), _opv(1, "Foo"), _opv(2, "Bar")),
                               "es": [_e(0, 1, 0, True, [_so(0, 0, 10, "Case")]), _e(0, 1, 1, False, [_so(0, 1, 11, "CaseValue")]), _e(0, 2, 1, False, [_so(0, 2, 12, "CaseVariable")])]}, [], False, True),
]


def structured_sgraph(rnd: Any) -> tuple[dict, list]:
    """a switch as the phase meets it - switch op, chain of case tests, case bodies that end in a Jump to a common end label,
    default branch - with random perturbations real runs never produce: extra in-edges of case vertices and Jumps, case edges
    into the chain, chains that close into a cycle, else flags / switch_ops already set, cases of another switch family,
    several out-edges of the switch op, shuffled vertex numbering and edge ids; and an answer of the search"""
    k = rnd.randint(0, 4)
    sw_name = rnd.choice(SWITCH_NAMES)
    cases = CASE_NAMES.get(sw_name, REG_CASES)
    roles: list[tuple] = [("pre",), ("sw",)] + [("case", i) for i in range(k)]
    bodies = []
    for i in range(k):
        bodies.append(rnd.choice(["op_jump", "op_jump", "jump", "op", "label_jump", "if_jump"]))
    for i, b in enumerate(bodies):
        roles.append(("blabel", i))
        if b in ("op_jump", "op", "if_jump"):
            roles.append(("bop", i))
        if b == "if_jump":
            roles.append(("bif", i))
        if b != "op":
            roles.append(("bjump", i))
    default = rnd.choice(["op", "jump", "none", "op_jump"])
    if default in ("op", "op_jump"):
        roles.append(("dop",))
    if default in ("jump", "op_jump"):
        roles.append(("djump",))
    roles += [("end",), ("after",)]
    n = len(roles)
    order = list(range(n))
    if rnd.random() < 0.35:
        rest = order[1:]
        rnd.shuffle(rest)
        order = [0] + rest if rnd.random() < 0.7 else rest + [0]
    pos = {role: order[i] for i, role in enumerate(roles)}
    names = sorted(rnd.sample(range(0, 3 * n), n))
    vs: list = [None] * n
    es: list = []

    def put(role: tuple, item: dict, **kw: Any) -> None:
        vs[pos[role]] = _v(names[pos[role]], item, **kw)

    put(("pre",), _opv(0, rnd.choice(["Foo", "lives", "Wait"])))
    put(("sw",), _opv(1, sw_name), **({"sws": rnd.randint(0, 2)} if rnd.random() < 0.03 else {}))
    put(("end",), _lab(99), **({"ife": [rnd.randint(0, 2)]} if rnd.random() < 0.2 else {}))
    put(("after",), _opv(98, rnd.choice(["Bar", "Return", "End"])))
    es.append(_e(pos[("pre",)], pos[("sw",)]))
    es.append(_e(pos[("end",)], pos[("after",)]))
    chain_end = pos[("dop",)] if ("dop",) in pos else (pos[("djump",)] if ("djump",) in pos else pos[("end",)])
    first = pos[("case", 0)] if k else chain_end
    es.append(_e(pos[("sw",)], first, 0))
    for i in range(k):
        cname = rnd.choice(cases) if rnd.random() < 0.93 else rnd.choice(["CaseMenu", "Case", "Branch", "Jump"])
        put(("case", i), _lj(10 + i, cname, i), **({"ifs": 7} if rnd.random() < 0.02 else {}))
        nxt = pos[("case", i + 1)] if i + 1 < k else chain_end
        if rnd.random() < 0.04:
            nxt = pos[("case", rnd.randrange(k))]           # the chain closes into a cycle / skips
        if rnd.random() < 0.95:
            es.append(_e(pos[("case", i)], nxt, 0))
        tgt = pos[("blabel", i)]
        if rnd.random() < 0.12 and i > 0:
            tgt = pos[("blabel", rnd.randrange(i))]          # two cases with the same body (group_switch_cases merges them)
        if rnd.random() < 0.03:
            tgt = pos[("case", rnd.randrange(k))]            # a case edge into the chain
        es.append(_e(pos[("case", i)], tgt, 1))
        put(("blabel", i), _lab(i))
        b = bodies[i]
        cur = pos[("blabel", i)]
        if ("bop", i) in pos:
            put(("bop", i), _opv(30 + i, rnd.choice(["Foo", "Bar", "Wait"])))
            es.append(_e(cur, pos[("bop", i)]))
            cur = pos[("bop", i)]
        if ("bif", i) in pos:
            put(("bif", i), _lj(40 + i, "Branch", 50 + i), ifs=20 + i)
            es.append(_e(cur, pos[("bif", i)]))
            cur = pos[("bif", i)]
            es.append(_e(cur, pos[("end",)], 1, False))
            vs[pos[("end",)]]["ife"].append(20 + i)
        if ("bjump", i) in pos:
            put(("bjump", i), _lj(50 + i, "Jump", 99))
            es.append(_e(cur, pos[("bjump", i)], 0, ("bif", i) in pos))
            es.append(_e(pos[("bjump", i)], pos[("end",)] if rnd.random() < 0.95 else pos[("after",)], 1))
        else:
            # falls through into the next body / the default / the end
            nb = pos[("blabel", i + 1)] if i + 1 < k else chain_end
            es.append(_e(cur, nb))
    if ("dop",) in pos:
        put(("dop",), _opv(60, "Qux"))
        es.append(_e(pos[("dop",)], pos[("djump",)] if ("djump",) in pos else pos[("end",)]))
    if ("djump",) in pos:
        put(("djump",), _lj(61, "Jump", 99))
        es.append(_e(pos[("djump",)], pos[("end",)], 1))
    # perturbations
    r = rnd.random()
    if r < 0.08 and k:
        es.append(_e(pos[("pre",)] if rnd.random() < 0.5 else pos[("after",)], pos[("case", rnd.randrange(k))], rnd.randint(0, 1)))   # second in-edge of a case vertex
    elif r < 0.16:
        js = [pos[x] for x in pos if x[0] in ("bjump", "djump")]
        if js:
            es.append(_e(rnd.randrange(n), rnd.choice(js), rnd.randint(0, 1)))       # second in-edge of a Jump
    elif r < 0.22:
        es.append(_e(pos[("sw",)], rnd.randrange(n), rnd.randint(0, 1)))             # second out-edge of the switch op
    elif r < 0.26:
        e = rnd.choice(es)
        e[4] = True                                                                  # an else flag that is already set
    elif r < 0.30:
        e = rnd.choice(es)
        e[5] = [_so(0, rnd.randint(0, 2), 70, "Case")]                               # switch_ops that are already set
    if rnd.random() < 0.3:
        rnd.shuffle(es)
    # the answer of the search: the edges into the end label (from the Jumps), sometimes arbitrary ones
    into_end = [i for i, e in enumerate(es) if e[1] == pos[("end",)] and e[0] != pos[("end",)]]
    answers: list = []
    for _ in range(rnd.choice([1, 1, 1, 2])):
        r = rnd.random()
        if r < 0.12 or not es:
            answers.append(None)
        elif r < 0.8 and into_end:
            a = [rnd.choice(into_end) for _ in range(rnd.randint(1, max(1, k + 1)))]
            if rnd.random() < 0.6:
                a = list(into_end)
                rnd.shuffle(a)
            answers.append(a)
        else:
            answers.append([rnd.randrange(len(es) + (1 if rnd.random() < 0.05 else 0)) for _ in range(rnd.randint(0, 3))])
    if rnd.random() < 0.04:
        answers = answers[:-1]
    return {"vs": vs, "es": es}, answers


def random_sgraph(rnd: Any, grouped: bool) -> tuple[dict, list]:
    """a small random graph; `grouped`: with switch vertices that are already wrapped, out-edges with switch_ops / else flags
    (what group_switch_cases meets, and much it never meets: edges without switch_ops, else edges with switch_ops, repeated
    indices, several else edges)"""
    n = rnd.randint(2, 8)
    names = sorted(rnd.sample(range(0, 3 * n), n))
    vs = []
    for i in range(n):
        r = rnd.random()
        if r < (0.3 if grouped else 0.2):
            v = _v(names[i], _opv(i, rnd.choice(SWITCH_NAMES)), sws=(rnd.randint(0, 3) if grouped or rnd.random() < 0.1 else None))
        elif r < 0.45:
            v = _v(names[i], _lj(i, rnd.choice(REG_CASES + ["CaseMenu"]), i))
        elif r < 0.55:
            v = _v(names[i], _lj(i, "Jump", i))
        elif r < 0.75:
            v = _v(names[i], _lab(i), swe=[rnd.randint(0, 2)] if rnd.random() < 0.1 else [])
        elif r < 0.80:
            v = _v(names[i], _lj(i, "Branch", i), ifs=rnd.randint(0, 3))
        elif r < 0.84:
            v = _v(None, {"k": "foreign", "id": i})
        else:
            v = _v(names[i], _opv(i, rnd.choice(["Foo", "Bar", "Return", "lives", "End"])))
        vs.append(v)
    es = []
    labels = [i for i, v in enumerate(vs) if v["k"] == "label"]
    for i, v in enumerate(vs):
        if v["k"] == "foreign":
            continue
        if v.get("sws") is not None:
            tg = [rnd.randrange(n) for _ in range(rnd.randint(1, 3))]
            ix = 0
            for _ in range(rnd.randint(0, 5)):
                r = rnd.random()
                if r < 0.7:
                    so = [_so(0 if rnd.random() < 0.95 else 1, ix if rnd.random() < 0.9 else rnd.randint(0, 3), 100 + ix, rnd.choice(REG_CASES))]
                    ix += 1
                    if rnd.random() < 0.15:
                        so.append(_so(0, ix, 100 + ix, "Case"))
                        ix += 1
                    es.append(_e(i, rnd.choice(tg), 1, rnd.random() < 0.06, so))
                elif r < 0.9:
                    es.append(_e(i, rnd.choice(tg) if rnd.random() < 0.7 else rnd.randrange(n), 0, True))
                else:
                    es.append(_e(i, rnd.choice(tg), 0, False))
        else:
            for _ in range(rnd.choice([0, 1, 1, 1, 2, 2, 3])):
                t = rnd.choice(labels) if labels and rnd.random() < 0.3 else rnd.randrange(n)
                es.append(_e(i, t, rnd.choice([0, 0, 1, 1, 2]), rnd.random() < 0.04, [] if rnd.random() < 0.95 else [_so(0, 0, 90, "Case")], rnd.random() < 0.05))
    rnd.shuffle(es)
    nsw = sum(1 for v in vs if v["k"] == "op" and v["name"] in SWITCH_NAMES)
    answers: list = []
    to_label = [i for i, e in enumerate(es) if vs[e[1]]["k"] == "label"]
    for _ in range(nsw):
        r = rnd.random()
        if r < 0.25 or not es:
            answers.append(None)
        elif r < 0.8 and to_label:
            answers.append([rnd.choice(to_label) for _ in range(rnd.randint(1, 3))])
        else:
            answers.append([rnd.randrange(len(es) + (1 if rnd.random() < 0.05 else 0)) for _ in range(rnd.randint(0, 3))])
    return {"vs": vs, "es": es}, answers


def switch_graph_tie(run: core.Run, pool: core.Pool, drv: core.Driver, n: int, jobs: int, cnt: Counter) -> int:
    """graph-level tie of build_and_group_switch_cases and group_switch_cases: model and real pass on hand-built graphs (the
    witnesses of the Lean counterexamples + n random graphs; group also on what the REAL build produced).  On every graph the
    theorems' conclusion is re-checked by the proven checker: hypotheses hold => behaviour kept."""
    cases: list[tuple] = list(SW_WITNESSES)
    for k in range(n):
        r = k % 5
        if r < 3:
            g, ans = structured_sgraph(run.rng)
            cases.append((f"structured{k}", "build", g, ans, None, None))
        elif r == 3:
            g, ans = random_sgraph(run.rng, False)
            cases.append((f"random{k}", "build", g, ans, None, None))
        else:
            g, ans = random_sgraph(run.rng, True)
            cases.append((f"random{k}", "group", g, [], None, None))
            cases.append((f"random{k}", "build", g, ans, None, None))
    reqs = [{"g": g, "pass": ps, "answers": ans} for (_n, ps, g, ans, _h, _c) in cases]
    chunk = 40

    def run_real(rq: list) -> list:
        chunks = [rq[i:i + chunk] for i in range(0, len(rq), chunk)]
        out: list[Any] = []
        for ch, o in zip(chunks, pool.map("harness.impl_decomp:switch_on_graphs", chunks, timeout=90)):
            out += o if isinstance(o, list) else [None] * len(ch)
        return out

    # two thirds of the build cases: the answers of the search are drawn by a seeded policy at the time of the call, on the
    # graph as it is then (the phase has renumbered the edges by then), and recorded for the model
    for rq, case in zip(reqs, cases):
        if rq["pass"] == "build" and case[4] is None and run.rng.random() < 0.66:
            rq["answers"] = {"seed": run.rng.randrange(1 << 30)}
    real = run_real(reqs)
    for rq, a in zip(reqs, real):
        if isinstance(rq["answers"], dict):
            rq["answers"] = a.pop("answers_used") if isinstance(a, dict) else []
    # second round: group_switch_cases on what the REAL build_and_group_switch_cases produced
    extra = [(name + "+group", "group", a, [], None, None) for (name, ps, _g, _a, _h, _c), a in zip(cases, real)
             if ps == "build" and isinstance(a, dict) and "error" not in a and any(v.get("sws") is not None for v in a["vs"])]
    if extra:
        ereqs = [{"g": g, "pass": ps, "answers": ans} for (_n, ps, g, ans, _h, _c) in extra]
        real += run_real(ereqs)
        cases += extra
        reqs += ereqs
    model = drv.batch_parallel([dict(r, op="decompsw.switch") for r in reqs], jobs)
    mism = 0
    for (name, ps, g, _ans, exp_hyp, exp_chg), a, b, rq in zip(cases, real, model, reqs):
        ans = rq["answers"]
        if a is None:
            cnt["switch_tie:impl_no_answer"] += 1
            continue
        b = dict(b)
        facts = {k: b.pop(k, None) for k in ("hyp", "verdict", "bridge", "no_switch_marks")}
        shape = "raises:" + a["error"] if "error" in a else ("ok:changes" if (len(a["vs"]), a["es"], [v.get("sws") for v in a["vs"]]) != (len(g["vs"]), g["es"], [v.get("sws") for v in g["vs"]]) else "ok")
        cnt[f"switch_tie:{ps}:{shape}"] += 1
        if a != b:
            mism += 1
            if mism <= 2:
                run.broken_tie(f"correspondence {ps} switch cases on a hand-built graph: model and implementation disagree",
                               {"channel": "decompsw.switch", "case": name, "pass": ps, "g": g, "answers": ans, "impl": a, "model": b})
            continue
        if "error" in a:
            continue
        changed = facts["verdict"] in ("differ", "check-rejected", "silent-right", "budget", "start-deleted")
        cnt[f"switch_tie:{ps}:hypotheses_" + ("hold" if facts["hyp"] else "fail") + (":behaviour_changed" if changed else "")] += 1
        if facts["hyp"] and facts["verdict"] not in ("equiv", "silent-left"):
            run.broken_tie(f"the theorem about {ps} switch cases is contradicted by the proven checker on a hand-built graph",
                           {"channel": "decompsw.switch", "case": name, "pass": ps, "g": g, "answers": ans, "facts": facts})
        if facts["no_switch_marks"] and facts["bridge"] not in ("equiv", "silent-left"):
            run.broken_tie("stepS_agrees contradicted by the proven checker on a hand-built graph", {"channel": "decompsw.switch", "case": name, "g": g, "facts": facts})
        if exp_hyp is not None and (facts["hyp"] != exp_hyp or (exp_chg is not None and changed != exp_chg)):
            run.broken_tie(f"witness {name} of a Lean theorem does not replay on the real {ps} pass", {"channel": "decompsw.switch", "case": name, "impl": a, "facts": facts})
    return mism
