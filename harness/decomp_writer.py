"""The text writers of the ExplorerScript decompiler (write_handlers/*, the last step of convert()) at the level of the statement
tree the text denotes (model lean/ESV/Decomp/Writer*.lean, theorems lean/ESV/Props/DecompWriter.lean).

  tie        for every routine set whose real graph phase reaches the final graphs: the REAL writers on the REAL final graphs
             (harness/impl_writer.py, called from impl_decomp.front on the same grapher object), their text parsed with the
             repo's parser (astdump) and lowered (surface.lower_program) to the core program; the model's `writeProgram` on the
             same graphs (`decompwr.write`) must give EXACTLY that program - and an exception of the same class where the real
             writers raise (convert() answers those with the SsbScript fallback), "unparseable" where the real text cannot be
             read back.  Both sides go through canon_dmode_core (a dungeon-mode number 0..3 is printed as its constant).
             A model answer `unmodelled:*` is counted separately and never compared.
  validate   `Src.sem(model AST of routine k)` against the real final graph (`ltsL` from vertex 0; leaving the routine through
             a foreign label is the same final event on both sides) and against the input routine set (`beh.validate`), with the
             proven checker.  Verdicts are COUNTED (the writer is judged end to end by C02); the first examples are kept.
"""
from __future__ import annotations

import copy
from collections import Counter
from typing import Any

from . import core
from . import decomp_common as dc
from .gen.surface import PERF_VAR

MODULES = ["ESV.Props.DecompWriter"]
THEOREMS = ["ESV.DecompFront.writeRoutine_straightline", "ESV.DecompFront.writeRoutine_labelfree", "ESV.DecompFront.writeRoutine_joins",
            "ESV.DecompFront.writeRoutine_checked", "ESV.Decomp.Wr.writeRoutine_lf_equiv", "ESV.Decomp.Wr.writeRoutine_jn_equiv", "ESV.Decomp.Wr.graph_spec", "ESV.Decomp.Wr.tr_spec",
            "ESV.Decomp.writeRoutine_params_counterexample", "ESV.Decomp.writeRoutine_lowering_counterexample",
            "ESV.Decomp.writeRoutine_context_counterexample", "ESV.Decomp.writeRoutine_elseif_counterexample"]

WR_EXAMPLES: list[dict] = []     # first real inputs on which the model's AST does not behave like the final graph / the input (counted)
CTX_OPS = ("lives", "object", "performer")


def take(real: list) -> dict[int, Any]:
    """removes the writers' results from the front-phase dumps (they are not part of the `decomp.front` comparison)"""
    out = {}
    for i, a in enumerate(real):
        if isinstance(a, dict) and "wr" in a:
            out[i] = a.pop("wr")
    return out


def classes_of(rl: list) -> list[str]:
    """construct classes of a routine set, read off its real final graphs"""
    cl = set()
    for g in rl:
        for v in g["vs"]:
            if v.get("ifs") is not None:
                cl.add("if")
                if v.get("multi"):
                    cl.add("or")
                if v.get("not"):
                    cl.add("not")
            if v.get("sws") is not None:
                cl.add("switch")
            if v.get("fs") is not None:
                cl.add("forever")
            if v.get("fb") is not None:
                cl.add("break_loop")
            if v.get("fc") is not None:
                cl.add("continue")
            if v.get("call"):
                cl.add("call")
            if v["k"] == "foreign":
                cl.add("foreign_label")
            if v["k"] == "label":
                cl.add("label")
            if v["k"] == "ljump" and v.get("name") == "Jump" and v.get("fb") is None and v.get("fc") is None and not v.get("syn"):
                cl.add("jump")
            if v["k"] == "op" and v.get("name") in CTX_OPS and not v.get("syn"):
                cl.add("ctx")
            if v["k"] == "op" and v.get("name") in ("message_SwitchTalk", "message_SwitchMonologue"):
                cl.add("message_switch")
        if not g["vs"]:
            cl.add("alias")
    return sorted(cl) or ["straight_line"]


def ast_classes(prog: Any) -> list[str]:
    """construct classes read off a core program (what the writers made of the graph)"""
    cl = set()

    def walk(n: Any) -> None:
        if isinstance(n, list):
            if n and isinstance(n[0], str):
                t = n[0]
                if t == "if" and len(n) == 3 and isinstance(n[1], list):
                    cl.add("ast:if")
                    if len(n[1]) > 1:
                        cl.add("ast:elseif")
                    if n[2] is not None:
                        cl.add("ast:else")
                    for b in n[1]:
                        if b[0]:
                            cl.add("ast:not")
                        if len(b[1]) > 1:
                            cl.add("ast:or")
                elif t == "switch" and len(n) == 3:
                    cl.add("ast:switch")
                    if any(c[0] for c in n[2]):
                        cl.add("ast:default")
                    if any((not c[2]) for c in n[2][:-1]):
                        cl.add("ast:stacked_cases")
                elif t in ("forever", "break_loop", "continue", "label", "jump", "call", "ctx", "break"):
                    cl.add("ast:" + t)
            for x in n:
                walk(x)
    walk(prog.get("routines"))
    return sorted(cl)


def outcome_real(wr: dict) -> tuple:
    if "error" in wr:
        return ("error", wr["error"])
    if wr.get("core") is None:
        return ("unparseable", wr.get("ast_error"))
    return ("ok", dc.canon_dmode_core(copy.deepcopy(wr["core"])))


def outcome_model(m: dict) -> tuple:
    if "error" in m:
        e = str(m["error"])
        if e.startswith("unmodelled:"):
            return ("unmodelled", e)
        if e.startswith("unparseable:"):
            return ("unparseable", e)
        return ("error", e)
    if "prog" not in m:
        return ("driver_error", str(m)[:200])
    return ("ok", dc.canon_dmode_core(copy.deepcopy(m["prog"])))


BAD = ("differ", "check-rejected", "silent-right", "budget", "no-entry")


def writer_channels(run: core.Run, pool: core.Pool, drv: core.Driver, sets: list[dict], real: list, wr_of: dict, jobs: int, cnt: Counter) -> int:
    """returns the number of model/real mismatches"""
    st = pool.map("harness.impl_writer:table_selftest", [None], timeout=60)[0]
    if not isinstance(st, dict) or st.get("bad") or st.get("perf") != PERF_VAR:
        run.broken_tie("the operator tables of the lowering (surface.py) are not the inverse of the notations the writers print", {"channel": "decompwr.tables", "result": st})
    reqs, idx = [], []
    for i, a in enumerate(real):
        if not a or not isinstance(a.get("rl"), list):
            continue
        if i not in wr_of:
            cnt["writer:impl_no_answer"] += 1
            continue
        rs = sets[i]["rs"]
        reqs.append({"op": "decompwr.write", "rl": a["rl"], "infos": rs["infos"], "coros": rs["coros"], "perf": PERF_VAR, "validate": True})
        idx.append(i)
    mism = 0
    vreqs, vidx = [], []
    per_class: dict[str, Counter] = {}
    for i, m in zip(idx, drv.batch_parallel(reqs, jobs)):
        wr = wr_of[i]
        a = real[i]
        cnt["writer:sets"] += 1
        cv = wr.get("convert") or {}
        if "error" in cv:
            cnt["writer:convert_raises:" + cv["error"]] += 1
        elif cv.get("fallback") != ("error" in wr) or (not cv.get("fallback") and not cv.get("same_text")):
            # the adapter repeats the last statements of convert(); it must answer like convert() itself
            cnt["writer:adapter_differs_from_convert"] += 1
            run.broken_tie("the writers run by the adapter do not answer like convert() end to end", {"channel": "decompwr.adapter", "rs": sets[i]["rs"], "adapter": {k: wr.get(k) for k in ("error", "text")}, "convert": cv})
        r, mo = outcome_real(wr), outcome_model(m)
        classes = classes_of(a["rl"])
        if r[0] == "ok":
            classes += ast_classes(wr["core"])
        tag = "agree"
        if mo[0] == "unmodelled":
            tag = "unmodelled"
            cnt["writer:" + mo[1]] += 1
        elif mo[0] == "driver_error":
            tag = "mismatch"
        elif r[0] != mo[0]:
            tag = "mismatch"
        elif r[0] == "ok" and r[1] != mo[1]:
            tag = "mismatch"
        elif r[0] == "error" and r[1] != mo[1]:
            tag = "mismatch"
        cnt[f"writer:{tag}"] += 1
        cnt[f"writer:real:{r[0]}" + (":" + str(r[1]) if r[0] == "error" else "")] += 1
        for c in classes:
            per_class.setdefault(c, Counter())[tag] += 1
        if tag == "mismatch":
            mism += 1
            if mism <= 3:
                detail: dict = {"channel": "decompwr.write", "rs": sets[i]["rs"], "real_kind": r[0], "model_kind": mo[0]}
                if r[0] == "ok" and mo[0] == "ok":
                    k = next((k for k, (x, y) in enumerate(zip(r[1]["routines"], mo[1]["routines"])) if x != y), None)
                    detail.update({"routine": k, "real": r[1]["routines"][k] if k is not None else r[1], "model": mo[1]["routines"][k] if k is not None else mo[1]})
                else:
                    detail.update({"real": r[1] if r[0] != "ok" else "(a program)", "model": mo[1] if mo[0] != "ok" else "(a program)"})
                detail["text"] = wr.get("text")
                run.broken_tie(f"correspondence decompiler writers: model and implementation disagree ({r[0]} vs {mo[0]})", detail)
            continue
        if tag != "agree" or r[0] != "ok":
            continue
        # per-input validation of the model's AST (= the real text's AST): against the real final graphs ...
        for v in (m.get("ast_vs_graph") or {}).get("routines", []):
            cnt["writer:ast_vs_graph:" + v["verdict"]] += 1
            # hypotheses of writeRoutine_straightline / writeRoutine_labelfree on the real graph; where they hold the theorem
            # says the verdict is `equiv` (the model's AST is the real text's AST: the tie above)
            if v["verdict"] != "alias":
                cnt["writer:routines"] += 1
                for h in ("straight_ok", "lf_ok", "jn_graph", "jn_ok"):
                    if v.get(h):
                        cnt[f"writer:hypothesis:{h}"] += 1
                if v.get("lf_ok") or v.get("jn_ok"):
                    cnt["writer:hypothesis:lf_or_jn"] += 1
                if (v.get("lf_ok") or v.get("jn_ok")) and v["verdict"] != "equiv":
                    run.broken_tie("a real final graph that meets the hypotheses of writeRoutine_labelfree / writeRoutine_joins contradicts the theorem (" + v["verdict"] + ")",
                                   {"channel": "decompwr.write", "rs": sets[i]["rs"], "routine": v["r"], "verdict": {k: v.get(k) for k in ("verdict", "why", "path")}})
            if v["verdict"] in BAD or v["verdict"] == "silent-right":
                cnt["writer:ast_differs_from_graph"] += 1
                if len(WR_EXAMPLES) < 8:
                    WR_EXAMPLES.append({"what": "ast_vs_graph", "rs": sets[i]["rs"], "routine": v["r"], "verdict": {k: v.get(k) for k in ("verdict", "why", "path")},
                                        "graph": a["rl"][v["r"]], "text": wr.get("text")})
        # ... and against the input routine set
        vreqs.append({"op": "beh.validate", "prog": mo[1], "ops": sets[i]["rs"]["ops"]})
        vidx.append(i)
    for i, rep in zip(vidx, drv.batch_parallel(vreqs, jobs)):
        for v in rep.get("routines", []):
            cnt["writer:ast_vs_input:" + v["verdict"]] += 1
            if v["verdict"] in BAD and len(WR_EXAMPLES) < 12:
                WR_EXAMPLES.append({"what": "ast_vs_input", "rs": sets[i]["rs"], "routine": v["r"], "verdict": {k: v.get(k) for k in ("verdict", "why", "path")}})
    for c, k in sorted(per_class.items()):
        for tag, n in k.items():
            cnt[f"writer:class:{c}:{tag}"] = n
    mism += writer_graph_tie(run, pool, drv, sets, real, 300 if run.tier == "quick" else 3000, jobs, cnt)
    mism += witness_replay(run, pool, drv, cnt)
    return mism


# ---------------------------------------------------------------------------------------------------------------------------
# graph-level tie: the real write handlers on hand-built graphs (real final graphs, perturbed) - shapes real runs rarely or never
# produce: other lowering paths of the headers, message cases behind defaults, fall-through labels, markers in unusual places,
# edges added / removed / retargeted, gaps in the case indices, Jumps in front of switch ends, broken routine infos

TEST_SHAPES = [("Branch", lambda r: [_il(r), _il(r)]), ("BranchBit", lambda r: [_il(r, perf=True), r.randint(0, 9)]),
               ("BranchValue", lambda r: [_il(r), r.choice([2, 2, 3, 7, 0, 11]), _il(r)]), ("BranchVariable", lambda r: [_il(r), r.randint(0, 10), _il(r)]),
               ("BranchDebug", lambda r: [r.choice([0, 1, 5, {"c": "X"}])]), ("BranchPerformance", lambda r: [r.randint(0, 5), r.choice([0, 1, 2])]),
               ("BranchScenarioNow", lambda r: [_il(r), r.randint(0, 9), r.choice([1, {"c": "K"}])]), ("BranchSum", lambda r: [_il(r), 3, {"s": "x"}]),
               ("BranchEdit", lambda r: []), ("Foo", lambda r: [1])]
FLAG_SHAPES = [("flag_CalcBit", lambda r: [_il(r, perf=True), r.randint(0, 7), _il(r)]), ("flag_CalcValue", lambda r: [_il(r), r.choice([0, 0, 1, 4, 9]), _il(r)]),
               ("flag_CalcVariable", lambda r: [_il(r), r.randint(0, 4), _il(r)]), ("flag_Set", lambda r: [_il(r), _il(r)]), ("flag_Clear", lambda r: [_il(r)]),
               ("flag_ResetDungeonResult", lambda r: [7]), ("flag_SetDungeonMode", lambda r: [_il(r), r.choice([0, 3, 7, {"c": "DMODE_OPEN"}])]),
               ("flag_SetPerformance", lambda r: [r.choice([3, {"c": "K"}]), _il(r)]), ("flag_SetScenario", lambda r: [_il(r), 1, 2]),
               ("flag_SetAdventureLog", lambda r: []), ("Return", lambda r: [1]), ("Hold", lambda r: []), ("Jump", lambda r: []), ("lives", lambda r: [_il(r)]),
               ("object", lambda r: [1, 2]), ("CaseText", lambda r: [1, {"s": "t"}]), ("message_SwitchTalk", lambda r: [_il(r)]), ("JumpCommon", lambda r: [3]),
               ("Op", lambda r: [{"c": "TRUE"}, {"pm": ["m", 1, 3, 4, 5]}])]
CASE_SHAPES = [("Case", lambda r: [_il(r)]), ("CaseValue", lambda r: [r.randint(0, 11), _il(r)]), ("CaseVariable", lambda r: [3, _il(r)]),
               ("CaseScenario", lambda r: [5, 2]), ("CaseMenu", lambda r: [r.choice([{"s": "m"}, 3])]), ("CaseMenu2", lambda r: [4]), ("Foo", lambda r: [])]
SWITCH_NAMES = ["Switch", "SwitchScenario", "SwitchScenarioLevel", "SwitchRandom", "SwitchDungeonMode", "SwitchSector", "message_SwitchMenu", "ProcessSpecial", "SwitchX"]


def _il(r: Any, perf: bool = False) -> Any:
    x = r.random()
    if perf and x < 0.3:
        return {"c": PERF_VAR}
    if x < 0.5:
        return {"c": r.choice(["$X", "K", "$EVENT_LOCAL"])}
    if x < 0.85:
        return r.randint(-3, 40)
    if x < 0.9:
        return {"fx": "1.5"}
    return r.choice([{"s": "str"}, {"c": "FALSE"}, {"c": "end"}])


def perturb(rnd: Any, g: dict) -> tuple[dict, str]:
    """one random change of a final graph (JSON form of impl_decomp._lgraph); returns the new graph and what was done"""
    g = copy.deepcopy(g)
    vs, es = g["vs"], g["es"]
    n = len(vs)
    if n == 0:
        return g, "none"
    kind = rnd.choice(["test", "flag", "case", "switch", "swap", "ft", "edge+", "edge-", "retarget", "else", "not", "marker", "jump_split",
                       "index", "mops", "level"])
    plain = [i for i, v in enumerate(vs) if v["k"] == "op" and not v.get("syn") and v.get("sws") is None]
    ljs = [i for i, v in enumerate(vs) if v["k"] == "ljump" and not v.get("syn")]
    labels = [i for i, v in enumerate(vs) if v["k"] == "label" and not v.get("syn")]
    if kind == "test" and ljs:
        i = rnd.choice(ljs)
        nm, f = rnd.choice(TEST_SHAPES)
        vs[i]["name"], vs[i]["params"] = nm, f(rnd)
    elif kind == "flag" and plain:
        i = rnd.choice(plain)
        nm, f = rnd.choice(FLAG_SHAPES)
        vs[i]["name"], vs[i]["params"] = nm, f(rnd)
    elif kind == "case" and any(e[5] for e in es):
        e = rnd.choice([e for e in es if e[5]])
        t = rnd.choice(e[5])
        nm, f = rnd.choice(CASE_SHAPES)
        t[2]["name"], t[2]["params"] = nm, f(rnd)
    elif kind == "switch" and any(v.get("sws") is not None for v in vs):
        i = rnd.choice([i for i, v in enumerate(vs) if v.get("sws") is not None])
        vs[i]["name"] = rnd.choice(SWITCH_NAMES)
        if rnd.random() < 0.3:
            vs[i]["params"] = []
    elif kind == "swap" and len(plain) >= 2:
        i = rnd.choice(plain[:-1])
        j = plain[plain.index(i) + 1]
        for k in ("off", "name", "params"):
            vs[i][k], vs[j][k] = vs[j][k], vs[i][k]
    elif kind == "ft" and labels:
        vs[rnd.choice(labels)]["ft"] = True
    elif kind == "edge+":
        es.append([rnd.randrange(n), rnd.randrange(n), rnd.randint(0, 3), False, rnd.random() < 0.3, []])
    elif kind == "edge-" and es:
        del es[rnd.randrange(len(es))]
    elif kind == "retarget" and es:
        rnd.choice(es)[1] = rnd.randrange(n)
    elif kind == "else" and es:
        e = rnd.choice(es)
        e[4] = not e[4]
    elif kind == "not" and ljs:
        i = rnd.choice(ljs)
        vs[i]["not"] = not vs[i].get("not")
    elif kind == "marker":
        i = rnd.randrange(n)
        v = vs[i]
        if v["k"] == "label":
            what = rnd.choice(["fs", "fe", "ife", "swe", "fs-"])
            if what == "fs":
                v["fs"] = rnd.randint(0, 2)
            elif what == "fs-":
                v["fs"] = None
            else:
                v[what] = list(v.get(what) or []) + [rnd.randint(0, 3)]
        elif v["k"] == "ljump" and not v.get("syn"):
            for k in ("ifs", "fb", "fc"):
                v[k] = None
            v["call"] = False
            what = rnd.choice(["fb", "fc", "ifs", "call", "none", "fs"])
            if what == "call":
                v["call"] = True
            elif what != "none":
                v[what] = rnd.randint(0, 2)
            if what != "ifs":
                v["mops"], v["multi"], v["not"] = [], False, False
    elif kind == "jump_split" and es:
        k = rnd.randrange(len(es))
        s, t = es[k][0], es[k][1]
        d = dict(vs[0])
        d.update({"k": "ljump", "off": 900 + n, "name": "Jump", "params": [], "label": 77, "call": False, "n": 900 + n, "ifs": None, "ife": [], "mops": [], "not": False,
                  "multi": False, "sws": None, "swe": [], "ft": False, "fs": None, "fe": [], "fb": None, "fc": None, "fw": False, "syn": False})
        d.pop("id", None)
        vs.append(d)
        es[k][1] = n
        es.append([n, t, es[k][2], False, False, []])
    elif kind == "index" and any(e[5] for e in es):
        e = rnd.choice([e for e in es if e[5]])
        t = rnd.choice(e[5])
        t[1] = max(0, t[1] + rnd.choice([1, 2, -1]))
    elif kind == "mops" and ljs:
        i = rnd.choice(ljs)
        if vs[i].get("ifs") is not None:
            nm, f = rnd.choice(TEST_SHAPES)
            vs[i]["mops"] = list(vs[i].get("mops") or []) + [{"off": 800 + i, "name": nm, "params": f(rnd)}]
            vs[i]["multi"] = True
    elif kind == "level" and es:
        rnd.choice(es)[2] = rnd.randint(0, 4)
    else:
        return g, "none"
    return g, kind


def witness_replay(run: core.Run, pool: core.Pool, drv: core.Driver, cnt: Counter) -> int:
    """the witnesses of the Lean theorems (lean/ESV/Decomp/WrCounter.lean) on the REAL write handlers: the real text denotes exactly
    the statement list the theorem names, and the proven checker confirms what the theorem says about it (behaves like the graph
    / does not); returns the number of failures"""
    rep = drv.batch([{"op": "decompwr.witnesses"}])[0]
    ws = rep.get("witnesses") or []
    if len(ws) < 6 or rep.get("perf") != PERF_VAR:
        run.broken_tie("decompwr.witnesses: no witnesses / another name of the performance variable", {"channel": "decompwr.witnesses", "reply": str(rep)[:300]})
        return 1
    info = {"type": "GENERIC", "linked_to": 0, "linked_to_name": None}
    args = [{"gs": [w["g"]], "infos": [info], "coros": [None]} for w in ws]
    real = pool.map("harness.impl_writer:write_on_graph_sets", [args], timeout=60)[0]
    model = drv.batch([{"op": "decompwr.write", "rl": [w["g"]], "infos": [info], "coros": [None], "perf": PERF_VAR, "validate": True} for w in ws])
    bad = 0
    for w, a, m in zip(ws, real if isinstance(real, list) else [None] * len(ws), model):
        ok = isinstance(a, dict) and a.get("core") is not None and a["core"]["routines"] == [w["ast"]] and m.get("prog", {}).get("routines") == [w["ast"]]
        v = ((m.get("ast_vs_graph") or {}).get("routines") or [{}])[0].get("verdict")
        ok = ok and ((v == "equiv") == w["equiv"]) and v in ("equiv", "differ")
        cnt["writer_witness:" + ("ok" if ok else "FAILED")] += 1
        if not ok:
            bad += 1
            run.broken_tie(f"witness {w['name']} of a Lean writer theorem does not replay on the real write handlers",
                           {"channel": "decompwr.witnesses", "name": w["name"], "real": a, "model": m.get("prog"), "expected": w["ast"], "verdict": v})
    return bad


def writer_graph_tie(run: core.Run, pool: core.Pool, drv: core.Driver, sets: list[dict], real: list, n: int, jobs: int, cnt: Counter) -> int:
    """model and real write handlers on n hand-built graph sets (real final graphs with 1-3 random changes); returns mismatches"""
    base = [(i, a) for i, a in enumerate(real) if a and isinstance(a.get("rl"), list) and any(g["vs"] for g in a["rl"])]
    rich = [(i, a) for i, a in base if any(v.get("sws") is not None or v.get("fs") is not None or v.get("ifs") is not None for g in a["rl"] for v in g["vs"])]
    base = base + rich * 3      # graphs with ifs / switches / loops four times as often
    if not base:
        return 0
    cases = []
    for k in range(n):
        i, a = base[run.rng.randrange(len(base))]
        gs = copy.deepcopy(a["rl"])
        done = []
        for _ in range(run.rng.choice([1, 1, 2, 3])):
            for _try in range(6):
                r = run.rng.randrange(len(gs))
                gs[r], what = perturb(run.rng, gs[r])
                if what != "none":
                    break
            done.append(what)
        infos = copy.deepcopy(sets[i]["rs"]["infos"])
        coros = list(sets[i]["rs"]["coros"])
        if run.rng.random() < 0.04 and infos:
            j = run.rng.randrange(len(infos))
            infos[j] = dict(infos[j], type=run.rng.choice(["COROUTINE", "INVALID", "GENERIC"]))
        cases.append({"gs": gs, "infos": infos, "coros": coros, "_what": done})
    chunk = 25
    chunks = [cases[i:i + chunk] for i in range(0, len(cases), chunk)]
    outs = pool.map("harness.impl_writer:write_on_graph_sets", chunks, timeout=15)
    res: list[Any] = []
    for ch, o in zip(chunks, outs):
        if isinstance(o, list):
            res += o
        else:
            # one case of the chunk hangs (the write handlers unroll some unstructured cycles exponentially): singly, with a short limit
            for s_ in pool.map("harness.impl_writer:write_on_graph_set", ch, timeout=4):
                res.append(s_ if isinstance(s_, dict) and ("text" in s_ or "error" in s_) else None)
    reqs, idx = [], []
    for k, (c, a) in enumerate(zip(cases, res)):
        if a is None or a.get("secs", 0) > 1.5:
            cnt["writer_graph_tie:impl_slow_or_no_answer"] += 1
            continue
        reqs.append({"op": "decompwr.write", "rl": c["gs"], "infos": c["infos"], "coros": c["coros"], "perf": PERF_VAR})
        idx.append(k)
    mism = 0
    for k, m in zip(idx, drv.batch_parallel(reqs, jobs)):
        c, a = cases[k], res[k]
        r, mo = outcome_real(a), outcome_model(m)
        tag = "agree"
        if mo[0] == "unmodelled":
            tag = "unmodelled"
            cnt["writer_graph_tie:" + mo[1]] += 1
        elif r[0] != mo[0] or (r[0] in ("ok", "error") and r[1] != mo[1]):
            tag = "mismatch"
        cnt["writer_graph_tie:" + tag] += 1
        cnt["writer_graph_tie:real:" + r[0] + (":" + str(r[1]) if r[0] == "error" else "")] += 1
        for w in set(c["_what"]):
            cnt[f"writer_graph_tie:change:{w}:{tag}"] += 1
        if tag == "mismatch":
            mism += 1
            if mism <= 3:
                detail: dict = {"channel": "decompwr.write(graph)", "gs": c["gs"], "infos": c["infos"], "coros": c["coros"], "changes": c["_what"], "real_kind": r[0], "model_kind": mo[0], "text": a.get("text")}
                if r[0] == "ok" and mo[0] == "ok":
                    j = next((j for j, (x, y) in enumerate(zip(r[1]["routines"], mo[1]["routines"])) if x != y), None)
                    detail.update({"routine": j, "real": r[1]["routines"][j] if j is not None else None, "model": mo[1]["routines"][j] if j is not None else None})
                else:
                    detail.update({"real": r[1] if r[0] != "ok" else "(a program)", "model": mo[1] if mo[0] != "ok" else "(a program)"})
                run.broken_tie(f"correspondence decompiler writers on a hand-built graph: model and implementation disagree ({r[0]} vs {mo[0]})", detail)
    return mism
