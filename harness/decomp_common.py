"""Shared pipeline for the decompiler-centred checks (C02, C06, C09, C13): routine sets -> real decompiler ->
text -> (a) real compiler, (b) repo parser -> AST -> Lean source semantics; all validated against the input."""
from __future__ import annotations

import json
import random
from typing import Any

from . import core, escommon
from .gen import surface
from .gen.programs import Cfg

MARKER = "is-ssb-script"


def routine_sets_from_programs(run: core.Run, pool: core.Pool, n: int, cfgs: list[Cfg]) -> list[dict]:
    """compile generated programs with the real compiler; the outputs are routine sets 'as a binary reader delivers them'"""
    progs = escommon.gen_programs(run.rng, n, cfgs)
    res = escommon.compile_all(pool, [p["text"] for p in progs])
    out = []
    for p, r in zip(progs, res):
        if "error" in r:
            continue
        out.append({"rs": reader_shape({"infos": r["infos"], "coros": r["coros"], "ops": [[{"off": o["off"], "name": o["name"], "params": o["params"]} for o in rt] for rt in r["ops"]]}, run.rng),
                    "origin": {"kind": "compiled", "text": p["text"], "ast": p["ast"]}})
    return out


def wellformed(rs: dict) -> bool:
    """infos present for every routine (alias routines have an info too)"""
    return all(i is not None for i in rs["infos"])


def pipeline_all(pool: core.Pool, sets: list[dict], ssbs: bool = False, chunk: int = 8, timeout: float = 60, single_timeout: float = 20) -> list[dict]:
    """real decompiler + recompilation + parse for every routine set; a case that hangs or dies gives
    {"dec": {"error": "NoAnswer", ...}}"""
    args = [{"rs": s["rs"], "ssbs": ssbs, "twice": bool(s.get("twice"))} for s in sets]
    chunks = [args[i:i + chunk] for i in range(0, len(args), chunk)]
    outs = pool.map("harness.impl_es:decomp_pipeline_many", chunks, timeout=timeout)
    res: list[dict] = []
    for ch, o in zip(chunks, outs):
        if isinstance(o, list):
            res += o
        else:
            singles = pool.map("harness.impl_es:decomp_pipeline", ch, timeout=single_timeout)
            for s in singles:
                if isinstance(s, dict) and ("__timeout__" in s or "__died__" in s or "__exc__" in s):
                    res.append({"dec": {"error": "NoAnswer", "msg": json.dumps(s)[:200], "site": "timeout" if "__timeout__" in s else "died", "no_answer": True}})
                else:
                    res.append(s)
    return res


def is_fallback(text: str) -> bool:
    first = text.split("\n", 1)[0]
    return MARKER in first


def tables_equal(x: dict, y: dict) -> str | None:
    if len(x["infos"]) != len(y["infos"]):
        return f"routine count {len(y['infos'])} != {len(x['infos'])}"
    for i, (a, b) in enumerate(zip(x["infos"], y["infos"])):
        if a is None or b is None:
            if a != b:
                return f"routine {i}: info {b} vs {a}"
            continue
        if a["type"] != b["type"]:
            return f"routine {i}: kind {b['type']} vs {a['type']}"
        # a named target decompiles to the name; a numeric one to the number
        ta = a["linked_to_name"] if a.get("linked_to_name") else a["linked_to"]
        tb = b["linked_to_name"] if b.get("linked_to_name") else b["linked_to"]
        if a["type"] in ("ACTOR", "OBJECT", "PERFORMER") and ta != tb:
            return f"routine {i}: target {tb} vs {ta}"
        ca = x["coros"][i] if i < len(x["coros"]) else None
        cb = y["coros"][i] if i < len(y["coros"]) else None
        if a["type"] == "COROUTINE" and ca != cb:
            return f"routine {i}: coroutine name {cb} vs {ca}"
    return None


def mm_request(a_ops: list, b_ops: list, n: int) -> dict:
    strip = lambda ops: [[{"off": o["off"], "name": o["name"], "params": o["params"]} for o in r] for r in ops]  # noqa
    return {"op": "beh.validate_mm", "a": strip(a_ops), "b": strip(b_ops), "n": n}


def shrink_rs(rs: dict, still_fails: Any, budget: int = 80) -> dict:
    """delete ops (retargeting jumps to the next op) / drop trailing routines while the failure persists"""
    import copy
    cur = copy.deepcopy(rs)
    evals = 0
    progress = True
    while progress and evals < budget:
        progress = False
        # drop last routine
        if len(cur["ops"]) > 1:
            t = copy.deepcopy(cur)
            offs = {o["off"] for o in t["ops"][-1]}
            t["ops"].pop(); t["infos"].pop(); t["coros"].pop()
            refs = any(isinstance(p, int) and o["name"] in JUMPY and o["params"] and o["params"][-1] in offs for r in t["ops"] for o in r for p in o["params"][-1:])
            if not refs:
                evals += 1
                if still_fails(t):
                    cur = t
                    progress = True
                    continue
        for ri in range(len(cur["ops"])):
            for oi in range(len(cur["ops"][ri])):
                if evals >= budget:
                    break
                t = copy.deepcopy(cur)
                r = t["ops"][ri]
                if len(r) <= 1:
                    continue
                victim = r[oi]
                nxt = r[oi + 1]["off"] if oi + 1 < len(r) else None
                if nxt is None and any(o["name"] in JUMPY and o["params"] and o["params"][-1] == victim["off"] for rr in t["ops"] for o in rr):
                    continue
                del r[oi]
                for rr in t["ops"]:
                    for o in rr:
                        if o["name"] in JUMPY and o["params"] and o["params"][-1] == victim["off"]:
                            o["params"][-1] = nxt
                evals += 1
                if still_fails(t):
                    cur = t
                    progress = True
                    break
            if progress:
                break
    return cur


JUMPY = {"Jump", "Call", "Case", "CaseMenu", "CaseMenu2", "CaseScenario", "CaseValue", "CaseVariable", "Branch", "BranchBit", "BranchDebug",
         "BranchEdit", "BranchExecuteSub", "BranchPerformance", "BranchScenarioNow", "BranchScenarioNowAfter", "BranchScenarioNowBefore",
         "BranchScenarioAfter", "BranchScenarioBefore", "BranchSum", "BranchValue", "BranchVariable", "BranchVariation"}


DMODE = ("DMODE_CLOSE", "DMODE_OPEN", "DMODE_REQUEST", "DMODE_OPEN_AND_REQUEST")
INT_FLAG_OPS = {"BranchDebug": [0], "BranchEdit": [0], "BranchVariation": [0], "BranchPerformance": [0, 1]}


def c04_safe(s: str) -> str:
    """keep strings inside the guard of C04's round-trip theorem (C04 owns the literal layer and lists its findings)"""
    s = s.replace("\\", "/").replace("\r", " ").replace("\f", " ").replace("\v", " ")
    if "\n" in s:
        lines = s.split("\n")
        if not any(l == "" or not l.startswith(" ") for l in lines):
            lines[0] = "x" + lines[0]
        if lines[-1].strip(" ") == "":
            lines[-1] = lines[-1] + "."
        s = "\n".join(lines)
    return s


def _safe_param(p: Any) -> Any:
    if isinstance(p, dict):
        if "s" in p:
            return {"s": c04_safe(p["s"])}
        if "ls" in p:
            return {"ls": [[k, c04_safe(v)] for k, v in p["ls"]]}
    return p


def reader_shape(rs: dict, rng: random.Random) -> dict:
    """make a compiled routine set look like what a binary SSB reader delivers: dungeon modes are numbers 0..3,
    debug/edit/variation/performance flags are integers"""
    # a binary reader numbers the ops in file order: renumber (the compiler's own numbers are not monotone)
    mapping: dict = {}
    k = 0
    for r in rs["ops"]:
        for o in r:
            mapping[o["off"]] = k
            k += rng.choice([1, 1, 1, 2, 3])
    for r in rs["ops"]:
        for o in r:
            o["off"] = mapping[o["off"]]
            if o["name"] in JUMPY and o["params"] and isinstance(o["params"][-1], int):
                o["params"][-1] = mapping.get(o["params"][-1], o["params"][-1])
    for r in rs["ops"]:
        for o in r:
            o["params"] = [_safe_param(p) for p in o["params"]]
            # (a value that is not one of the four modes - another number, a constant as the compiler emits it - stands for itself;
            #  half of them are kept, the others become mode numbers so that the four modes stay well covered)
            if o["name"] == "flag_SetDungeonMode" and len(o["params"]) == 2 and not (isinstance(o["params"][1], int) and 0 <= o["params"][1] <= 3) and rng.random() < 0.5:
                o["params"][1] = rng.randint(0, 3)
            for i in INT_FLAG_OPS.get(o["name"], []):
                if i < len(o["params"]) and not isinstance(o["params"][i], int):
                    o["params"][i] = rng.randint(0, 1)
        # the cases of a dungeon-mode switch compare against dungeon-mode numbers
        in_dm = False
        for o in r:
            if o["name"] == "SwitchDungeonMode":
                in_dm = True
            elif in_dm and o["name"] == "Case":
                if not (isinstance(o["params"][0], int) and 0 <= o["params"][0] <= 3) and rng.random() < 0.5:
                    o["params"][0] = rng.randint(0, 3)
            elif in_dm and o["name"] not in ("CaseValue", "CaseVariable", "CaseMenu", "CaseMenu2", "CaseScenario"):
                in_dm = False
    return rs


def canon_dmode_ops(ops: list) -> list:
    """a dungeon-mode number may come back as the configured constant that stands for it: compare by number"""
    for r in ops:
        for o in r:
            if o["name"] == "flag_SetDungeonMode" and len(o["params"]) == 2:
                p = o["params"][1]
                if isinstance(p, dict) and p.get("c") in DMODE:
                    o["params"][1] = DMODE.index(p["c"])
            if o["name"] == "Case" and o["params"] and isinstance(o["params"][0], dict) and o["params"][0].get("c") in DMODE:
                o["params"][0] = DMODE.index(o["params"][0]["c"])
    return ops


def canon_dmode_core(node: Any) -> Any:
    if isinstance(node, list):
        if len(node) == 3 and node[0] == "op" and node[1] == "flag_SetDungeonMode" and len(node[2]) == 2:
            p = node[2][1]
            if isinstance(p, dict) and p.get("c") in DMODE:
                node[2][1] = DMODE.index(p["c"])
            return node
        if len(node) == 2 and node[0] == "Case" and isinstance(node[1], list) and node[1] and isinstance(node[1][0], dict) and node[1][0].get("c") in DMODE:
            node[1][0] = DMODE.index(node[1][0]["c"])
            return node
        for x in node:
            canon_dmode_core(x)
    elif isinstance(node, dict):
        for v in node.values():
            canon_dmode_core(v)
    return node
