"""JSON wire format of SSB routine sets (shared by every check that feeds routine sets to the Lean driver)
and converters from/to the real Python objects of explorerscript.ssb_converting.ssb_data_types.

  SET    = {"infos": [INFO...], "coros": [str|null per routine], "ops": [[OP...]...]}
  INFO   = {"type": "GENERIC|ACTOR|OBJECT|PERFORMER|COROUTINE|INVALID", "linked_to": int, "linked_to_name": str|null}
           (null inside a *compile result* = routine id never defined)
  OP     = {"off": int, "name": str, "params": [PARAM...]}
  PARAM  = int | {"fx": "1.5"} | {"c": "CONST"} | {"s": "text"} | {"ls": [["lang","text"],...]}
         | {"pm": [name, x_offset, y_offset, x_relative, y_relative]}

Fields are copied one by one (SsbOpParamPositionMarker.__eq__ ignores `name`, SsbRoutineInfo.__eq__ ignores
`linked_to_name`: JSON comparison is field-wise and exact).
The explorerscript modules are imported lazily so that this file can be imported before sys.path is set up.
"""
from __future__ import annotations

from typing import Any


def _dt() -> Any:
    from explorerscript.ssb_converting import ssb_data_types as dt
    return dt


def param_to_json(p: Any) -> Any:
    dt = _dt()
    if isinstance(p, bool):
        return int(p)
    if isinstance(p, int):
        return p
    if isinstance(p, dt.SsbOpParamFixedPoint):
        return {"fx": p.value}
    if isinstance(p, dt.SsbOpParamConstant):
        return {"c": p.name}
    if isinstance(p, dt.SsbOpParamConstString):
        return {"s": p.name}
    if isinstance(p, dt.SsbOpParamLanguageString):
        return {"ls": [[k, v] for k, v in p.strings.items()]}
    if isinstance(p, dt.SsbOpParamPositionMarker):
        return {"pm": [p.name, p.x_offset, p.y_offset, p.x_relative, p.y_relative]}
    raise TypeError(f"not an SsbOpParam: {type(p).__name__}")


def param_from_json(j: Any) -> Any:
    dt = _dt()
    if isinstance(j, int):
        return j
    if "fx" in j:
        v = dt.SsbOpParamFixedPoint(0, "0")
        v.value = j["fx"]
        return v
    if "c" in j:
        return dt.SsbOpParamConstant(j["c"])
    if "s" in j:
        return dt.SsbOpParamConstString(j["s"])
    if "ls" in j:
        return dt.SsbOpParamLanguageString({k: v for k, v in j["ls"]})
    if "pm" in j:
        n, a, b, c, d = j["pm"]
        return dt.SsbOpParamPositionMarker(n, a, b, c, d)
    raise TypeError(f"bad PARAM json: {j!r}")


def op_to_json(o: Any) -> dict:
    params = o.params
    if isinstance(params, dict):
        params = list(params.values())
    return {"off": o.offset, "name": o.op_code.name, "params": [param_to_json(p) for p in params]}


def op_from_json(j: dict) -> Any:
    dt = _dt()
    return dt.SsbOperation(j["off"], dt.SsbOpCode(-1, j["name"]), [param_from_json(p) for p in j["params"]])


def info_to_json(i: Any) -> Any:
    if i is None:
        return None
    return {"type": i.type.name, "linked_to": i.linked_to, "linked_to_name": i.linked_to_name}


def info_from_json(j: dict) -> Any:
    dt = _dt()
    return dt.SsbRoutineInfo(dt.SsbRoutineType[j["type"]], j["linked_to"], j["linked_to_name"])


def set_from_json(j: dict) -> tuple[list, list, list]:
    """-> (routine_infos, routine_ops, named_coroutines as [SsbCoroutine(id, name)]) — fresh objects"""
    dt = _dt()
    infos = [info_from_json(i) for i in j["infos"]]
    ops = [[op_from_json(o) for o in r] for r in j["ops"]]
    coros = [dt.SsbCoroutine(i, n) for i, n in enumerate(j["coros"]) if n is not None]
    return infos, ops, coros


def set_to_json(infos: list, ops: list, coros: Any) -> dict:
    """`coros`: list per routine of str | None | [] (the SsbScript compiler's placeholder), or a list of
    SsbCoroutine / a dict id->name (then expanded to one entry per routine)."""
    n = max(len(infos), len(ops))
    if isinstance(coros, dict):
        cl = [coros.get(i) for i in range(n)]
    elif coros and all(hasattr(c, "id") and hasattr(c, "name") for c in coros):
        d = {c.id: c.name for c in coros}
        cl = [d.get(i) for i in range(n)]
    else:
        cl = [c if isinstance(c, str) else None for c in coros]
    return {"infos": [info_to_json(i) for i in infos], "coros": cl,
            "ops": [[op_to_json(o) for o in r] for r in ops]}


def flat(j: dict) -> list[dict]:
    return [o for r in j["ops"] for o in r]
