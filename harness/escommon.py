"""Shared pipeline for the checks that compile generated ExplorerScript programs with the real compiler
and validate the result with the Lean semantics / checker (C01, C03, C05, C08, C13, C15, C16 …)."""
from __future__ import annotations

import copy
import json
import random
from typing import Any, Callable

from . import core
from .gen import surface
from .gen.programs import Cfg, ProgGen, count_stmts


def gen_programs(rng: random.Random, n: int, cfgs: list[Cfg], style: str = "canonical") -> list[dict]:
    """-> [{"ast", "text", "pos", "cfg", "stats"}]"""
    out = []
    for i in range(n):
        cfg = cfgs[i % len(cfgs)]
        g = ProgGen(random.Random(rng.getrandbits(48)), cfg)
        ast = g.program()
        pr = surface.Printer()
        pr.program(ast)
        text, pos = surface.layout(pr.toks, random.Random(rng.getrandbits(32)), style)
        out.append({"ast": ast, "text": text, "pos": pos, "stats": g.stats})
    return out


def compile_all(pool: core.Pool, texts: list[str], chunk: int = 25, timeout: float = 120, extra: dict | None = None) -> list[dict]:
    args = [dict({"text": t}, **(extra or {})) for t in texts]
    chunks = [args[i:i + chunk] for i in range(0, len(args), chunk)]
    outs = pool.map("harness.impl_es:compile_many", chunks, timeout=timeout)
    res: list[dict] = []
    for ch, o in zip(chunks, outs):
        if isinstance(o, list):
            res += o
        else:
            # a whole chunk died/timed out: rerun one by one to find the culprit
            singles = pool.map("harness.impl_es:compile_text", ch, timeout=timeout)
            for s in singles:
                if isinstance(s, dict) and ("__timeout__" in s or "__died__" in s or "__exc__" in s):
                    res.append({"error": "NoAnswer", "msg": json.dumps(s)[:200], "site": "", "no_answer": True})
                else:
                    res.append(s)
    return res


def validate_requests(cases: list[tuple[dict, list]]) -> list[dict]:
    """cases: (core program, ops json) -> driver requests"""
    return [{"op": "beh.validate", "prog": p, "ops": [[{"off": o["off"], "name": o["name"], "params": o["params"]} for o in r] for r in ops]} for p, ops in cases]


BAD_VERDICTS = ("differ", "silent-right", "check-rejected")


def routine_verdicts(rep: dict) -> list[dict]:
    if "error" in rep:
        return [{"r": -1, "verdict": "driver-error", "why": rep["error"]}]
    return rep["routines"]


# ----------------------------------------------------------------------------------------------------------------------
# shrinking of surface ASTs
# ----------------------------------------------------------------------------------------------------------------------
def _blocks(p: dict) -> list[list]:
    """all statement lists of the program (mutable references)"""
    out: list[list] = []

    def walk(ss: list) -> None:
        out.append(ss)
        for s in ss:
            t = s["t"]
            if t == "if":
                for b in s["branches"]:
                    walk(b["body"])
                if s.get("else") is not None:
                    walk(s["else"])
            elif t == "switch":
                for c in s["cases"]:
                    walk(c["body"])
            elif t in ("forever", "while", "for"):
                walk(s["body"])
    for r in p["routines"]:
        if r["body"] is not None:
            walk(r["body"])
    for m in p.get("macros", []):
        walk(m["body"])
    return out


def _candidates(p: dict) -> list[Callable[[dict], bool]]:
    """list of in-place edits, each returning False when not applicable"""
    cands: list[Callable[[dict], bool]] = []
    nb = len(_blocks(p))
    for ri in range(len(p["routines"])):
        def drop_r(q: dict, ri: int = ri) -> bool:
            if len(q["routines"]) <= 1 or ri >= len(q["routines"]):
                return False
            # keep ids dense: only drop the last routine or an alias
            if ri != len(q["routines"]) - 1:
                return False
            del q["routines"][ri]
            return True
        cands.append(drop_r)
    for mi in range(len(p.get("macros", []))):
        def drop_m(q: dict, mi: int = mi) -> bool:
            if mi >= len(q.get("macros", [])):
                return False
            del q["macros"][mi]
            return True
        cands.append(drop_m)
    names = set()
    for blk in _blocks(p):
        for s_ in blk:
            if s_["t"] in ("label", "jump", "call"):
                names.add(s_["name"])
    for nm in sorted(names):
        def drop_label(q: dict, nm: str = nm) -> bool:
            hit = False
            for blk in _blocks(q):
                keep = [s_ for s_ in blk if not (s_["t"] in ("label", "jump", "call") and s_["name"] == nm)]
                if len(keep) != len(blk):
                    hit = True
                    blk[:] = keep
            return hit
        cands.append(drop_label)
    for bi in range(nb):
        blk = _blocks(p)[bi]
        for si in range(len(blk)):
            def drop_s(q: dict, bi: int = bi, si: int = si) -> bool:
                b = _blocks(q)
                if bi >= len(b) or si >= len(b[bi]):
                    return False
                del b[bi][si]
                return True
            cands.append(drop_s)

            def unwrap(q: dict, bi: int = bi, si: int = si) -> bool:
                b = _blocks(q)
                if bi >= len(b) or si >= len(b[bi]):
                    return False
                s = b[bi][si]
                t = s["t"]
                if t == "if":
                    inner = s["branches"][0]["body"]
                elif t in ("forever", "while", "for"):
                    inner = s["body"]
                elif t == "switch" and s["cases"]:
                    inner = s["cases"][0]["body"]
                else:
                    return False
                b[bi][si:si + 1] = inner
                return True
            cands.append(unwrap)

            def simplify(q: dict, bi: int = bi, si: int = si) -> bool:
                b = _blocks(q)
                if bi >= len(b) or si >= len(b[bi]):
                    return False
                s = b[bi][si]
                t = s["t"]
                if t == "if":
                    if len(s["branches"]) > 1:
                        s["branches"].pop()
                        return True
                    if s.get("else") is not None:
                        s["else"] = None
                        return True
                    if len(s["branches"][0]["headers"]) > 1:
                        s["branches"][0]["headers"].pop()
                        return True
                    return False
                if t == "switch" and len(s["cases"]) > 1:
                    s["cases"].pop(0 if len(s["cases"][-1]["body"]) else -1)
                    if s["cases"] and not s["cases"][-1]["body"]:
                        return False
                    return True
                if t == "op" and s["args"]:
                    s["args"] = []
                    return True
                if t == "msgswitch" and s["cases"]:
                    s["cases"] = []
                    return True
                return False
            cands.append(simplify)
    return cands


def shrink(ast: dict, still_fails: Callable[[dict], bool], budget: int = 120) -> dict:
    """greedy delta debugging on the surface AST; `still_fails(ast)` must be True for the result"""
    cur = copy.deepcopy(ast)
    evals = 0
    progress = True
    while progress and evals < budget:
        progress = False
        cands = _candidates(cur)
        i = 0
        while i < len(cands) and evals < budget:
            trial = copy.deepcopy(cur)
            try:
                ok = cands[i](trial)
            except Exception:
                ok = False
            if ok:
                evals += 1
                try:
                    if still_fails(trial):
                        cur = trial
                        progress = True
                        cands = _candidates(cur)
                        continue
                except Exception:
                    pass
            i += 1
    return cur


def default_cfgs(tier: str) -> list[Cfg]:
    cfgs = [Cfg(max_depth=2, max_stmts=2, max_routines=1), Cfg(max_depth=2, max_stmts=3, max_routines=2),
            Cfg(max_depth=3, max_stmts=4, max_routines=3), Cfg(max_depth=1, max_stmts=3, max_routines=2, p_halt=0.2),
            Cfg(max_depth=3, max_stmts=3, max_routines=1, switches=True, loops=False), Cfg(max_depth=3, max_stmts=3, max_routines=1, loops=True, switches=False),
            Cfg(max_depth=2, max_stmts=3, max_routines=2, coro=True)]
    if tier == "thorough":
        cfgs += [Cfg(max_depth=4, max_stmts=6, max_routines=4), Cfg(max_depth=5, max_stmts=3, max_routines=2)]
    for c in cfgs:
        c.with_halt = 0.25      # `with (actor X) { end; }`: the compiler's flow analysis must not take the End for an end
    return cfgs


__all__ = ["gen_programs", "compile_all", "validate_requests", "routine_verdicts", "shrink", "default_cfgs", "count_stmts", "BAD_VERDICTS"]


def labels_ok(p: dict) -> bool:
    """every jump/call of the routines targets a label defined exactly once in some routine"""
    defs: list[str] = []
    uses: list[str] = []

    def walk(s: dict) -> None:
        t = s["t"]
        if t == "label":
            defs.append(s["name"])
        elif t in ("jump", "call"):
            uses.append(s["name"])
        elif t == "with":
            walk(s["stmt"])
        elif t == "for":
            walk(s["init"]); walk(s["inc"])
    for blk in _blocks({"routines": p["routines"], "macros": []}):
        for s in blk:
            walk(s)
    return len(defs) == len(set(defs)) and set(uses) <= set(defs)
