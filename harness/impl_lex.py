"""Implementation adapters for the generated ANTLR lexer of ExplorerScript and the position-mark listing (run inside workers)."""
from __future__ import annotations

from typing import Any


def lex_text(text: str) -> list:
    """all tokens `getAllTokens()` yields (SKIP_ tokens are dropped by the lexer itself, UNKNOWN_CHAR is kept):
    [type, text, start offset (code points), line (0-based), column]"""
    from antlr4 import InputStream
    from explorerscript.antlr.ExplorerScriptLexer import ExplorerScriptLexer
    lx = ExplorerScriptLexer(InputStream(text))
    lx.removeErrorListeners()
    return [[t.type, t.text, t.start, t.line - 1, t.column] for t in lx.getAllTokens()]


def lex_many(texts: list[str]) -> list[Any]:
    out: list[Any] = []
    for t in texts:
        try:
            out.append(lex_text(t))
        except BaseException as e:  # noqa
            out.append({"error": type(e).__name__, "msg": str(e)[:200]})
    return out
