"""Static inventory of writes to PROCESS-WIDE state in the implementation's source (C12 tie).

An AST walk over <repo>/explorerscript (everything a compile()/convert() call can reach: the whole package except the
pygments lexer and code under `if __name__ == "__main__":`) lists, without line numbers (so that edits that do not add or
remove such a write leave the list unchanged):

  call|<file>|<scope>|<dotted name>        a call that changes interpreter/process state: sys.set*, os.chdir/putenv/environ,
                                           locale.setlocale, warnings filters, logging configuration, threading.stack_size /
                                           settrace, signal.signal, random.seed, gc switches, sys.path / sys.modules writes
  global|<file>|<scope>|<name>             a `global` statement (a function rebinding a module-level name)
  module-object|<file>|<name>|<how>        a module-level object that code of the package mutates: how = comma list of
                                           subscript / method:<m> / augassign / with / call
  class-object|<file>|<Class>.<attr>|<how> the same for a class-level mutable (list/dict/set/instance) that __init__ does not shadow
                                           how = "unshadowed" plus the mutations seen through self.<attr>/<Class>.<attr>
  class-write|<file>|<scope>|<Class>.<attr> an assignment to an attribute of a class object (cls.x = / ClassName.x =)
  default-arg|<file>|<function>|<param>:<kind>  a parameter default that is a mutable object created once, at definition time
                                           (list/dict/set literal or comprehension, or any call other than an immutable constructor)
  (every mutation `how` carries where it happens: @def = module / class body, run once at import; @fn = inside a function, also through
   a local alias `h = cls.table; h[k] = v` — a module/class-level container written @fn is lazy initialisation or a cache)
  set-iteration|<file>|<scope>|<what>      code whose result order can depend on element hashes (PYTHONHASHSEED for strings, addresses for
                                           objects): for / comprehension over set(...) / frozenset(...) / a set literal or comprehension / a local
                                           name bound to one; list()/tuple()/join()/enumerate()/iter()/next()/zip() of such a value; set.pop();
                                           sorted/min/max with key=id or key=hash.  what = the construct and the variable or callee
  identity-key|<file>|<scope>|id|hash      a call of id() / hash(): object identity or hash used as a value (dict key, ordering)
  ambient-read|<file>|<scope>|<dotted name> a read of something that is neither an argument nor the file system below a given path: os.getcwd,
                                           os.path.abspath/realpath/expanduser/expandvars, Path.cwd/home/resolve/absolute, os.environ/getenv, time.*,
                                           datetime.now/today/utcnow, random.*, uuid.*, os.getpid, os.listdir/scandir/walk, glob.*, locale/platform/socket queries
  memo|<file>|<function>|<decorator>        a function whose results are memoised process-wide: functools.lru_cache / cache / cached_property /
                                           any decorator whose name contains cache or memo (objects returned from it are shared by all callers)
  antlr|<file>|<Class>.<attr>              class-level objects of the generated lexers/parsers (ATN, DFA list, context cache): shared by
                                           all parser instances and mutated by the antlr4 runtime

The list is written to lean/ESV/Gen/Shared.lean by harness/props/c12.py on every run; ESV.C12.shared_inventory_pinned decides
that it equals the list the thread model is built over (lean/ESV/Cache/Shared.lean)."""
from __future__ import annotations

import ast
import os

WATCH_PREFIX = ("sys.set", "os.chdir", "os.putenv", "os.unsetenv", "os.umask", "os.environ", "locale.setlocale", "warnings.filterwarnings",
                "warnings.simplefilter", "warnings.resetwarnings", "logging.basicConfig", "logging.disable", "logging.setLoggerClass",
                "logging.captureWarnings", "logging.config", "threading.stack_size", "threading.settrace", "threading.setprofile",
                "signal.signal", "signal.alarm", "random.seed", "gc.disable", "gc.enable", "gc.set_threshold", "gc.freeze", "faulthandler.",
                "sys.path.", "sys.modules", "resource.setrlimit", "decimal.setcontext", "decimal.getcontext", "socket.setdefaulttimeout",
                "tempfile.tempdir", "builtins.")
AMBIENT_PREFIX = ("os.getcwd", "os.getcwdb", "os.path.abspath", "os.path.realpath", "os.path.expanduser", "os.path.expandvars", "os.environ", "os.getenv",
                  "time.", "datetime.now", "datetime.today", "datetime.utcnow", "datetime.datetime.now", "datetime.datetime.today", "datetime.datetime.utcnow",
                  "date.today", "random.", "uuid.", "os.getpid", "os.getppid", "os.listdir", "os.scandir", "os.walk", "glob.", "locale.getlocale",
                  "locale.getdefaultlocale", "locale.getpreferredencoding", "platform.", "socket.gethostname", "getpass.", "tempfile.", "sys.argv", "sys.stdin",
                  "Path.cwd", "Path.home", "secrets.")
AMBIENT_METHODS = {"resolve", "absolute", "expanduser", "cwd", "home"}
IMMUTABLE_CALLS = {"frozenset", "tuple", "str", "int", "float", "bool", "bytes", "Path", "PurePath", "PurePosixPath", "object", "compile", "field",
                   "TypeVar", "range", "SsbOpCode", "SsbRoutineType"}
MUTATORS = {"append", "extend", "insert", "update", "clear", "pop", "popitem", "add", "remove", "discard", "setdefault", "sort", "reverse",
            "acquire", "release", "allocate"}


def dotted(n: ast.AST) -> str | None:
    if isinstance(n, ast.Name):
        return n.id
    if isinstance(n, ast.Attribute):
        b = dotted(n.value)
        return None if b is None else b + "." + n.attr
    return None


def is_mutable_value(v: ast.AST | None) -> str | None:
    if v is None:
        return None
    if isinstance(v, (ast.List, ast.ListComp)):
        return "list"
    if isinstance(v, (ast.Dict, ast.DictComp)):
        return "dict"
    if isinstance(v, (ast.Set, ast.SetComp)):
        return "set"
    if isinstance(v, ast.Call):
        f = dotted(v.func) or "?"
        if f.split(".")[-1] in ("TypeVar", "NewType", "namedtuple", "getLogger", "compile", "frozenset", "tuple", "Union", "Optional"):
            return None
        return "instance:" + f.split(".")[-1]
    return None


class _Scan(ast.NodeVisitor):
    def __init__(self, rel: str, module_names: dict[str, str], out: set[str], muts: dict[tuple[str, str], set[str]]):
        self.rel, self.module_names, self.out, self.muts = rel, module_names, out, muts
        self.scope: list[str] = []
        self.cls: list[str] = []
        self.fn_depth = 0
        self.alias: dict[str, str] = {}
        self.class_obj_names: set[str] = set()
        self.setnames: set[str] = set()

    def where(self) -> str:
        return ".".join(self.scope) or "<module>"

    def visit_If(self, node: ast.If) -> None:
        t = node.test
        if isinstance(t, ast.Compare) and isinstance(t.left, ast.Name) and t.left.id == "__name__":
            for n in node.orelse:
                self.visit(n)
            return                                    # script entry point: not reachable from compile()/convert()
        self.generic_visit(node)

    def visit_ClassDef(self, node: ast.ClassDef) -> None:
        self.scope.append(node.name); self.cls.append(node.name)
        self.generic_visit(node)
        self.scope.pop(); self.cls.pop()

    # ---- order that depends on hashes -------------------------------------------------------------------------------
    def _setlike(self, e: ast.AST | None) -> str | None:
        if e is None:
            return None
        if isinstance(e, (ast.Set, ast.SetComp)):
            return "set-literal"
        if isinstance(e, ast.Call):
            f = dotted(e.func)
            if f in ("set", "frozenset"):
                return f + "()"
            if isinstance(e.func, ast.Attribute) and e.func.attr in ("union", "intersection", "difference", "symmetric_difference", "copy") \
                    and self._setlike(e.func.value):
                return "set-op"
        if isinstance(e, ast.Name) and e.id in self.setnames:
            return "name:" + e.id
        if isinstance(e, ast.BinOp) and isinstance(e.op, (ast.BitOr, ast.BitAnd, ast.Sub, ast.BitXor)) and (self._setlike(e.left) or self._setlike(e.right)):
            return "set-op"
        return None

    def _flag_iter(self, it: ast.AST, how: str) -> None:
        k = self._setlike(it)
        if k is not None:
            self.out.add(f"set-iteration|{self.rel}|{self.where()}|{how}:{k}")

    def visit_For(self, node: ast.For) -> None:
        self._flag_iter(node.iter, "for")
        self.generic_visit(node)

    def _comp(self, node: ast.AST) -> None:
        for g in node.generators:  # type: ignore[attr-defined]
            self._flag_iter(g.iter, "comprehension")
        self.generic_visit(node)

    visit_ListComp = visit_GeneratorExp = visit_DictComp = _comp

    def visit_SetComp(self, node: ast.SetComp) -> None:
        self._comp(node)

    def visit_AnnAssign(self, node: ast.AnnAssign) -> None:
        if isinstance(node.target, ast.Name) and self.fn_depth > 0:
            ann = ast.unparse(node.annotation)
            if ann.startswith(("set[", "Set[", "set", "frozenset")) or self._setlike(node.value):
                self.setnames.add(node.target.id)
        self.generic_visit(node)

    def visit_FunctionDef(self, node: ast.FunctionDef) -> None:
        for dec in node.decorator_list:
            d = dotted(dec.func if isinstance(dec, ast.Call) else dec) or ""
            last = d.split(".")[-1].lower()
            if "cache" in last or "memo" in last:
                self.out.add(f"memo|{self.rel}|{'.'.join(self.scope + [node.name])}|{d}")
        a = node.args
        pos = a.posonlyargs + a.args
        for arg, d in list(zip(pos[len(pos) - len(a.defaults):], a.defaults)) + [(x, y) for x, y in zip(a.kwonlyargs, a.kw_defaults) if y is not None]:
            k = is_mutable_value(d)
            if k is not None and not (isinstance(d, ast.Call) and (dotted(d.func) or "?").split(".")[-1] in IMMUTABLE_CALLS):
                self.out.add(f"default-arg|{self.rel}|{'.'.join(self.scope + [node.name])}|{arg.arg}:{k}")
        self.scope.append(node.name)
        self.fn_depth += 1
        saved = dict(self.alias)
        saved_sets = set(self.setnames)
        for arg in a.posonlyargs + a.args + a.kwonlyargs:
            if arg.annotation is not None and ast.unparse(arg.annotation).startswith(("set[", "Set[", "frozenset")):
                self.setnames.add(arg.arg)
        self.generic_visit(node)
        self.alias = saved
        self.setnames = saved_sets
        self.fn_depth -= 1
        self.scope.pop()

    visit_AsyncFunctionDef = visit_FunctionDef

    def visit_Global(self, node: ast.Global) -> None:
        for n in node.names:
            self.out.add(f"global|{self.rel}|{self.where()}|{n}")

    def _canon(self, name: str) -> str | None:
        """module-level name, or Class.attr for self.attr / cls.attr / Class.attr / a bare class-body name; through local aliases"""
        parts = name.split(".")
        head = parts[0]
        if head in self.alias and self.fn_depth > 0:
            return self.alias[head]
        if head in self.module_names:
            return head
        if head in ("self", "cls") and len(parts) > 1 and self.cls:
            return self.cls[-1] + "." + parts[1]
        if head in self.class_names and len(parts) > 1:
            return head + "." + parts[1]
        if self.cls and self.fn_depth == 0 and (self.cls[-1] + "." + head) in self.class_obj_names:
            return self.cls[-1] + "." + head
        return None

    def _mut(self, name: str | None, how: str) -> None:
        if name is None:
            return
        c = self._canon(name)
        if c is not None:
            self.muts.setdefault((self.rel, c), set()).add(how + ("@fn" if self.fn_depth > 0 else "@def"))

    def visit_Call(self, node: ast.Call) -> None:
        f = dotted(node.func)
        if f in ("list", "tuple", "enumerate", "iter", "next", "zip", "map", "filter", "reversed") and node.args:
            for a0 in node.args:
                k = self._setlike(a0)
                if k is not None:
                    self.out.add(f"set-iteration|{self.rel}|{self.where()}|{f}:{k}")
        if isinstance(node.func, ast.Attribute) and node.func.attr == "join" and node.args and self._setlike(node.args[0]):
            self.out.add(f"set-iteration|{self.rel}|{self.where()}|join:{self._setlike(node.args[0])}")
        if isinstance(node.func, ast.Attribute) and node.func.attr == "pop" and not node.args and self._setlike(node.func.value):
            self.out.add(f"set-iteration|{self.rel}|{self.where()}|pop:{self._setlike(node.func.value)}")
        if f in ("sorted", "min", "max") or (isinstance(node.func, ast.Attribute) and node.func.attr == "sort"):
            for kw in node.keywords:
                if kw.arg == "key" and isinstance(kw.value, ast.Name) and kw.value.id in ("id", "hash"):
                    self.out.add(f"set-iteration|{self.rel}|{self.where()}|{f or 'sort'}:key={kw.value.id}")
        if f is not None and f.startswith(AMBIENT_PREFIX) and not f.startswith(WATCH_PREFIX):
            self.out.add(f"ambient-read|{self.rel}|{self.where()}|{f}")
        elif isinstance(node.func, ast.Attribute) and node.func.attr in AMBIENT_METHODS and not node.args and f is not None and not f.startswith(("self.", "cls.")) \
                and any(x in f for x in ("Path", "path", "file", "dir")):
            self.out.add(f"ambient-read|{self.rel}|{self.where()}|.{node.func.attr}()")
        if f is not None and f.split(".")[-1] in ("lru_cache", "cache") and f.split(".")[0] in ("functools", "lru_cache", "cache"):
            self.out.add(f"memo|{self.rel}|{self.where()}|{f}()")
        if f in ("id", "hash") and self.fn_depth > 0:
            self.out.add(f"identity-key|{self.rel}|{self.where()}|{f}")
        if f is not None:
            if f.startswith(WATCH_PREFIX):
                self.out.add(f"call|{self.rel}|{self.where()}|{f}")
            if isinstance(node.func, ast.Attribute) and node.func.attr in MUTATORS:
                self._mut(dotted(node.func.value), "method:" + node.func.attr)
            if isinstance(node.func, ast.Name) and self.module_names.get(f, "").startswith("instance:") and self.fn_depth > 0:
                self._mut(f, "call")
        self.generic_visit(node)

    def visit_Subscript(self, node: ast.Subscript) -> None:
        d = dotted(node.value)
        if d in ("os.environ", "sys.argv") and isinstance(node.ctx, ast.Load):
            self.out.add(f"ambient-read|{self.rel}|{self.where()}|{d}[...]")
        self.generic_visit(node)

    def visit_With(self, node: ast.With) -> None:
        for it in node.items:
            self._mut(dotted(it.context_expr), "with")
        self.generic_visit(node)

    def _target(self, t: ast.AST, how: str) -> None:
        if isinstance(t, ast.Subscript):
            d = dotted(t.value)
            if d is not None and d.startswith(("os.environ", "sys.modules")):
                self.out.add(f"call|{self.rel}|{self.where()}|{d}[...]=")
            # nested subscripts: cache[id(g)][k] = v
            base = t.value
            while isinstance(base, ast.Subscript):
                base = base.value
            self._mut(dotted(base), "subscript")
        elif isinstance(t, ast.Attribute):
            d = dotted(t)
            if d is not None and d.startswith(WATCH_PREFIX):
                self.out.add(f"call|{self.rel}|{self.where()}|{d}=")
            b = dotted(t.value)
            if b is not None and self.scope and (b == "cls" or (b[:1].isupper() and b in self.class_names)):
                self.out.add(f"class-write|{self.rel}|{self.where()}|{(self.cls[-1] if b == 'cls' and self.cls else b)}.{t.attr}")
        elif isinstance(t, (ast.Tuple, ast.List)):
            for x in t.elts:
                self._target(x, how)

    class_names: set[str] = set()

    def visit_Assign(self, node: ast.Assign) -> None:
        for t in node.targets:
            self._target(t, "assign")
        if self.fn_depth > 0 and len(node.targets) == 1 and isinstance(node.targets[0], ast.Name):
            if self._setlike(node.value):
                self.setnames.add(node.targets[0].id)
            else:
                self.setnames.discard(node.targets[0].id)
            d = dotted(node.value)
            c = self._canon(d) if d is not None else None
            if c is not None and (c in self.module_names or c in self.class_obj_names):
                self.alias[node.targets[0].id] = c           # h = cls.table  /  t = module_table
            else:
                self.alias.pop(node.targets[0].id, None)
        self.generic_visit(node)

    def visit_AugAssign(self, node: ast.AugAssign) -> None:
        self._target(node.target, "augassign")
        if isinstance(node.target, ast.Name) and node.target.id in self.module_names and self.fn_depth > 0:
            self._mut(node.target.id, "augassign")
        self.generic_visit(node)

    def visit_Delete(self, node: ast.Delete) -> None:
        for t in node.targets:
            self._target(t, "del")
        self.generic_visit(node)


def inventory(repo: str) -> list[str]:
    base = os.path.join(repo, "explorerscript")
    out: set[str] = set()
    files = []
    for dp, dn, fns in os.walk(base):
        dn.sort()
        for fn in sorted(fns):
            if fn.endswith(".py"):
                files.append(os.path.join(dp, fn))
    files.sort()
    all_classes: set[str] = set()
    trees = {}
    for path in files:
        rel = os.path.relpath(path, base)
        if rel.startswith("pygments"):
            continue
        try:
            trees[rel] = ast.parse(open(path, encoding="utf-8").read())
        except SyntaxError:
            out.add(f"unparsable|{rel}")
            continue
        for n in ast.walk(trees[rel]):
            if isinstance(n, ast.ClassDef):
                all_classes.add(n.name)
    _Scan.class_names = all_classes
    for rel, tree in trees.items():
        if rel.startswith("antlr" + os.sep):
            for n in tree.body:
                if isinstance(n, ast.ClassDef):
                    for st in n.body:
                        if isinstance(st, ast.Assign) and len(st.targets) == 1 and isinstance(st.targets[0], ast.Name) and is_mutable_value(st.value) \
                                and st.targets[0].id in ("atn", "decisionsToDFA", "sharedContextCache"):
                            out.add(f"antlr|{rel}|{n.name}.{st.targets[0].id}")
            continue
        module_names: dict[str, str] = {}
        class_objs: dict[str, str] = {}
        shadowed: set[str] = set()
        for n in tree.body:
            tg, val = None, None
            if isinstance(n, ast.Assign) and len(n.targets) == 1 and isinstance(n.targets[0], ast.Name):
                tg, val = n.targets[0].id, n.value
            elif isinstance(n, ast.AnnAssign) and isinstance(n.target, ast.Name):
                tg, val = n.target.id, n.value
            k = is_mutable_value(val)
            if tg and k:
                module_names[tg] = k
            if isinstance(n, ast.ClassDef):
                for st in n.body:
                    tg2, val2 = None, None
                    if isinstance(st, ast.Assign) and len(st.targets) == 1 and isinstance(st.targets[0], ast.Name):
                        tg2, val2 = st.targets[0].id, st.value
                    elif isinstance(st, ast.AnnAssign) and isinstance(st.target, ast.Name):
                        tg2, val2 = st.target.id, st.value
                    k2 = is_mutable_value(val2)
                    if tg2 and k2 and k2 in ("list", "dict", "set"):
                        class_objs[n.name + "." + tg2] = k2
                    if isinstance(st, ast.FunctionDef) and st.name == "__init__":
                        for x in ast.walk(st):
                            tgs = x.targets if isinstance(x, ast.Assign) else ([x.target] if isinstance(x, ast.AnnAssign) else [])
                            for t in tgs:
                                if isinstance(t, ast.Attribute) and isinstance(t.value, ast.Name) and t.value.id == "self":
                                    shadowed.add(n.name + "." + t.attr)
        muts: dict[tuple[str, str], set[str]] = {}
        sc = _Scan(rel, module_names, out, muts)
        sc.class_obj_names = set(class_objs)
        sc.visit(tree)
        for (r, name), hows in muts.items():
            if name in module_names:
                out.add(f"module-object|{r}|{name}:{module_names[name]}|{','.join(sorted(hows))}")
        for name, k in class_objs.items():
            if name not in shadowed:
                hows = set(muts.get((rel, name), set()))
                # a mutation through ANY receiver anywhere in the package (`self.decompiler.<attr>.append(...)` in another file)
                if name.split(".", 1)[1] in attr_mutated_anywhere(trees):
                    hows.add("mutated-through-attribute@fn")
                out.add(f"class-object|{rel}|{name}:{k}|{','.join(['unshadowed'] + sorted(hows))}")
    return canon_items(sorted(out))


_ATTR_MUT_CACHE: dict[int, set[str]] = {}


def attr_mutated_anywhere(trees: dict) -> set[str]:
    """attribute names `a` for which some function of the package contains `<expr>.a.<mutator>(…)`, `<expr>.a[…] = …`,
    `<expr>.a += …` or `del <expr>.a[…]` - whatever the receiver expression is"""
    key = id(trees)
    if key in _ATTR_MUT_CACHE:
        return _ATTR_MUT_CACHE[key]
    found: set[str] = set()
    for tree in trees.values():
        for fn in ast.walk(tree):
            if not isinstance(fn, (ast.FunctionDef, ast.AsyncFunctionDef)):
                continue
            for n in ast.walk(fn):
                if isinstance(n, ast.Call) and isinstance(n.func, ast.Attribute) and n.func.attr in MUTATORS and isinstance(n.func.value, ast.Attribute):
                    found.add(n.func.value.attr)
                tgts = []
                if isinstance(n, ast.Assign):
                    tgts = n.targets
                elif isinstance(n, (ast.AugAssign, ast.AnnAssign)):
                    tgts = [n.target]
                elif isinstance(n, ast.Delete):
                    tgts = n.targets
                for t in tgts:
                    if isinstance(t, ast.Subscript) and isinstance(t.value, ast.Attribute):
                        found.add(t.value.attr)
                    if isinstance(n, ast.AugAssign) and isinstance(t, ast.Attribute):
                        found.add(t.attr)
    _ATTR_MUT_CACHE[key] = found
    return found


SCOPE_FREE = ("ambient-read", "call", "identity-key", "set-iteration")


def canon_items(items: list[str]) -> list[str]:
    """the form in which the inventory is compared with the pinned list.  Two things a behaviour-preserving refactoring changes are
    taken out (both were hit by the harmless changes benign/A5 and benign/B6, which moved an `os.path.realpath` call into an extracted
    helper and added a class-level lookup table):
      * for reads / calls / identity keys / set iterations the enclosing FUNCTION is incidental: the entry names the file and the
        construct, with the number of occurrences in that file (`…#2`) - a new occurrence still changes the list;
      * a module- or class-level container that no function of the package mutates (no `@fn` mutation: a constant table, or one
        filled at import) carries no state between calls and is not listed; one that gains a mutation inside a function appears."""
    counts: dict[str, int] = {}
    out: list[str] = []
    for x in items:
        f = x.split("|")
        if f[0] in SCOPE_FREE and len(f) == 4:
            # (whether it happens once at import - module / class body - or on every call is kept: `sys.setrecursionlimit` moved
            #  from module level into convert() is another program)
            when = "@def" if f[2].startswith("<") else "@fn"
            k = f"{f[0]}|{f[1]}|{f[3]}{when}"
            counts[k] = counts.get(k, 0) + 1
            continue
        if f[0] in ("class-object", "module-object") and "@fn" not in f[-1]:
            continue
        out.append(x)
    out += [f"{k}#{n}" for k, n in counts.items()]
    return sorted(out)


def lean_source(items: list[str]) -> str:
    def q(s: str) -> str:
        return '"' + s.replace("\\", "\\\\").replace('"', '\\"') + '"'
    body = ",\n  ".join(q(x) for x in items)
    return ("/- GENERATED by harness/shared_inventory.py from the current /repo on every run of ./check C12 — do not edit.\n"
            "   Writes to process-wide state found in the implementation's source (see harness/shared_inventory.py). -/\n"
            "namespace ESV.Gen\n\ndef sharedWrites : List String := [\n  " + body + "]\n\nend ESV.Gen\n")


def write_lean(items: list[str]) -> bool:
    """(re)write lean/ESV/Gen/Shared.lean; True if it changed"""
    from . import core
    path = os.path.join(core.LEAN, "ESV", "Gen", "Shared.lean")
    src = lean_source(items)
    old = open(path).read() if os.path.exists(path) else None
    if old != src:
        with core._Lock():
            with open(path, "w") as fh:
                fh.write(src)
        return True
    return False


def diff_with_pinned(drv, items: list[str]) -> tuple[list[str], list[str], list[str]]:
    """-> (pinned keys of lean/ESV/Cache/Shared.lean, entries of the current source not in it, pinned entries no longer in the source)"""
    rep = drv.batch([{"op": "cache.shared"}])[0]
    pinned = [x[0] for x in rep.get("shared", [])]
    return pinned, [x for x in items if x not in pinned], [x for x in pinned if x not in items]


if __name__ == "__main__":
    import sys
    for x in inventory(sys.argv[1] if len(sys.argv) > 1 else "/repo"):
        print(x)
