"""Implementation adapters for the two command line tools (property C15); run inside workers.

in-process   build / read : the real build_routines_json / check_settings + read_routines (+ the id -> name table of the decompiler)
subprocess   cli_roundtrip / cli_compile / cli_decompile : `python -m explorerscript.cli.compile|decompile` in a temporary
             directory under /tmp (removed afterwards), PYTHONPATH = $VERIF_REPO

Wire form of a JSON value (order preserving, see lean/Driver/Cli.lean):
  null | int | str | [..] | {"o": [[key, value], ..]} | {"f": 0} (float);  bool is not representable (outside the model).
"""
from __future__ import annotations

import json
import os
import shutil
import subprocess
import sys
import tempfile
from typing import Any

from . import rsjson

REPO = os.environ.get("VERIF_REPO", "/repo")
PY = os.environ.get("VERIF_PY", "/venv/bin/python")
SETTINGS = {"settings": {"performance_progress_list_var_name": "$PERFORMANCE_PROGRESS_LIST",
                         "dungeon_mode_constants": {"open": "DMODE_OPEN", "closed": "DMODE_CLOSE", "request": "DMODE_REQUEST",
                                                    "open_request": "DMODE_OPEN_AND_REQUEST"}}}


class Unrepresentable(Exception):
    pass


def to_wire(v: Any) -> Any:
    if v is None or isinstance(v, str):
        return v
    if isinstance(v, bool):
        raise Unrepresentable("bool")
    if isinstance(v, int):
        return v
    if isinstance(v, float):
        return {"f": 0}
    if isinstance(v, (list, tuple)):
        return [to_wire(x) for x in v]
    if isinstance(v, dict):
        return {"o": [[k, to_wire(x)] for k, x in v.items()]}
    raise Unrepresentable(type(v).__name__)


def from_wire(w: Any) -> Any:
    if w is None or isinstance(w, (str, int)):
        return w
    if isinstance(w, list):
        return [from_wire(x) for x in w]
    if "o" in w:
        return {k: from_wire(x) for k, x in w["o"]}
    return 0.5


def _err(e: BaseException) -> dict:
    return {"err": type(e).__name__, "msg": str(e)[:200]}


def build(arg: dict) -> dict:
    """arg: {"rs": routine set json, "settings": settings block} -> {"json": wire} | {"err"}; the real build_routines_json"""
    from explorerscript.cli import compile as C
    infos, ops, _ = rsjson.rs_from_json(arg["rs"])
    names = [n if n is not None else [] for n in arg["rs"]["coros"]]
    try:
        out = {"settings": arg["settings"], "routines": C.build_routines_json(infos, names, ops)}
        # what the command prints is json.dumps of this value; go through the text as the command does
        return {"json": to_wire(json.loads(json.dumps(out)))}
    except BaseException as e:  # noqa
        return _err(e)


def read(arg: dict) -> dict:
    """arg: {"doc": JSON document (python value)} -> {"set": routine set json, "named": [[id, name]]} | {"err"}"""
    from explorerscript.cli import decompile as D
    from explorerscript.cli import check_settings
    doc = arg["doc"]
    if hasattr(D, "counter"):       # before fix 5dd8dac the ops were numbered by a module-level counter: start like a fresh process
        D.counter.count = 0
    try:
        check_settings(doc)
        infos, named, ops = D.read_routines(doc["routines"])
    except BaseException as e:  # noqa
        return _err(e)
    table = {x.id: x.name for x in named}         # ExplorerScriptSsbDecompiler.__init__
    coros = [table[i] if i in table else None for i in range(len(infos))]
    return {"set": {"infos": [rsjson.info_to_json(i) for i in infos], "coros": coros, "ops": rsjson.ops_to_json(ops)},
            "named": [[x.id, x.name] for x in named]}


def build_many(args: list[dict]) -> list[dict]:
    return [build(a) for a in args]


def read_many(args: list[dict]) -> list[dict]:
    return [read(a) for a in args]


# ---- real subprocesses ---------------------------------------------------------------------------------------------
def _env() -> dict:
    env = dict(os.environ)
    env["PYTHONPATH"] = REPO
    env["PYTHONDONTWRITEBYTECODE"] = "1"
    env["PYTHONWARNINGS"] = "ignore"
    env["PYTHONHASHSEED"] = "0"
    return env


def _run(cmd: list[str], cwd: str, timeout: float) -> dict:
    try:
        p = subprocess.run(cmd, cwd=cwd, env=_env(), capture_output=True, text=True, timeout=timeout)
    except subprocess.TimeoutExpired:
        return {"rc": None, "stdout": "", "stderr": "timeout", "timeout": True}
    return {"rc": p.returncode, "stdout": p.stdout, "stderr": p.stderr[-1500:]}


def _last(stderr: str) -> str:
    lines = [l for l in stderr.strip().splitlines() if l.strip()]
    return lines[-1][:300] if lines else ""


def cli_compile_in(d: str, arg: dict) -> dict:
    """arg: {"text", "files": {relpath: text}, "lookup": [relpath], "source_map": bool, "settings": dict|None, "settings_text": str|None}"""
    with open(os.path.join(d, "main.exps"), "w", encoding="utf-8") as fh:
        fh.write(arg["text"])
    for rel, txt in (arg.get("files") or {}).items():
        p = os.path.join(d, rel)
        os.makedirs(os.path.dirname(p), exist_ok=True)
        with open(p, "w", encoding="utf-8") as fh:
            fh.write(txt)
    with open(os.path.join(d, "settings.json"), "w", encoding="utf-8") as fh:
        fh.write(arg["settings_text"] if arg.get("settings_text") is not None else json.dumps(arg.get("settings") or SETTINGS))
    cmd = [PY, "-m", "explorerscript.cli.compile", "main.exps", "--settings", "settings.json"]
    if arg.get("lookup"):
        cmd += ["--lookup", *arg["lookup"]]
    if arg.get("source_map"):
        cmd += ["--source-map", "main.exps.sm"]
    r = _run(cmd, d, arg.get("timeout", 60))
    r["stderr_last"] = _last(r.pop("stderr"))
    smp = os.path.join(d, "main.exps.sm")
    if arg.get("source_map") and os.path.exists(smp):
        r["source_map"] = open(smp, encoding="utf-8").read()
    return r


def cli_decompile_in(d: str, arg: dict) -> dict:
    """arg: {"doc_text": str, "source_map": bool}"""
    with open(os.path.join(d, "model.json"), "w", encoding="utf-8") as fh:
        fh.write(arg["doc_text"])
    cmd = [PY, "-m", "explorerscript.cli.decompile", "model.json"]
    if arg.get("source_map"):
        cmd += ["--source-map", "out.exps.sm"]
    r = _run(cmd, d, arg.get("timeout", 120))
    r["stderr_last"] = _last(r.pop("stderr"))
    smp = os.path.join(d, "out.exps.sm")
    if arg.get("source_map") and os.path.exists(smp):
        r["source_map"] = open(smp, encoding="utf-8").read()
    return r


def _tmp() -> str:
    return tempfile.mkdtemp(prefix="c15_", dir="/tmp")


def cli_compile(arg: dict) -> dict:
    d = _tmp()
    try:
        return cli_compile_in(d, arg)
    finally:
        shutil.rmtree(d, ignore_errors=True)


def cli_decompile(arg: dict) -> dict:
    d = _tmp()
    try:
        return cli_decompile_in(d, arg)
    finally:
        shutil.rmtree(d, ignore_errors=True)


def cli_roundtrip(arg: dict) -> dict:
    """compile command, then (when it exited 0 and printed something) the decompile command on exactly what was printed"""
    d = _tmp()
    try:
        c = cli_compile_in(d, arg)
        out: dict = {"compile": c}
        if c.get("rc") == 0 and c["stdout"].strip():
            out["decompile"] = cli_decompile_in(d, {"doc_text": c["stdout"], "source_map": arg.get("source_map")})
        return out
    finally:
        shutil.rmtree(d, ignore_errors=True)


def cli_roundtrip_many(args: list[dict]) -> list[dict]:
    return [cli_roundtrip(a) for a in args]


def cli_decompile_many(args: list[dict]) -> list[dict]:
    return [cli_decompile(a) for a in args]


def cli_compile_many(args: list[dict]) -> list[dict]:
    return [cli_compile(a) for a in args]


def decompile_inproc(arg: dict) -> dict:
    """in-process decompile with the settings the CLI runs use; arg: {"rs": routine set json}"""
    from explorerscript.ssb_converting.ssb_data_types import DungeonModeConstants
    from explorerscript.ssb_converting.ssb_decompiler import ExplorerScriptSsbDecompiler
    infos, ops, coros = rsjson.rs_from_json(arg["rs"])
    s = SETTINGS["settings"]
    dm = s["dungeon_mode_constants"]
    # the command always runs in a fresh process; the decompiler's module-level memo table is keyed by id(graph) and can
    # hold entries of earlier (garbage-collected) graphs in a long-lived worker (C11's business) — start from the fresh state
    try:
        from explorerscript.ssb_converting.decompiler.graph_building import graph_utils
        graph_utils.find_first_common_next_vertex_in_edges_cache.clear()
    except Exception:  # noqa
        pass
    try:
        text, _sm = ExplorerScriptSsbDecompiler(infos, ops, coros, s["performance_progress_list_var_name"],
                                               DungeonModeConstants(dm["closed"], dm["open"], dm["request"], dm["open_request"])).convert()
    except BaseException as e:  # noqa
        return _err(e)
    return {"text": text}


def decompile_inproc_many(args: list[dict]) -> list[dict]:
    return [decompile_inproc(a) for a in args]
