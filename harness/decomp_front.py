"""Front phases of the ExplorerScript decompiler (label resolution + base control-flow graph) - the part of the decompiler
that IS modelled (lean/ESV/Decomp/Model.lean) and proved correct for all inputs (lean/ESV/Props/DecompFront.lean).

Two channels, used by C02 and C06 on the routine sets they generate anyway:

  tie        exact comparison of the model's labels / interleaved routines / base graphs (vertex list, edge list with flow
             levels and loop flags, exception classes) with what the running Python code builds (harness/impl_decomp.py);
             plus the environment model of igraph's incident-edge order, re-measured on random graphs
  validate   the REAL labels / routines / graphs are given meaning by the Lean semantics (ESV/Decomp/Sem.lean) and
             validated against the input routine set on the SSB machine by the proven checker (validate_sound): a front-phase
             change that alters behaviour is reported with the input it breaks on, whatever it does to the data structures
"""
from __future__ import annotations

from collections import Counter
from typing import Any

from . import core

MODULES = ["ESV.Props.DecompFuel", "ESV.Props.DecompFront", "ESV.Props.DecompOpt", "ESV.Props.DecompBranches"]
THEOREMS = ["ESV.DecompFront.resolve_total", "ESV.DecompFront.resolve_preserves", "ESV.DecompFront.baseGraph_preserves",
            "ESV.DecompFront.resolve_names", "ESV.DecompFront.baseGraph_ok", "ESV.DecompFront.edge_reading_agrees",
            "ESV.DecompFront.optimizePaths_preserves", "ESV.DecompFront.front_phases_preserve",
            "ESV.DecompFront.buildBranches_preserves", "ESV.DecompFront.buildBranches_one_answer",
            "ESV.DecompFront.optimizePaths_branchesStructOk", "ESV.DecompFront.front_through_branches_preserve",
            "ESV.Decomp.buildBranches_second_in_edge_counterexample", "ESV.Decomp.buildBranches_start_vertex_counterexample",
            "ESV.Decomp.buildBranches_levels_counterexample", "ESV.Decomp.buildBranches_other_target_counterexample",
            "ESV.DecompFront.baseGraph_never_fuel", "ESV.DecompFront.hasPath_fuel_irrelevant", "ESV.DecompFront.processOp_fuel_irrelevant"]
THEOREMS += ["ESV.DecompFront.baseGraph_never_fuel", "ESV.DecompFront.hasPath_fuel_irrelevant", "ESV.DecompFront.processOp_fuel_irrelevant"]


BB_EXAMPLES: list[dict] = []   # first real inputs on which build_branches alone changes behaviour (counted, see front_channels)


def count_branches(cnt: Counter, a: dict, answers: list) -> None:
    """coverage of the build_branches tie: outcomes, number of search calls, shapes of the answers"""
    bb = a.get("bb")
    if isinstance(bb, dict):
        cnt["build_branches:raises:" + bb.get("error", "?")] += 1
    else:
        cnt["build_branches:ok"] += 1
        if any(len(g["vs"]) != len(o["vs"]) for g, o in zip(bb, a["opt"])):
            cnt["build_branches:deletes_vertices"] += 1
        if any(v.get("ife") for g in bb for v in g["vs"]):
            cnt["build_branches:marks_if_end"] += 1
    for per_graph in answers:
        for x in per_graph:
            cnt["search_calls"] += 1
            cnt["search_answer:" + ("none" if x is None else ("same_edge" if x[0] == x[1] else "two_edges"))] += 1


def _bv(n: Any, item: dict) -> dict:
    return dict(item, n=n, ifs=None, ife=[])


def _lj(off: int, name: str, label: int, call: bool = False) -> dict:
    return {"k": "ljump", "off": off, "name": name, "params": [], "label": label, "call": call}


def _opv(off: int, name: str) -> dict:
    return {"k": "op", "off": off, "name": name, "params": []}


def _es(*edges: tuple) -> list:
    return [[s, t, lv, False, False] for (s, t, lv) in edges]


# the witnesses of lean/ESV/Decomp/BrCounter.lean and lean/ESV/Props/DecompBranches.lean (exIfElse), replayed on the real
# build_branches with the search forced to the witness' answer: (name, graph, answers, expected real behaviour change)
WITNESSES = [
    ("cexTwoIn", {"vs": [_bv(0, _lj(0, "Branch", 7)), _bv(1, _opv(1, "Foo")), _bv(2, _opv(2, "Bar")), _bv(3, _lj(3, "Jump", 8)), _bv(4, {"k": "label", "id": 8}), _bv(5, _opv(4, "Baz"))],
                  "es": _es((0, 1, 0), (0, 2, 1), (1, 3, 0), (2, 3, 0), (3, 4, 1), (4, 5, 0))}, [[4, 4]], True),
    ("cexStart", {"vs": [_bv(0, _lj(0, "Jump", 8)), _bv(1, _opv(1, "Foo")), _bv(2, {"k": "label", "id": 8}), _bv(3, _lj(2, "Branch", 9)), _bv(4, _opv(3, "Bar"))],
                  "es": _es((0, 2, 1), (2, 3, 0), (3, 4, 0), (3, 0, 1))}, [[0, 0]], True),
    ("cexLevels", {"vs": [_bv(0, _lj(0, "Branch", 7)), _bv(1, _opv(1, "Foo")), _bv(2, _lj(2, "Jump", 8)), _bv(3, _opv(3, "Qux")), _bv(4, _opv(4, "Bar")), _bv(5, {"k": "label", "id": 8}), _bv(6, _opv(5, "Baz"))],
                   "es": _es((0, 1, 0), (0, 4, 1), (1, 2, 0), (1, 3, 0), (2, 5, 1), (4, 5, 0), (5, 6, 0))}, [[5, 4]], True),
    ("cexTarget", {"vs": [_bv(0, _lj(0, "Branch", 7)), _bv(1, _opv(1, "Foo")), _bv(2, _lj(2, "Jump", 9)), _bv(3, _opv(3, "Bar")), _bv(4, {"k": "label", "id": 8}), _bv(5, _opv(4, "Baz")), _bv(6, {"k": "label", "id": 9}), _bv(7, _opv(5, "Zed"))],
                   "es": _es((0, 1, 0), (0, 3, 1), (1, 2, 0), (2, 6, 1), (3, 4, 0), (4, 5, 0), (6, 7, 0))}, [[4, 3]], True),
    ("exIfElse", {"vs": [_bv(0, _lj(0, "Branch", 1)), _bv(1, _opv(1, "Foo")), _bv(2, _lj(2, "Jump", 2)), _bv(3, {"k": "label", "id": 1}), _bv(4, _opv(3, "Bar")), _bv(5, {"k": "label", "id": 2}), _bv(6, _opv(4, "Baz"))],
                  "es": _es((0, 1, 0), (0, 3, 1), (1, 2, 0), (2, 5, 1), (3, 4, 0), (4, 5, 0), (5, 6, 0))}, [[5, 3]], False),
]


def random_bgraph(rnd: Any) -> tuple[dict, list]:
    """a small random graph with vertex names, and a random answer list for the search: shapes real runs never produce
    (several in-edges of a Jump, answers naming arbitrary edges, marked jumps, shuffled names) included"""
    n = rnd.randint(2, 9)
    vs = []
    names = sorted(rnd.sample(range(0, 3 * n), n))
    if rnd.random() < 0.25:
        rnd.shuffle(names)
    for i in range(n):
        r = rnd.random()
        if r < 0.22:
            it = _lj(i, rnd.choice(["Branch", "BranchBit", "BranchVariable"]), rnd.randint(0, 5), call=rnd.random() < 0.04)
        elif r < 0.42:
            it = _lj(i, "Jump", rnd.randint(0, 5))
        elif r < 0.47:
            it = _lj(i, rnd.choice(["Call", "CaseValue"]), rnd.randint(0, 5), call=rnd.random() < 0.5)
        elif r < 0.72:
            it = {"k": "label", "id": i}
        elif r < 0.77:
            it = {"k": "foreign", "id": i}
        else:
            it = _opv(i, rnd.choice(["Foo", "Bar", "Wait", "Return", "lives", "End"]))
        v = _bv(None if it["k"] == "foreign" else names[i], it)
        if it["k"] == "ljump" and rnd.random() < 0.03:
            v["ifs"] = rnd.randint(0, 3)
        if it["k"] == "label" and rnd.random() < 0.1:
            v["ife"] = [rnd.randint(0, 3)]
        vs.append(v)
    es = []
    labels = [i for i, v in enumerate(vs) if v["k"] == "label"]
    for _ in range(rnd.randint(0, 2 * n + 2)):
        s = rnd.randrange(n)
        t = rnd.choice(labels) if labels and rnd.random() < 0.4 else rnd.randrange(n)
        es.append([s, t, rnd.choice([0, 0, 1, 1, 2]), rnd.random() < 0.12, rnd.random() < 0.05])
    for i, v in enumerate(vs):
        if v["k"] == "ljump" and v["name"].startswith("Branch") and rnd.random() < 0.8:
            es.append([i, rnd.randrange(n), 0, False, False])
            es.append([i, rnd.choice(labels) if labels else rnd.randrange(n), 1, rnd.random() < 0.1, False])
        if v["k"] == "ljump" and v["name"] == "Jump" and labels and rnd.random() < 0.7:
            es.append([i, rnd.choice(labels), 1, rnd.random() < 0.05, False])
    rnd.shuffle(es)
    nb = sum(1 for v in vs if v["k"] == "ljump" and v["name"].startswith("Branch"))
    answers: list = []
    to_label = [i for i, e in enumerate(es) if vs[e[1]]["k"] == "label"]
    jump_to_label = [i for i in to_label if vs[es[i][0]]["k"] == "ljump" and vs[es[i][0]]["name"] == "Jump"]
    if jump_to_label and rnd.random() < 0.7:
        to_label = jump_to_label
    for _ in range(max(0, nb - (1 if rnd.random() < 0.05 else 0))):
        if not es or rnd.random() < 0.2:
            answers.append(None)
            continue
        a = rnd.choice(to_label) if to_label and rnd.random() < 0.8 else rnd.randrange(len(es))
        r = rnd.random()
        if r < 0.2:
            b = a
        elif r < 0.75:
            same = [i for i, e in enumerate(es) if e[1] == es[a][1]]
            b = rnd.choice(same)
        else:
            b = rnd.randrange(len(es) + (1 if rnd.random() < 0.05 else 0))
        answers.append([a, b])
    return {"vs": vs, "es": es}, answers


def branches_graph_tie(run: core.Run, pool: core.Pool, drv: core.Driver, n: int, jobs: int, cnt: Counter) -> int:
    """graph-level tie of build_branches: model and real code on hand-built graphs with forced answers of the search
    (the witnesses of the Lean counterexamples + n random graphs); returns the number of mismatches.  On every graph
    the theorem's conclusion is also re-checked by the proven checker: hypotheses hold => behaviour kept."""
    cases = [(name, g, ans, exp) for (name, g, ans, exp) in WITNESSES]
    for k in range(n):
        g, ans = random_bgraph(run.rng)
        cases.append((f"random{k}", g, ans, None))
    reqs = [{"g": g, "answers": ans} for (_n, g, ans, _e) in cases]
    chunk = 40
    chunks = [reqs[i:i + chunk] for i in range(0, len(reqs), chunk)]
    outs = pool.map("harness.impl_decomp:branches_on_graphs", chunks, timeout=90)
    real: list[Any] = []
    for ch, o in zip(chunks, outs):
        real += o if isinstance(o, list) else [None] * len(ch)
    model = drv.batch_parallel([dict(r, op="decomp.branches") for r in reqs], jobs)
    mism = 0
    for (name, g, ans, exp), a, b in zip(cases, real, model):
        if a is None:
            cnt["graph_tie:impl_no_answer"] += 1
            continue
        b = dict(b)
        facts = {k: b.pop(k, None) for k in ("struct_ok", "answers_ok", "verdict", "no_silent_cycle")}
        cnt["graph_tie:" + ("raises:" + a["error"] if "error" in a else "ok" + (":deletes" if len(a["vs"]) != len(g["vs"]) else (":reconnects" if [e[:4] for e in a["es"]] != [e[:4] for e in g["es"]] else "")))] += 1
        if a != b:
            mism += 1
            if mism <= 2:
                run.broken_tie("correspondence build_branches on a hand-built graph: model and implementation disagree",
                               {"channel": "decomp.branches", "case": name, "g": g, "answers": ans, "impl": a, "model": b})
            continue
        if "error" in a:
            continue
        hyp = facts["struct_ok"] and facts["answers_ok"]
        changed = facts["verdict"] in ("differ", "check-rejected", "silent-right", "budget")
        cnt["graph_tie:hypotheses_" + ("hold" if hyp else "fail") + (":behaviour_changed" if changed else "")] += 1
        if hyp and changed:
            run.broken_tie("buildBranches_preserves contradicted by the proven checker on a hand-built graph", {"channel": "decomp.branches", "case": name, "g": g, "answers": ans, "facts": facts})
        if exp is not None and (changed != exp or hyp == exp):
            run.broken_tie(f"witness {name} of a Lean counterexample does not replay on the real build_branches", {"channel": "decomp.branches", "case": name, "impl": a, "facts": facts})
    return mism


def strip_ops(rs: dict) -> list:
    return [[{"off": o["off"], "name": o["name"], "params": o["params"]} for o in r] for r in rs["ops"]]


def front_channels(run: core.Run, pool: core.Pool, drv: core.Driver, sets: list[dict], jobs: int, wellformed_only: bool = True) -> dict:
    """returns statistics; reports ties through run.broken_tie and behavioural failures through run.violation
    (kind front:*), with the routine set as replay"""
    cnt: Counter = Counter()
    chunk = 20
    args = [{"rs": s["rs"]} for s in sets]
    chunks = [args[i:i + chunk] for i in range(0, len(args), chunk)]
    outs = pool.map("harness.impl_decomp:front_many", chunks, timeout=90)
    real: list[Any] = []
    for ch, o in zip(chunks, outs):
        real += o if isinstance(o, list) else [None] * len(ch)
    # the answers of the heuristic search build_branches calls are an oracle input of the model: recorded from the real run
    model = drv.batch_parallel([dict({"op": "decomp.front", "rs": strip_ops(s["rs"])},
                                     **({"answers": a["answers"]} if isinstance(a, dict) and "answers" in a else {}))
                                for s, a in zip(sets, real)], jobs)
    mism = 0
    vreqs, vidx = [], []
    answers_of: dict[int, Any] = {}
    for i, (s, a, b) in enumerate(zip(sets, real, model)):
        if a is None:
            cnt["impl_no_answer"] += 1
            continue
        if "answers" in a:
            answers_of[i] = a.pop("answers")
            count_branches(cnt, a, answers_of[i])
            if isinstance(a["bb"], dict) and a["bb"].pop("oracle_raised", False) and isinstance(b.get("bb"), dict) and b["bb"].get("error") == "OracleExhausted":
                # the search itself raised: the model has no answer left at that call
                cnt["build_branches:search_raised"] += 1
                a["bb"] = b["bb"]
        cnt["stage:" + (a.get("stage") or "ok") + (":" + a["error"] if "error" in a else "")] += 1
        if a.get("has_calls"):
            cnt["has_calls"] += 1
        if any(v.get("k") == "foreign" for g in a.get("graphs", []) for v in g["vs"]):
            cnt["foreign_labels"] += 1
        if any(e[3] for g in a.get("graphs", []) for e in g["es"]):
            cnt["loop_edges"] += 1
        if a != b:
            mism += 1
            if mism <= 2:
                keys = [k for k in sorted(set(a) | set(b)) if a.get(k) != b.get(k)]
                run.broken_tie("correspondence decompiler front phases: model and implementation disagree on " + ",".join(keys),
                               {"channel": "decomp.front", "rs": s["rs"], "differs": keys,
                                "impl": {k: a.get(k) for k in keys}, "model": {k: b.get(k) for k in keys}})
        if a.get("stage") == "resolve":
            # the resolver runs outside convert()'s try: for a well-formed set this is an exception escaping the decompiler
            cnt["resolve_raises"] += 1
            run.violation("front:resolve_raises:" + a["error"], f"label resolution raises {a['error']} on a well-formed routine set (outside the try of convert())", {"rs": s["rs"]})
            continue
        if "graphs" in a:
            vreqs.append({"op": "decomp.validate", "rs": strip_ops(s["rs"]), "labels": a["labels"], "rtns": a["rtns"], "graphs": a["graphs"]})
            vidx.append(i)
    reps = drv.batch_parallel(vreqs, jobs)
    for i, rep in zip(vidx, reps):
        s = sets[i]
        if "error" in rep:
            cnt["validate_error"] += 1
            run.broken_tie("decomp.validate failed: " + str(rep["error"])[:200], {"channel": "decomp.validate", "rs": s["rs"]})
            continue
        for v in rep["resolver"]:
            cnt["resolver:" + v["verdict"]] += 1
            if v["verdict"] in ("differ", "check-rejected", "silent-right", "budget") or (v["verdict"] == "silent-left" and wellformed_only):
                run.violation("front:resolver_changes_behaviour", f"routine {v['r']}: the resolver's output (labels + label jumps) does not behave like the input: {v['verdict']} {v.get('why', '')} after test outcomes {v.get('path')}",
                              {"rs": s["rs"], "verdict": v, "labels": real[i]["labels"], "rtns": real[i]["rtns"]})
        for v in rep["graph"]:
            cnt["graph:" + v["verdict"] + ("" if v.get("guard") else ":unguarded")] += 1
            if v.get("guard") and (v["verdict"] in ("differ", "check-rejected", "silent-right", "budget") or (v["verdict"] == "silent-left" and wellformed_only)):
                run.violation("front:base_graph_changes_behaviour", f"routine {v['r']}: following the edges of the base graph does not behave like the routine: {v['verdict']} {v.get('why', '')} after test outcomes {v.get('path')}",
                              {"rs": s["rs"], "verdict": v, "graph": real[i]["graphs"][v["r"]]})
    # first rewriting phase (optimize_paths): the real graphs after it against the real base graphs
    oreqs, oidx = [], []
    for i, a in enumerate(real):
        if a and isinstance(a.get("opt"), list) and "graphs" in a:
            oreqs.append({"op": "decomp.validate_opt", "labels": a["labels"], "rtns": a["rtns"], "graphs": a["graphs"], "opt": a["opt"]})
            oidx.append(i)
        elif a and isinstance(a.get("opt"), dict):
            cnt["optimize_raises:" + a["opt"].get("error", "?")] += 1
    for i, rep in zip(oidx, drv.batch_parallel(oreqs, jobs)):
        if "error" in rep:
            cnt["validate_opt_error"] += 1
            run.broken_tie("decomp.validate_opt failed: " + str(rep["error"])[:200], {"channel": "decomp.validate_opt", "rs": sets[i]["rs"]})
            continue
        for v in rep["opt"]:
            changed = real[i]["graphs"][v["r"]] != real[i]["opt"][v["r"]]
            cnt["optimize:" + v["verdict"] + (":changed" if changed else "")] += 1
            if not v["graph_ok"]:
                cnt["base_graph_not_ok"] += 1
                run.broken_tie("a real base graph does not have the structure optimize_paths relies on (graphOk)", {"channel": "graphOk", "rs": sets[i]["rs"], "graph": real[i]["graphs"][v["r"]]})
            if v["no_silent_cycle"] and v["verdict"] != "equiv":
                run.violation("front:optimize_paths_changes_behaviour", f"routine {v['r']}: the graph after optimize_paths does not behave like the base graph: {v['verdict']} {v.get('why', '')} after test outcomes {v.get('path')}",
                              {"rs": sets[i]["rs"], "verdict": v, "base": real[i]["graphs"][v["r"]], "optimized": real[i]["opt"][v["r"]]})
            if v["guard"] and v["no_silent_cycle"] and v["readings"] != "equiv":
                run.broken_tie("positional and edge-based reading of a real base graph disagree", {"channel": "readings", "rs": sets[i]["rs"], "graph": real[i]["graphs"][v["r"]]})
    # second rewriting phase (build_branches): the real graphs after it against the real graphs after optimize_paths
    breqs, bidx = [], []
    for i, a in enumerate(real):
        if a and isinstance(a.get("bb"), list) and isinstance(a.get("opt"), list):
            breqs.append({"op": "decomp.validate_branches", "opt": a["opt"], "opt_names": a["opt_names"], "answers": answers_of.get(i, []), "bb": a["bb"]})
            bidx.append(i)
    for i, rep in zip(bidx, drv.batch_parallel(breqs, jobs)):
        if "error" in rep:
            cnt["validate_branches_error"] += 1
            run.broken_tie("decomp.validate_branches failed: " + str(rep["error"])[:200], {"channel": "decomp.validate_branches", "rs": sets[i]["rs"]})
            continue
        for v in rep["bb"]:
            tag = ":changed" if v["changed"] else ""
            cnt["build_branches:" + v["verdict"] + tag] += 1
            hyp = v["struct_ok"] and v["answers_ok"]
            cnt["build_branches:hypotheses_" + ("hold" if hyp else ("fail:" + ("" if v["struct_ok"] else "struct") + ("" if v["answers_ok"] else "answers"))) + tag] += 1
            # "silent-left": the graph before the phase has a reachable cycle of labels and Jumps only (outside the quantifier
            # of C02/C06; the checker does not decide such pairs)
            bad = v["verdict"] in ("differ", "check-rejected", "silent-right", "budget", "start-deleted") or (v["verdict"] == "silent-left" and v["no_silent_cycle"])
            if bad and hyp:
                # buildBranches_preserves says this cannot happen
                run.broken_tie("a real build_branches run that meets the hypotheses of buildBranches_preserves changes behaviour",
                               {"channel": "decomp.validate_branches", "rs": sets[i]["rs"], "verdict": v})
            elif bad:
                # NOTE (W5): COUNTED, not reported as run.violation("front:build_branches_changes_behaviour", ...), as the task
                # asks for real inputs on which the phase alone changes behaviour (later passes may repair them; the final text
                # is judged by C02's validation as before).  The first examples are kept in BB_EXAMPLES.
                cnt["front:build_branches_changes_behaviour"] += 1
                if len(BB_EXAMPLES) < 5:
                    BB_EXAMPLES.append({"rs": sets[i]["rs"], "verdict": v, "optimized": real[i]["opt"][v["r"]], "branches": real[i]["bb"][v["r"]], "answers": answers_of.get(i, [])[v["r"]]})
    mism += branches_graph_tie(run, pool, drv, 400, jobs, cnt)
    # environment model: igraph incident-edge order
    st = pool.map("harness.impl_decomp:igraph_order_selftest", [{"seed": run.seed, "n": 150}], timeout=60)[0]
    if not isinstance(st, dict) or st.get("bad"):
        run.broken_tie("environment model of igraph (incident-edge order / id compaction) does not match the installed igraph", {"channel": "igraph", "result": st})
    cnt["igraph_selftest_graphs"] = st.get("graphs", 0) if isinstance(st, dict) else 0
    return {"sets": len(sets), "model_vs_real_mismatches": mism, "outcomes": dict(cnt)}


def replay_front(rs: dict) -> list[str]:
    """re-run both channels on one routine set; returns failure descriptions"""
    from . import impl_decomp
    core.lean_prepare([], need_driver=True)
    drv = core.Driver()
    a = impl_decomp.front({"rs": rs})
    out = []
    if a.get("stage") == "resolve":
        return [f"label resolution raises {a['error']}"]
    if "graphs" in a:
        rep = drv.batch([{"op": "decomp.validate", "rs": strip_ops(rs), "labels": a["labels"], "rtns": a["rtns"], "graphs": a["graphs"]}])[0]
        for v in rep.get("resolver", []):
            if v["verdict"] not in ("equiv",):
                out.append(f"resolver routine {v['r']}: {v['verdict']}")
        for v in rep.get("graph", []):
            if v.get("guard") and v["verdict"] not in ("equiv",):
                out.append(f"graph routine {v['r']}: {v['verdict']}")
    if isinstance(a.get("bb"), list) and isinstance(a.get("opt"), list):
        rep = drv.batch([{"op": "decomp.validate_branches", "opt": a["opt"], "opt_names": a["opt_names"], "answers": a["answers"], "bb": a["bb"]}])[0]
        for v in rep.get("bb", []):
            if v["verdict"] != "equiv" and v["no_silent_cycle"]:
                out.append(f"build_branches routine {v['r']}: {v['verdict']}")
    return out
