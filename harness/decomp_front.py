"""Front phases of the ExplorerScript decompiler (label resolution + base control-flow graph) - the part of the decompiler
that IS modelled (lean/ESV/Decomp/Model.lean) and proved correct for all inputs (lean/ESV/Props/DecompFront.lean).

Two channels, used by C02 and C06 on the routine sets they generate anyway:

  tie        exact comparison of the model's labels / interleaved routines / base graphs (vertex list, edge list with flow
             levels and loop flags, exception classes) with what the running Python code builds (harness/impl_decomp.py);
             plus the environment model of igraph's incident-edge order, re-measured on random graphs
  validate   the REAL labels / routines / graphs are given meaning by the Lean semantics (ESV/Decomp/Sem.lean) and
             validated against the input routine set on the SSB machine by the proven checker (validate_sound): a front-phase
             change that alters behaviour is reported with the input it breaks on, whatever it does to the data structures
"""
from __future__ import annotations

from collections import Counter
from typing import Any

from . import core
from . import decomp_switch as dsw
from . import decomp_loops as dlp
from . import decomp_writer as dwr

MODULES = ["ESV.Props.DecompFuel", "ESV.Props.DecompFront", "ESV.Props.DecompOpt", "ESV.Props.DecompBranches", "ESV.Props.DecompGroup"]
THEOREMS = ["ESV.DecompFront.resolve_total", "ESV.DecompFront.resolve_preserves", "ESV.DecompFront.baseGraph_preserves",
            "ESV.DecompFront.resolve_names", "ESV.DecompFront.baseGraph_ok", "ESV.DecompFront.edge_reading_agrees",
            "ESV.DecompFront.optimizePaths_preserves", "ESV.DecompFront.front_phases_preserve",
            "ESV.DecompFront.buildBranches_preserves", "ESV.DecompFront.buildBranches_one_answer",
            "ESV.DecompFront.optimizePaths_branchesStructOk", "ESV.DecompFront.front_through_branches_preserve",
            "ESV.Decomp.buildBranches_second_in_edge_counterexample", "ESV.Decomp.buildBranches_start_vertex_counterexample",
            "ESV.Decomp.buildBranches_levels_counterexample", "ESV.Decomp.buildBranches_other_target_counterexample",
            "ESV.DecompFront.baseGraph_never_fuel", "ESV.DecompFront.hasPath_fuel_irrelevant", "ESV.DecompFront.processOp_fuel_irrelevant"]
THEOREMS += ["ESV.DecompFront.baseGraph_never_fuel", "ESV.DecompFront.hasPath_fuel_irrelevant", "ESV.DecompFront.processOp_fuel_irrelevant"]


THEOREMS += ["ESV.DecompFront.stepB_agrees", "ESV.DecompFront.stepB_agrees_after_buildBranches", "ESV.DecompFront.groupBranches_preserves",
             "ESV.DecompFront.invertBranches_stepB", "ESV.DecompFront.invertBranches_preserves", "ESV.DecompFront.front_through_invert_preserve",
             "ESV.DecompFront.groupBranches_invertStructOk", "ESV.DecompFront.bridgeOk_groupStructOk",
             "ESV.Decomp.Gr.ltsP_equiv_ltsB", "ESV.Decomp.Gr.groupLoop_fuel_irrelevant",
             "ESV.Decomp.groupBranches_in_edge_counterexample", "ESV.Decomp.groupBranches_start_vertex_counterexample",
             "ESV.Decomp.groupBranches_inverted_counterexample", "ESV.Decomp.groupBranches_two_else_counterexample",
             "ESV.Decomp.invertBranches_twice_counterexample", "ESV.Decomp.invertBranches_two_else_counterexample"]


MODULES += dsw.MODULES
THEOREMS += dsw.THEOREMS
MODULES += dlp.MODULES
THEOREMS += dlp.THEOREMS
MODULES += dwr.MODULES
THEOREMS += dwr.THEOREMS

BB_EXAMPLES: list[dict] = []   # first real inputs on which build_branches alone changes behaviour (counted, see front_channels)


def count_branches(cnt: Counter, a: dict, answers: list) -> None:
    """coverage of the build_branches tie: outcomes, number of search calls, shapes of the answers"""
    bb = a.get("bb")
    if isinstance(bb, dict):
        cnt["build_branches:raises:" + bb.get("error", "?")] += 1
    else:
        cnt["build_branches:ok"] += 1
        if any(len(g["vs"]) != len(o["vs"]) for g, o in zip(bb, a["opt"])):
            cnt["build_branches:deletes_vertices"] += 1
        if any(v.get("ife") for g in bb for v in g["vs"]):
            cnt["build_branches:marks_if_end"] += 1
    for per_graph in answers:
        for x in per_graph:
            cnt["search_calls"] += 1
            cnt["search_answer:" + ("none" if x is None else ("same_edge" if x[0] == x[1] else "two_edges"))] += 1


def _bv(n: Any, item: dict) -> dict:
    return dict(item, n=n, ifs=None, ife=[])


def _lj(off: int, name: str, label: int, call: bool = False) -> dict:
    return {"k": "ljump", "off": off, "name": name, "params": [], "label": label, "call": call}


def _opv(off: int, name: str) -> dict:
    return {"k": "op", "off": off, "name": name, "params": []}


def _es(*edges: tuple) -> list:
    return [[s, t, lv, False, False] for (s, t, lv) in edges]


# the witnesses of lean/ESV/Decomp/BrCounter.lean and lean/ESV/Props/DecompBranches.lean (exIfElse), replayed on the real
# build_branches with the search forced to the witness' answer: (name, graph, answers, expected real behaviour change)
WITNESSES = [
    ("cexTwoIn", {"vs": [_bv(0, _lj(0, "Branch", 7)), _bv(1, _opv(1, "Foo")), _bv(2, _opv(2, "Bar")), _bv(3, _lj(3, "Jump", 8)), _bv(4, {"k": "label", "id": 8}), _bv(5, _opv(4, "Baz"))],
                  "es": _es((0, 1, 0), (0, 2, 1), (1, 3, 0), (2, 3, 0), (3, 4, 1), (4, 5, 0))}, [[4, 4]], True),
    ("cexStart", {"vs": [_bv(0, _lj(0, "Jump", 8)), _bv(1, _opv(1, "Foo")), _bv(2, {"k": "label", "id": 8}), _bv(3, _lj(2, "Branch", 9)), _bv(4, _opv(3, "Bar"))],
                  "es": _es((0, 2, 1), (2, 3, 0), (3, 4, 0), (3, 0, 1))}, [[0, 0]], True),
    ("cexLevels", {"vs": [_bv(0, _lj(0, "Branch", 7)), _bv(1, _opv(1, "Foo")), _bv(2, _lj(2, "Jump", 8)), _bv(3, _opv(3, "Qux")), _bv(4, _opv(4, "Bar")), _bv(5, {"k": "label", "id": 8}), _bv(6, _opv(5, "Baz"))],
                   "es": _es((0, 1, 0), (0, 4, 1), (1, 2, 0), (1, 3, 0), (2, 5, 1), (4, 5, 0), (5, 6, 0))}, [[5, 4]], True),
    ("cexTarget", {"vs": [_bv(0, _lj(0, "Branch", 7)), _bv(1, _opv(1, "Foo")), _bv(2, _lj(2, "Jump", 9)), _bv(3, _opv(3, "Bar")), _bv(4, {"k": "label", "id": 8}), _bv(5, _opv(4, "Baz")), _bv(6, {"k": "label", "id": 9}), _bv(7, _opv(5, "Zed"))],
                   "es": _es((0, 1, 0), (0, 3, 1), (1, 2, 0), (2, 6, 1), (3, 4, 0), (4, 5, 0), (6, 7, 0))}, [[4, 3]], True),
    ("exIfElse", {"vs": [_bv(0, _lj(0, "Branch", 1)), _bv(1, _opv(1, "Foo")), _bv(2, _lj(2, "Jump", 2)), _bv(3, {"k": "label", "id": 1}), _bv(4, _opv(3, "Bar")), _bv(5, {"k": "label", "id": 2}), _bv(6, _opv(4, "Baz"))],
                  "es": _es((0, 1, 0), (0, 3, 1), (1, 2, 0), (2, 5, 1), (3, 4, 0), (4, 5, 0), (5, 6, 0))}, [[5, 3]], False),
]


def random_bgraph(rnd: Any) -> tuple[dict, list]:
    """a small random graph with vertex names, and a random answer list for the search: shapes real runs never produce
    (several in-edges of a Jump, answers naming arbitrary edges, marked jumps, shuffled names) included"""
    n = rnd.randint(2, 9)
    vs = []
    names = sorted(rnd.sample(range(0, 3 * n), n))
    if rnd.random() < 0.25:
        rnd.shuffle(names)
    for i in range(n):
        r = rnd.random()
        if r < 0.22:
            it = _lj(i, rnd.choice(["Branch", "BranchBit", "BranchVariable"]), rnd.randint(0, 5), call=rnd.random() < 0.04)
        elif r < 0.42:
            it = _lj(i, "Jump", rnd.randint(0, 5))
        elif r < 0.47:
            it = _lj(i, rnd.choice(["Call", "CaseValue"]), rnd.randint(0, 5), call=rnd.random() < 0.5)
        elif r < 0.72:
            it = {"k": "label", "id": i}
        elif r < 0.77:
            it = {"k": "foreign", "id": i}
        else:
            it = _opv(i, rnd.choice(["Foo", "Bar", "Wait", "Return", "lives", "End"]))
        v = _bv(None if it["k"] == "foreign" else names[i], it)
        if it["k"] == "ljump" and rnd.random() < 0.03:
            v["ifs"] = rnd.randint(0, 3)
        if it["k"] == "label" and rnd.random() < 0.1:
            v["ife"] = [rnd.randint(0, 3)]
        vs.append(v)
    es = []
    labels = [i for i, v in enumerate(vs) if v["k"] == "label"]
    for _ in range(rnd.randint(0, 2 * n + 2)):
        s = rnd.randrange(n)
        t = rnd.choice(labels) if labels and rnd.random() < 0.4 else rnd.randrange(n)
        es.append([s, t, rnd.choice([0, 0, 1, 1, 2]), rnd.random() < 0.12, rnd.random() < 0.05])
    for i, v in enumerate(vs):
        if v["k"] == "ljump" and v["name"].startswith("Branch") and rnd.random() < 0.8:
            es.append([i, rnd.randrange(n), 0, False, False])
            es.append([i, rnd.choice(labels) if labels else rnd.randrange(n), 1, rnd.random() < 0.1, False])
        if v["k"] == "ljump" and v["name"] == "Jump" and labels and rnd.random() < 0.7:
            es.append([i, rnd.choice(labels), 1, rnd.random() < 0.05, False])
    rnd.shuffle(es)
    nb = sum(1 for v in vs if v["k"] == "ljump" and v["name"].startswith("Branch"))
    answers: list = []
    to_label = [i for i, e in enumerate(es) if vs[e[1]]["k"] == "label"]
    jump_to_label = [i for i in to_label if vs[es[i][0]]["k"] == "ljump" and vs[es[i][0]]["name"] == "Jump"]
    if jump_to_label and rnd.random() < 0.7:
        to_label = jump_to_label
    for _ in range(max(0, nb - (1 if rnd.random() < 0.05 else 0))):
        if not es or rnd.random() < 0.2:
            answers.append(None)
            continue
        a = rnd.choice(to_label) if to_label and rnd.random() < 0.8 else rnd.randrange(len(es))
        r = rnd.random()
        if r < 0.2:
            b = a
        elif r < 0.75:
            same = [i for i, e in enumerate(es) if e[1] == es[a][1]]
            b = rnd.choice(same)
        else:
            b = rnd.randrange(len(es) + (1 if rnd.random() < 0.05 else 0))
        answers.append([a, b])
    return {"vs": vs, "es": es}, answers


def branches_graph_tie(run: core.Run, pool: core.Pool, drv: core.Driver, n: int, jobs: int, cnt: Counter) -> int:
    """graph-level tie of build_branches: model and real code on hand-built graphs with forced answers of the search
    (the witnesses of the Lean counterexamples + n random graphs); returns the number of mismatches.  On every graph
    the theorem's conclusion is also re-checked by the proven checker: hypotheses hold => behaviour kept."""
    cases = [(name, g, ans, exp) for (name, g, ans, exp) in WITNESSES]
    for k in range(n):
        g, ans = random_bgraph(run.rng)
        cases.append((f"random{k}", g, ans, None))
    reqs = [{"g": g, "answers": ans} for (_n, g, ans, _e) in cases]
    chunk = 40
    chunks = [reqs[i:i + chunk] for i in range(0, len(reqs), chunk)]
    outs = pool.map("harness.impl_decomp:branches_on_graphs", chunks, timeout=90)
    real: list[Any] = []
    for ch, o in zip(chunks, outs):
        real += o if isinstance(o, list) else [None] * len(ch)
    model = drv.batch_parallel([dict(r, op="decomp.branches") for r in reqs], jobs)
    mism = 0
    for (name, g, ans, exp), a, b in zip(cases, real, model):
        if a is None:
            cnt["graph_tie:impl_no_answer"] += 1
            continue
        b = dict(b)
        facts = {k: b.pop(k, None) for k in ("struct_ok", "answers_ok", "verdict", "no_silent_cycle")}
        cnt["graph_tie:" + ("raises:" + a["error"] if "error" in a else "ok" + (":deletes" if len(a["vs"]) != len(g["vs"]) else (":reconnects" if [e[:4] for e in a["es"]] != [e[:4] for e in g["es"]] else "")))] += 1
        if a != b:
            mism += 1
            if mism <= 2:
                run.broken_tie("correspondence build_branches on a hand-built graph: model and implementation disagree",
                               {"channel": "decomp.branches", "case": name, "g": g, "answers": ans, "impl": a, "model": b})
            continue
        if "error" in a:
            continue
        hyp = facts["struct_ok"] and facts["answers_ok"]
        changed = facts["verdict"] in ("differ", "check-rejected", "silent-right", "budget")
        cnt["graph_tie:hypotheses_" + ("hold" if hyp else "fail") + (":behaviour_changed" if changed else "")] += 1
        if hyp and changed:
            run.broken_tie("buildBranches_preserves contradicted by the proven checker on a hand-built graph", {"channel": "decomp.branches", "case": name, "g": g, "answers": ans, "facts": facts})
        if exp is not None and (changed != exp or hyp == exp):
            run.broken_tie(f"witness {name} of a Lean counterexample does not replay on the real build_branches", {"channel": "decomp.branches", "case": name, "impl": a, "facts": facts})
    return mism


GB_EXAMPLES: list[dict] = []   # first real inputs on which group_branches / invert_branches alone change behaviour, or on
                                # which the two readings of an if disagree after build_branches (counted, see front_channels)

BRANCH_NAMES = ["Branch", "BranchBit", "BranchVariable", "BranchValue"]


def _ifv(n: Any, off: int, ifs: int, mops: list | None = None, neg: bool = False, name: str = "Branch", call: bool = False) -> dict:
    return dict(_lj(off, name, 0, call), n=n, ifs=ifs, ife=[], mops=mops or [], **{"not": neg})


def _lab(n: Any, i: int, ife: list | None = None) -> dict:
    return {"k": "label", "id": i, "n": n, "ifs": None, "ife": ife or []}


def _mop(off: int, name: str) -> dict:
    return {"off": off, "name": name, "params": []}


def _fes(*edges: tuple) -> list:
    return [[s, t, lv, False, bool(el)] for (s, t, lv, el) in edges]


# the witnesses of lean/ESV/Decomp/GrCounter.lean, replayed on the real passes:
# (name, pass, graph, hypotheses hold, behaviour changes)
GROUP_WITNESSES: list[tuple] = [
    # if (A || B) { Foo } else { Bar }: the plain grouping example - hypotheses hold, behaviour kept
    ("exOr", "group", {"vs": [_ifv(0, 0, 0, name="Branch"), _ifv(1, 1, 1, name="BranchBit"), _bv(2, _opv(2, "Bar")), _lab(3, 1, [0, 1]), _bv(4, _opv(3, "Foo")), _bv(5, _opv(4, "Return"))],
                        "es": _fes((0, 1, 0, 1), (0, 4, 1, 0), (1, 2, 0, 1), (1, 4, 1, 0), (2, 3, 0, 0), (4, 3, 0, 0), (3, 5, 0, 0))}, True, False),
    # Foo leads INTO the second if: the merged-away vertex has an in-edge from a vertex that stays
    ("cexGroupInEdge", "group", {"vs": [_ifv(0, 0, 0), _ifv(1, 1, 1, name="BranchBit"), _bv(2, _opv(2, "Bar")), _bv(3, _opv(3, "Return")), _bv(4, _opv(4, "Foo"))],
                                 "es": _fes((0, 1, 0, 1), (0, 4, 1, 0), (1, 2, 0, 1), (1, 4, 1, 0), (2, 3, 0, 0), (4, 1, 0, 0))}, False, True),
    # the routine STARTS with the if that is merged away (the first if is reached by a jump back)
    ("cexGroupStart", "group", {"vs": [_ifv(0, 0, 0, name="BranchBit"), _bv(1, _opv(1, "Bar")), _ifv(2, 2, 1), _bv(3, _opv(3, "Foo"))],
                                "es": _fes((0, 1, 0, 1), (0, 3, 1, 0), (2, 0, 0, 1), (2, 3, 1, 0), (1, 2, 0, 0))}, False, True),
    # an if that is already inverted is grouped: the fresh MultiIfStart forgets is_not
    ("cexGroupNot", "group", {"vs": [_ifv(0, 0, 0, neg=True), _ifv(1, 1, 1, name="BranchBit"), _bv(2, _opv(2, "Bar")), _bv(3, _opv(3, "Foo"))],
                              "es": _fes((0, 1, 0, 1), (0, 3, 1, 0), (1, 2, 0, 1), (1, 3, 1, 0))}, False, True),
    # two else-edges at the grouping if: after the reconnect ANOTHER edge is the first else-edge
    ("cexGroupTwoElse", "group", {"vs": [_ifv(0, 0, 0), _ifv(1, 1, 1, name="BranchBit"), _bv(2, _opv(2, "Qux")), _bv(3, _opv(3, "Bar")), _bv(4, _opv(4, "Foo"))],
                                  "es": _fes((0, 1, 0, 1), (0, 2, 0, 1), (0, 4, 1, 0), (1, 3, 0, 1), (1, 4, 1, 0))}, False, True),
    # invert: if (A) { } else { Foo }  ->  if not (A) { Foo }
    ("exInvert", "invert", {"vs": [_ifv(0, 0, 0), _bv(1, _opv(1, "Foo")), _lab(2, 1, [0]), _bv(3, _opv(2, "Return"))],
                            "es": _fes((0, 1, 0, 1), (0, 2, 1, 0), (1, 2, 0, 0), (2, 3, 0, 0))}, True, False),
    # inverting an if that is already inverted: is_not stays True, the flags are swapped again
    ("cexInvertTwice", "invert", {"vs": [_ifv(0, 0, 0, neg=True), _bv(1, _opv(1, "Foo")), _lab(2, 1, [0]), _bv(3, _opv(2, "Bar"))],
                                  "es": _fes((0, 1, 0, 1), (0, 2, 1, 0), (1, 2, 0, 0), (2, 3, 0, 0))}, False, True),
    # two else-edges: after the swap the first else-edge is not the old if-edge
    ("cexInvertTwoElse", "invert", {"vs": [_ifv(0, 0, 0), _bv(1, _opv(1, "Foo")), _bv(2, _opv(2, "Qux")), _lab(3, 1, [0]), _bv(4, _opv(3, "Bar"))],
                                    "es": _fes((0, 1, 0, 1), (0, 2, 0, 1), (0, 3, 1, 0), (1, 3, 0, 0), (2, 3, 0, 0), (3, 4, 0, 0))}, False, True),
]


def random_ggraph(rnd: Any) -> dict:
    """a small random graph as group_branches / invert_branches may meet it, and many they never meet: marked label jumps
    (plain, multi, inverted, with a CallJump marker in front), chains of ifs with a common if-target, else-cycles (the real
    loop does not terminate), ifs without an else- or if-edge, several flagged edges, shuffled edge ids"""
    n = rnd.randint(2, 9)
    vs = []
    names = sorted(rnd.sample(range(0, 3 * n), n))
    next_if = 0
    for i in range(n):
        r = rnd.random()
        if r < 0.45:
            ifid = next_if if rnd.random() < 0.9 else rnd.randint(0, 3)
            next_if += 1
            mops = [_mop(100 + i * 3 + k, rnd.choice(BRANCH_NAMES)) for k in range(rnd.choice([0] * 16 + [1, 2]))]
            v = _ifv(names[i], i, ifid, mops, rnd.random() < 0.07, rnd.choice(BRANCH_NAMES), call=rnd.random() < 0.02)
        elif r < 0.70:
            v = _lab(names[i], i, [rnd.randint(0, 4) for _ in range(rnd.choice([0, 0, 1, 1, 2]))])
        elif r < 0.85:
            v = _bv(names[i], _opv(i, rnd.choice(["Foo", "Bar", "Wait", "Return", "lives", "End"])))
        elif r < 0.90:
            v = _bv(names[i], _lj(i, "Jump", rnd.randint(0, 5)))
        elif r < 0.96:
            v = _bv(names[i], _lj(i, rnd.choice(BRANCH_NAMES + ["CaseValue"]), rnd.randint(0, 5)))
        else:
            v = _bv(None, {"k": "foreign", "id": i})
        vs.append(v)
    ifs = [i for i, v in enumerate(vs) if v.get("ifs") is not None]
    labels = [i for i, v in enumerate(vs) if v["k"] == "label"]
    common = rnd.randrange(n)
    es = []
    for i in ifs:
        r = rnd.random()
        if r < 0.04:
            continue
        x = common if rnd.random() < 0.7 else (rnd.choice(labels) if labels and rnd.random() < 0.5 else rnd.randrange(n))
        if labels and rnd.random() < 0.3:
            # the if-edge leads to a label that carries this if's IfEnd: invert_branches fires
            x = rnd.choice(labels)
            if rnd.random() < 0.8:
                vs[x]["ife"].append(vs[i]["ifs"])
        later = [j for j in ifs if j > i and not vs[j]["mops"]]
        plain = [j for j in range(n) if j not in ifs]
        y = rnd.choice(later) if later and rnd.random() < 0.65 else (rnd.choice(plain) if plain and rnd.random() < 0.75 else rnd.randrange(n))
        lo, hi = (0, 1) if rnd.random() < 0.9 else (rnd.randint(0, 2), rnd.randint(0, 2))
        if r > 0.08:
            es.append([i, y, lo, rnd.random() < 0.05, True])
        if r < 0.04 or r > 0.12:
            es.append([i, x, hi, rnd.random() < 0.05, False])
        if rnd.random() < 0.06:
            es.append([i, rnd.randrange(n), rnd.randint(0, 2), False, rnd.random() < 0.5])
    for i, v in enumerate(vs):
        if v.get("ifs") is None and v["k"] != "foreign" and rnd.random() < 0.85:
            es.append([i, rnd.randrange(n), 0, rnd.random() < 0.05, rnd.random() < 0.03])
            if v["k"] == "ljump" and rnd.random() < 0.5:
                es.append([i, rnd.randrange(n), 1, False, False])
        if rnd.random() < 0.04:
            es.append([rnd.randrange(n), i, rnd.randint(0, 1), False, False])
    rnd.shuffle(es)
    return {"vs": vs, "es": es}


def chain_ggraph(rnd: Any) -> dict:
    """a chain of ifs with a common if-target (what group_branches looks for), if ids drawn from a small range (duplicates) and
    several labels carrying the same IfEnd ids more than once: which marker goes, and how often, becomes visible"""
    k = rnd.randint(2, 5)
    nl = rnd.randint(1, 3)
    n = k + nl + 2
    order = list(range(n))
    if rnd.random() < 0.5:
        rnd.shuffle(order)
    pos = {role: order[role] for role in range(n)}          # role -> vertex index; roles: 0..k-1 ifs, k..k+nl-1 labels, then X, Y
    vs: list = [None] * n
    ids = [rnd.randint(0, 2) for _ in range(k)]
    for r in range(k):
        vs[pos[r]] = _ifv(3 * pos[r], pos[r], ids[r], name=rnd.choice(BRANCH_NAMES))
    for r in range(k, k + nl):
        vs[pos[r]] = _lab(3 * pos[r], pos[r], [rnd.randint(0, 2) for _ in range(rnd.randint(0, 4))])
    vs[pos[k + nl]] = _bv(3 * pos[k + nl], _opv(pos[k + nl], "Foo"))
    vs[pos[k + nl + 1]] = _bv(3 * pos[k + nl + 1], _opv(pos[k + nl + 1], "Bar"))
    x, y = pos[k + nl], pos[k + nl + 1]
    es = []
    for r in range(k):
        nxt = pos[r + 1] if r + 1 < k else y
        if rnd.random() < 0.1:
            nxt = rnd.choice([pos[q] for q in range(k)])       # a jump back into the chain: cycles, already merged vertices
        es.append([pos[r], nxt, 0, False, True])
        es.append([pos[r], x if rnd.random() < 0.9 else pos[k], 1, False, False])
    for r in range(k, k + nl):
        es.append([pos[r], rnd.choice([x, y, pos[rnd.randrange(k)]]), 0, False, False])
    es.append([x, pos[k], 0, False, False])
    rnd.shuffle(es)
    return {"vs": vs, "es": es}


def group_graph_tie(run: core.Run, pool: core.Pool, drv: core.Driver, n: int, jobs: int, cnt: Counter) -> int:
    """graph-level tie of group_branches and invert_branches: model and real pass on hand-built graphs (the witnesses of
    the Lean counterexamples + n random graphs, each through both passes; a third of them through invert AFTER the real
    group).  On every graph the theorems' conclusion is re-checked by the proven checker: hypotheses hold => behaviour kept."""
    cases = [(name, ps, g, hyp, chg) for (name, ps, g, hyp, chg) in GROUP_WITNESSES]
    for k in range(n):
        g = chain_ggraph(run.rng) if k % 4 == 3 else random_ggraph(run.rng)
        cases.append((f"random{k}", "group", g, None, None))
        cases.append((f"random{k}", "invert", g, None, None))
    reqs = [{"g": g, "pass": ps} for (_n, ps, g, _h, _c) in cases]
    chunk = 40
    chunks = [reqs[i:i + chunk] for i in range(0, len(reqs), chunk)]
    outs = pool.map("harness.impl_decomp:group_on_graphs", chunks, timeout=90)
    real: list[Any] = []
    for ch, o in zip(chunks, outs):
        real += o if isinstance(o, list) else [None] * len(ch)
    # second round: invert_branches on what the REAL group_branches produced (multi-ifs being inverted)
    extra = [(name + "+invert", "invert", a, None, None) for (name, ps, _g, _h, _c), a in zip(cases, real)
             if ps == "group" and isinstance(a, dict) and "error" not in a and any(v.get("multi") for v in a["vs"])]
    if extra:
        ereqs = [{"g": g, "pass": ps} for (_n, ps, g, _h, _c) in extra]
        echunks = [ereqs[i:i + chunk] for i in range(0, len(ereqs), chunk)]
        for ch, o in zip(echunks, pool.map("harness.impl_decomp:group_on_graphs", echunks, timeout=90)):
            real += o if isinstance(o, list) else [None] * len(ch)
        cases += extra
        reqs += ereqs
    model = drv.batch_parallel([dict(r, op="decomp.group") for r in reqs], jobs)
    mism = 0
    for (name, ps, g, exp_hyp, exp_chg), a, b in zip(cases, real, model):
        if a is None:
            cnt["group_tie:impl_no_answer"] += 1
            continue
        b = dict(b)
        facts = {k: b.pop(k, None) for k in ("hyp", "verdict", "bridge_ok", "bridge")}
        shape = "raises:" + a["error"] if "error" in a else ("ok:changes" if (a["vs"], a["es"]) != (_norm_vs(g["vs"]), g["es"]) else "ok")
        cnt[f"group_tie:{ps}:{shape}"] += 1
        if a != b:
            mism += 1
            if mism <= 2:
                run.broken_tie(f"correspondence {ps}_branches on a hand-built graph: model and implementation disagree",
                               {"channel": "decomp.group", "case": name, "pass": ps, "g": g, "impl": a, "model": b})
            continue
        if "error" in a:
            continue
        changed = facts["verdict"] in ("differ", "check-rejected", "silent-right", "budget")
        cnt[f"group_tie:{ps}:hypotheses_" + ("hold" if facts["hyp"] else "fail") + (":behaviour_changed" if changed else "")] += 1
        if facts["hyp"] and facts["verdict"] != "equiv" and facts["verdict"] != "silent-left":
            run.broken_tie(f"{ps}Branches_preserves contradicted by the proven checker on a hand-built graph", {"channel": "decomp.group", "case": name, "pass": ps, "g": g, "facts": facts})
        if facts["bridge_ok"] and facts["bridge"] not in ("equiv", "silent-left"):
            run.broken_tie("stepB_agrees contradicted by the proven checker on a hand-built graph", {"channel": "decomp.group", "case": name, "g": g, "facts": facts})
        if exp_hyp is not None and (facts["hyp"] != exp_hyp or (exp_chg is not None and changed != exp_chg)):
            run.broken_tie(f"witness {name} of a Lean theorem does not replay on the real {ps}_branches", {"channel": "decomp.group", "case": name, "impl": a, "facts": facts})
    return mism


def _norm_vs(vs: list) -> list:
    """a hand-built vertex list in the form _bgraph dumps it (all keys present)"""
    out = []
    for v in vs:
        d = dict(v)
        d.setdefault("mops", [])
        d.setdefault("not", False)
        d["multi"] = bool(d["mops"])
        out.append(d)
    return out


def strip_ops(rs: dict) -> list:
    return [[{"off": o["off"], "name": o["name"], "params": o["params"]} for o in r] for r in rs["ops"]]


def front_channels(run: core.Run, pool: core.Pool, drv: core.Driver, sets: list[dict], jobs: int, wellformed_only: bool = True) -> dict:
    """returns statistics; reports ties through run.broken_tie and behavioural failures through run.violation
    (kind front:*), with the routine set as replay"""
    cnt: Counter = Counter()
    chunk = 20
    args = [{"rs": s["rs"]} for s in sets]
    chunks = [args[i:i + chunk] for i in range(0, len(args), chunk)]
    outs = pool.map("harness.impl_decomp:front_many", chunks, timeout=90)
    real: list[Any] = []
    for ch, o in zip(chunks, outs):
        real += o if isinstance(o, list) else [None] * len(ch)
    wr_of = dwr.take(real)      # what the real writers made of the final graphs (compared by decomp_writer.writer_channels)
    # the answers of the heuristic search build_branches calls are an oracle input of the model: recorded from the real run
    model = drv.batch_parallel([dict({"op": "decomp.front", "rs": strip_ops(s["rs"])},
                                     **({"answers": a["answers"]} if isinstance(a, dict) and "answers" in a else {}),
                                     **({"sw_answers": a["sw_answers"]} if isinstance(a, dict) and "sw_answers" in a else {}),
                                     **dlp.oracle_args(a))
                                for s, a in zip(sets, real)], jobs)
    mism = 0
    vreqs, vidx = [], []
    answers_of: dict[int, Any] = {}
    sw_answers_of: dict[int, Any] = {}
    lp_oracle_of: dict[int, Any] = {}
    for i, (s, a, b) in enumerate(zip(sets, real, model)):
        if a is None:
            cnt["impl_no_answer"] += 1
            continue
        if "ft_marked" in a:
            lp_oracle_of[i] = dlp.count_loops(cnt, a)
        if "sw_answers" in a:
            sw_answers_of[i] = a.pop("sw_answers")
            dsw.count_switch(cnt, a, b, sw_answers_of[i])
        if "answers" in a:
            answers_of[i] = a.pop("answers")
            count_branches(cnt, a, answers_of[i])
            if isinstance(a["bb"], dict) and a["bb"].pop("oracle_raised", False) and isinstance(b.get("bb"), dict) and b["bb"].get("error") == "OracleExhausted":
                # the search itself raised: the model has no answer left at that call
                cnt["build_branches:search_raised"] += 1
                a["bb"] = b["bb"]
        cnt["stage:" + (a.get("stage") or "ok") + (":" + a["error"] if "error" in a else "")] += 1
        if a.get("has_calls"):
            cnt["has_calls"] += 1
        if any(v.get("k") == "foreign" for g in a.get("graphs", []) for v in g["vs"]):
            cnt["foreign_labels"] += 1
        if any(e[3] for g in a.get("graphs", []) for e in g["es"]):
            cnt["loop_edges"] += 1
        if a != b:
            mism += 1
            if mism <= 2:
                keys = [k for k in sorted(set(a) | set(b)) if a.get(k) != b.get(k)]
                run.broken_tie("correspondence decompiler front phases: model and implementation disagree on " + ",".join(keys),
                               {"channel": "decomp.front", "rs": s["rs"], "differs": keys,
                                "impl": {k: a.get(k) for k in keys}, "model": {k: b.get(k) for k in keys}})
        if a.get("stage") == "resolve":
            # the resolver runs outside convert()'s try: for a well-formed set this is an exception escaping the decompiler
            cnt["resolve_raises"] += 1
            run.violation("front:resolve_raises:" + a["error"], f"label resolution raises {a['error']} on a well-formed routine set (outside the try of convert())", {"rs": s["rs"]})
            continue
        if "graphs" in a:
            vreqs.append({"op": "decomp.validate", "rs": strip_ops(s["rs"]), "labels": a["labels"], "rtns": a["rtns"], "graphs": a["graphs"]})
            vidx.append(i)
    reps = drv.batch_parallel(vreqs, jobs)
    for i, rep in zip(vidx, reps):
        s = sets[i]
        if "error" in rep:
            cnt["validate_error"] += 1
            run.broken_tie("decomp.validate failed: " + str(rep["error"])[:200], {"channel": "decomp.validate", "rs": s["rs"]})
            continue
        for v in rep["resolver"]:
            cnt["resolver:" + v["verdict"]] += 1
            if v["verdict"] in ("differ", "check-rejected", "silent-right", "budget") or (v["verdict"] == "silent-left" and wellformed_only):
                run.violation("front:resolver_changes_behaviour", f"routine {v['r']}: the resolver's output (labels + label jumps) does not behave like the input: {v['verdict']} {v.get('why', '')} after test outcomes {v.get('path')}",
                              {"rs": s["rs"], "verdict": v, "labels": real[i]["labels"], "rtns": real[i]["rtns"]})
        for v in rep["graph"]:
            cnt["graph:" + v["verdict"] + ("" if v.get("guard") else ":unguarded")] += 1
            if v.get("guard") and (v["verdict"] in ("differ", "check-rejected", "silent-right", "budget") or (v["verdict"] == "silent-left" and wellformed_only)):
                run.violation("front:base_graph_changes_behaviour", f"routine {v['r']}: following the edges of the base graph does not behave like the routine: {v['verdict']} {v.get('why', '')} after test outcomes {v.get('path')}",
                              {"rs": s["rs"], "verdict": v, "graph": real[i]["graphs"][v["r"]]})
    # first rewriting phase (optimize_paths): the real graphs after it against the real base graphs
    oreqs, oidx = [], []
    for i, a in enumerate(real):
        if a and isinstance(a.get("opt"), list) and "graphs" in a:
            oreqs.append({"op": "decomp.validate_opt", "labels": a["labels"], "rtns": a["rtns"], "graphs": a["graphs"], "opt": a["opt"]})
            oidx.append(i)
        elif a and isinstance(a.get("opt"), dict):
            cnt["optimize_raises:" + a["opt"].get("error", "?")] += 1
    for i, rep in zip(oidx, drv.batch_parallel(oreqs, jobs)):
        if "error" in rep:
            cnt["validate_opt_error"] += 1
            run.broken_tie("decomp.validate_opt failed: " + str(rep["error"])[:200], {"channel": "decomp.validate_opt", "rs": sets[i]["rs"]})
            continue
        for v in rep["opt"]:
            changed = real[i]["graphs"][v["r"]] != real[i]["opt"][v["r"]]
            cnt["optimize:" + v["verdict"] + (":changed" if changed else "")] += 1
            if not v["graph_ok"]:
                cnt["base_graph_not_ok"] += 1
                run.broken_tie("a real base graph does not have the structure optimize_paths relies on (graphOk)", {"channel": "graphOk", "rs": sets[i]["rs"], "graph": real[i]["graphs"][v["r"]]})
            if v["no_silent_cycle"] and v["verdict"] != "equiv":
                run.violation("front:optimize_paths_changes_behaviour", f"routine {v['r']}: the graph after optimize_paths does not behave like the base graph: {v['verdict']} {v.get('why', '')} after test outcomes {v.get('path')}",
                              {"rs": sets[i]["rs"], "verdict": v, "base": real[i]["graphs"][v["r"]], "optimized": real[i]["opt"][v["r"]]})
            if v["guard"] and v["no_silent_cycle"] and v["readings"] != "equiv":
                run.broken_tie("positional and edge-based reading of a real base graph disagree", {"channel": "readings", "rs": sets[i]["rs"], "graph": real[i]["graphs"][v["r"]]})
    # second rewriting phase (build_branches): the real graphs after it against the real graphs after optimize_paths
    breqs, bidx = [], []
    for i, a in enumerate(real):
        if a and isinstance(a.get("bb"), list) and isinstance(a.get("opt"), list):
            breqs.append({"op": "decomp.validate_branches", "opt": a["opt"], "opt_names": a["opt_names"], "answers": answers_of.get(i, []), "bb": a["bb"]})
            bidx.append(i)
    for i, rep in zip(bidx, drv.batch_parallel(breqs, jobs)):
        if "error" in rep:
            cnt["validate_branches_error"] += 1
            run.broken_tie("decomp.validate_branches failed: " + str(rep["error"])[:200], {"channel": "decomp.validate_branches", "rs": sets[i]["rs"]})
            continue
        for v in rep["bb"]:
            tag = ":changed" if v["changed"] else ""
            cnt["build_branches:" + v["verdict"] + tag] += 1
            hyp = v["struct_ok"] and v["answers_ok"]
            cnt["build_branches:hypotheses_" + ("hold" if hyp else ("fail:" + ("" if v["struct_ok"] else "struct") + ("" if v["answers_ok"] else "answers"))) + tag] += 1
            # "silent-left": the graph before the phase has a reachable cycle of labels and Jumps only (outside the quantifier
            # of C02/C06; the checker does not decide such pairs)
            bad = v["verdict"] in ("differ", "check-rejected", "silent-right", "budget", "start-deleted") or (v["verdict"] == "silent-left" and v["no_silent_cycle"])
            if bad and hyp:
                # buildBranches_preserves says this cannot happen
                run.broken_tie("a real build_branches run that meets the hypotheses of buildBranches_preserves changes behaviour",
                               {"channel": "decomp.validate_branches", "rs": sets[i]["rs"], "verdict": v})
                run.violation("front:build_branches_changes_behaviour", f"routine {v['r']}: the real graph after build_branches does not behave like the real graph before it (the theorem's hypotheses hold: the pass no longer is the modelled one): {v['verdict']} {v.get('why', '')} after test outcomes {v.get('path')}",
                              {"rs": sets[i]["rs"], "verdict": v})
            elif bad:
                # NOTE (W5): COUNTED, not reported as run.violation("front:build_branches_changes_behaviour", ...), as the task
                # asks for real inputs on which the phase alone changes behaviour (later passes may repair them; the final text
                # is judged by C02's validation as before).  The first examples are kept in BB_EXAMPLES.
                cnt["front:build_branches_changes_behaviour"] += 1
                # (never seen on the unchanged tree in any run; a change of the pass that makes it happen is reported with the routine set)
                run.violation("front:build_branches_changes_behaviour", f"routine {v['r']}: the real graph after build_branches does not behave like the real graph before it: {v['verdict']} {v.get('why', '')} after test outcomes {v.get('path')}",
                              {"rs": sets[i]["rs"], "verdict": v})
                if len(BB_EXAMPLES) < 5:
                    BB_EXAMPLES.append({"rs": sets[i]["rs"], "verdict": v, "optimized": real[i]["opt"][v["r"]], "branches": real[i]["bb"][v["r"]], "answers": answers_of.get(i, [])[v["r"]]})
    # third and fourth rewriting phase (group_branches, invert_branches): outcomes, then the REAL graph after each pass against
    # the REAL graph before it under the flag-based reading stepB, and the bridge stepE / stepB on the real graph after build_branches
    greqs, gidx = [], []
    for i, a in enumerate(real):
        if not a or not isinstance(a.get("bb"), list):
            continue
        for k in ("gb", "ib"):
            if k in a:
                cnt[("group_branches:" if k == "gb" else "invert_branches:") + ("raises:" + a[k].get("error", "?") if isinstance(a[k], dict) else "ok")] += 1
        if isinstance(a.get("gb"), list):
            if any(v.get("multi") for g in a["gb"] for v in g["vs"]):
                cnt["group_branches:builds_multi_if"] += 1
            if any(len(v.get("mops") or []) > 1 for g in a["gb"] for v in g["vs"]):
                cnt["group_branches:builds_multi_if_of_3_or_more"] += 1
        if isinstance(a.get("ib"), list) and any(v.get("not") for g in a["ib"] for v in g["vs"]):
            cnt["invert_branches:inverts"] += 1
            if any(v.get("not") and v.get("multi") for g in a["ib"] for v in g["vs"]):
                cnt["invert_branches:inverts_multi_if"] += 1
        greqs.append(dict({"op": "decomp.validate_group", "bb": a["bb"]}, **{k: a[k] for k in ("gb", "ib") if isinstance(a.get(k), list)}))
        gidx.append(i)
    for i, rep in zip(gidx, drv.batch_parallel(greqs, jobs)):
        if "error" in rep:
            cnt["validate_group_error"] += 1
            run.broken_tie("decomp.validate_group failed: " + str(rep["error"])[:200], {"channel": "decomp.validate_group", "rs": sets[i]["rs"]})
            continue
        for v in rep["routines"]:
            r = v["r"]
            for phase, thm, hyps in (("bridge", "stepB_agrees_after_buildBranches", ("bridge_ok",)), ("group", "groupBranches_preserves", ("struct_ok", "del_ok")),
                                     ("invert", "invertBranches_preserves", ("struct_ok",))):
                w = v.get(phase)
                if w is None:
                    continue
                tag = ":changed" if w.get("changed") else ""
                cnt[f"{phase}:{w['verdict']}{tag}"] += 1
                hyp = all(w[h] for h in hyps)
                cnt[f"{phase}:hypotheses_" + ("hold" if hyp else "fail:" + "+".join(h for h in hyps if not w[h])) + tag] += 1
                # "silent-left": a reachable cycle of labels and Jumps only in the graph before (outside the quantifier of C02/C06)
                bad = w["verdict"] in ("differ", "check-rejected", "silent-right", "budget", "start-deleted")
                if bad and hyp:
                    run.broken_tie(f"a real graph that meets the hypotheses of {thm} contradicts it ({phase}: {w['verdict']})",
                                   {"channel": "decomp.validate_group", "rs": sets[i]["rs"], "routine": r, "verdict": w})
                    run.violation(f"front:{phase}_changes_behaviour", f"routine {r}: the real graph after the {phase} step does not behave like the real graph before it (the theorem's hypotheses hold: the pass no longer is the modelled one): {w['verdict']} {w.get('why', '')} after test outcomes {w.get('path')}",
                                  {"rs": sets[i]["rs"], "routine": r, "verdict": w})
                elif bad:
                    # COUNTED only (like front:build_branches_changes_behaviour): later passes / the writer may compensate; the final
                    # text is judged by C02's validation as before.  First examples kept in GB_EXAMPLES.
                    cnt[f"front:{phase}_changes_behaviour"] += 1
                    run.violation(f"front:{phase}_changes_behaviour", f"routine {r}: the real graph after the {phase} step does not behave like the real graph before it: {w['verdict']} {w.get('why', '')} after test outcomes {w.get('path')}",
                                  {"rs": sets[i]["rs"], "routine": r, "verdict": w})
                    if len(GB_EXAMPLES) < 6:
                        GB_EXAMPLES.append({"phase": phase, "rs": sets[i]["rs"], "routine": r, "verdict": w,
                                            "before": real[i]["bb" if phase != "invert" else "gb"][r],
                                            "after": real[i][{"bridge": "bb", "group": "gb", "invert": "ib"}[phase]][r]})
    # fifth and sixth rewriting phase (build_and_group_switch_cases, group_switch_cases): harness/decomp_switch.py
    mism += dsw.switch_channels(run, pool, drv, sets, real, sw_answers_of, jobs, cnt)
    # seventh to ninth rewriting phase (build_switch_fallthroughs, build_loops, remove_label_markers): harness/decomp_loops.py
    mism += dlp.loop_channels(run, pool, drv, sets, real, lp_oracle_of, jobs, cnt)
    # the write handlers on the final graphs (statement tree of the text): harness/decomp_writer.py
    mism += dwr.writer_channels(run, pool, drv, sets, real, wr_of, jobs, cnt)
    mism += branches_graph_tie(run, pool, drv, 400, jobs, cnt)
    mism += group_graph_tie(run, pool, drv, 300, jobs, cnt)
    # environment model: igraph incident-edge order
    st = pool.map("harness.impl_decomp:igraph_order_selftest", [{"seed": run.seed, "n": 150}], timeout=60)[0]
    if not isinstance(st, dict) or st.get("bad"):
        run.broken_tie("environment model of igraph (incident-edge order / id compaction) does not match the installed igraph", {"channel": "igraph", "result": st})
    cnt["igraph_selftest_graphs"] = st.get("graphs", 0) if isinstance(st, dict) else 0
    return {"sets": len(sets), "model_vs_real_mismatches": mism, "outcomes": dict(cnt)}


def replay_front(rs: dict) -> list[str]:
    """re-run both channels on one routine set; returns failure descriptions"""
    from . import impl_decomp
    core.lean_prepare([], need_driver=True)
    drv = core.Driver()
    a = impl_decomp.front({"rs": rs})
    out = []
    if a.get("stage") == "resolve":
        return [f"label resolution raises {a['error']}"]
    if "graphs" in a:
        rep = drv.batch([{"op": "decomp.validate", "rs": strip_ops(rs), "labels": a["labels"], "rtns": a["rtns"], "graphs": a["graphs"]}])[0]
        for v in rep.get("resolver", []):
            if v["verdict"] not in ("equiv",):
                out.append(f"resolver routine {v['r']}: {v['verdict']}")
        for v in rep.get("graph", []):
            if v.get("guard") and v["verdict"] not in ("equiv",):
                out.append(f"graph routine {v['r']}: {v['verdict']}")
    if isinstance(a.get("bb"), list) and isinstance(a.get("opt"), list):
        rep = drv.batch([{"op": "decomp.validate_branches", "opt": a["opt"], "opt_names": a["opt_names"], "answers": a["answers"], "bb": a["bb"]}])[0]
        for v in rep.get("bb", []):
            if v["verdict"] != "equiv" and v["no_silent_cycle"]:
                out.append(f"build_branches routine {v['r']}: {v['verdict']}")
    return out
