"""Front phases of the ExplorerScript decompiler (label resolution + base control-flow graph) - the part of the decompiler
that IS modelled (lean/ESV/Decomp/Model.lean) and proved correct for all inputs (lean/ESV/Props/DecompFront.lean).

Two channels, used by C02 and C06 on the routine sets they generate anyway:

  tie        exact comparison of the model's labels / interleaved routines / base graphs (vertex list, edge list with flow
             levels and loop flags, exception classes) with what the running Python code builds (harness/impl_decomp.py);
             plus the environment model of igraph's incident-edge order, re-measured on random graphs
  validate   the REAL labels / routines / graphs are given meaning by the Lean semantics (ESV/Decomp/Sem.lean) and
             validated against the input routine set on the SSB machine by the proven checker (validate_sound): a front-phase
             change that alters behaviour is reported with the input it breaks on, whatever it does to the data structures
"""
from __future__ import annotations

from collections import Counter
from typing import Any

from . import core

MODULES = ["ESV.Props.DecompFront", "ESV.Props.DecompOpt"]
THEOREMS = ["ESV.DecompFront.resolve_total", "ESV.DecompFront.resolve_preserves", "ESV.DecompFront.baseGraph_preserves",
            "ESV.DecompFront.resolve_names", "ESV.DecompFront.baseGraph_ok", "ESV.DecompFront.edge_reading_agrees",
            "ESV.DecompFront.optimizePaths_preserves", "ESV.DecompFront.front_phases_preserve"]


def strip_ops(rs: dict) -> list:
    return [[{"off": o["off"], "name": o["name"], "params": o["params"]} for o in r] for r in rs["ops"]]


def front_channels(run: core.Run, pool: core.Pool, drv: core.Driver, sets: list[dict], jobs: int, wellformed_only: bool = True) -> dict:
    """returns statistics; reports ties through run.broken_tie and behavioural failures through run.violation
    (kind front:*), with the routine set as replay"""
    cnt: Counter = Counter()
    chunk = 20
    args = [{"rs": s["rs"]} for s in sets]
    chunks = [args[i:i + chunk] for i in range(0, len(args), chunk)]
    outs = pool.map("harness.impl_decomp:front_many", chunks, timeout=90)
    real: list[Any] = []
    for ch, o in zip(chunks, outs):
        real += o if isinstance(o, list) else [None] * len(ch)
    model = drv.batch_parallel([{"op": "decomp.front", "rs": strip_ops(s["rs"])} for s in sets], jobs)
    mism = 0
    vreqs, vidx = [], []
    for i, (s, a, b) in enumerate(zip(sets, real, model)):
        if a is None:
            cnt["impl_no_answer"] += 1
            continue
        cnt["stage:" + (a.get("stage") or "ok") + (":" + a["error"] if "error" in a else "")] += 1
        if a.get("has_calls"):
            cnt["has_calls"] += 1
        if any(v.get("k") == "foreign" for g in a.get("graphs", []) for v in g["vs"]):
            cnt["foreign_labels"] += 1
        if any(e[3] for g in a.get("graphs", []) for e in g["es"]):
            cnt["loop_edges"] += 1
        if a != b:
            mism += 1
            if mism <= 2:
                keys = [k for k in sorted(set(a) | set(b)) if a.get(k) != b.get(k)]
                run.broken_tie("correspondence decompiler front phases: model and implementation disagree on " + ",".join(keys),
                               {"channel": "decomp.front", "rs": s["rs"], "differs": keys,
                                "impl": {k: a.get(k) for k in keys}, "model": {k: b.get(k) for k in keys}})
        if a.get("stage") == "resolve":
            # the resolver runs outside convert()'s try: for a well-formed set this is an exception escaping the decompiler
            cnt["resolve_raises"] += 1
            run.violation("front:resolve_raises:" + a["error"], f"label resolution raises {a['error']} on a well-formed routine set (outside the try of convert())", {"rs": s["rs"]})
            continue
        if "graphs" in a:
            vreqs.append({"op": "decomp.validate", "rs": strip_ops(s["rs"]), "labels": a["labels"], "rtns": a["rtns"], "graphs": a["graphs"]})
            vidx.append(i)
    reps = drv.batch_parallel(vreqs, jobs)
    for i, rep in zip(vidx, reps):
        s = sets[i]
        if "error" in rep:
            cnt["validate_error"] += 1
            run.broken_tie("decomp.validate failed: " + str(rep["error"])[:200], {"channel": "decomp.validate", "rs": s["rs"]})
            continue
        for v in rep["resolver"]:
            cnt["resolver:" + v["verdict"]] += 1
            if v["verdict"] in ("differ", "check-rejected", "silent-right", "budget") or (v["verdict"] == "silent-left" and wellformed_only):
                run.violation("front:resolver_changes_behaviour", f"routine {v['r']}: the resolver's output (labels + label jumps) does not behave like the input: {v['verdict']} {v.get('why', '')} after test outcomes {v.get('path')}",
                              {"rs": s["rs"], "verdict": v, "labels": real[i]["labels"], "rtns": real[i]["rtns"]})
        for v in rep["graph"]:
            cnt["graph:" + v["verdict"] + ("" if v.get("guard") else ":unguarded")] += 1
            if v.get("guard") and (v["verdict"] in ("differ", "check-rejected", "silent-right", "budget") or (v["verdict"] == "silent-left" and wellformed_only)):
                run.violation("front:base_graph_changes_behaviour", f"routine {v['r']}: following the edges of the base graph does not behave like the routine: {v['verdict']} {v.get('why', '')} after test outcomes {v.get('path')}",
                              {"rs": s["rs"], "verdict": v, "graph": real[i]["graphs"][v["r"]]})
    # first rewriting phase (optimize_paths): the real graphs after it against the real base graphs
    oreqs, oidx = [], []
    for i, a in enumerate(real):
        if a and isinstance(a.get("opt"), list) and "graphs" in a:
            oreqs.append({"op": "decomp.validate_opt", "labels": a["labels"], "rtns": a["rtns"], "graphs": a["graphs"], "opt": a["opt"]})
            oidx.append(i)
        elif a and isinstance(a.get("opt"), dict):
            cnt["optimize_raises:" + a["opt"].get("error", "?")] += 1
    for i, rep in zip(oidx, drv.batch_parallel(oreqs, jobs)):
        if "error" in rep:
            cnt["validate_opt_error"] += 1
            run.broken_tie("decomp.validate_opt failed: " + str(rep["error"])[:200], {"channel": "decomp.validate_opt", "rs": sets[i]["rs"]})
            continue
        for v in rep["opt"]:
            changed = real[i]["graphs"][v["r"]] != real[i]["opt"][v["r"]]
            cnt["optimize:" + v["verdict"] + (":changed" if changed else "")] += 1
            if not v["graph_ok"]:
                cnt["base_graph_not_ok"] += 1
                run.broken_tie("a real base graph does not have the structure optimize_paths relies on (graphOk)", {"channel": "graphOk", "rs": sets[i]["rs"], "graph": real[i]["graphs"][v["r"]]})
            if v["no_silent_cycle"] and v["verdict"] != "equiv":
                run.violation("front:optimize_paths_changes_behaviour", f"routine {v['r']}: the graph after optimize_paths does not behave like the base graph: {v['verdict']} {v.get('why', '')} after test outcomes {v.get('path')}",
                              {"rs": sets[i]["rs"], "verdict": v, "base": real[i]["graphs"][v["r"]], "optimized": real[i]["opt"][v["r"]]})
            if v["guard"] and v["no_silent_cycle"] and v["readings"] != "equiv":
                run.broken_tie("positional and edge-based reading of a real base graph disagree", {"channel": "readings", "rs": sets[i]["rs"], "graph": real[i]["graphs"][v["r"]]})
    # environment model: igraph incident-edge order
    st = pool.map("harness.impl_decomp:igraph_order_selftest", [{"seed": run.seed, "n": 150}], timeout=60)[0]
    if not isinstance(st, dict) or st.get("bad"):
        run.broken_tie("environment model of igraph (incident-edge order / id compaction) does not match the installed igraph", {"channel": "igraph", "result": st})
    cnt["igraph_selftest_graphs"] = st.get("graphs", 0) if isinstance(st, dict) else 0
    return {"sets": len(sets), "model_vs_real_mismatches": mism, "outcomes": dict(cnt)}


def replay_front(rs: dict) -> list[str]:
    """re-run both channels on one routine set; returns failure descriptions"""
    from . import impl_decomp
    core.lean_prepare([], need_driver=True)
    drv = core.Driver()
    a = impl_decomp.front({"rs": rs})
    out = []
    if a.get("stage") == "resolve":
        return [f"label resolution raises {a['error']}"]
    if "graphs" in a:
        rep = drv.batch([{"op": "decomp.validate", "rs": strip_ops(rs), "labels": a["labels"], "rtns": a["rtns"], "graphs": a["graphs"]}])[0]
        for v in rep.get("resolver", []):
            if v["verdict"] not in ("equiv",):
                out.append(f"resolver routine {v['r']}: {v['verdict']}")
        for v in rep.get("graph", []):
            if v.get("guard") and v["verdict"] not in ("equiv",):
                out.append(f"graph routine {v['r']}: {v['verdict']}")
    return out
