"""Implementation adapter for the LAST step of ExplorerScriptSsbDecompiler.convert() (run inside workers): the write handlers
(decompiler/write_handlers/*) on the REAL final graphs, i.e. on the very grapher object whose graphs impl_decomp.front has just
dumped (so that the recorded oracles and the graphs the writers see belong to one run).

`write_on(arg, grapher)` repeats the statements of convert() that follow `remove_label_markers()` - the loop over
`zip(routine_infos, grapher.get_graphs())` with `RoutineWriteHandler(...).write_content()` and the check "Labels … are jumped to,
but were not written" - on a fresh decompiler object, catches what convert() would catch, and returns
  {"text": …} | {"error": class},  plus
  "core": lower_program(astdump(text)) | None (+ "ast_error"),   the core program the text denotes (harness/gen/surface.py)
  "convert": {"fallback": bool, "same_text": bool}                convert() end to end on the same routine set, for comparison
"""
from __future__ import annotations

import copy
from typing import Any

from . import rsjson
from .gen.surface import PERF_VAR

DMODE = ("DMODE_CLOSE", "DMODE_OPEN", "DMODE_REQUEST", "DMODE_OPEN_AND_REQUEST")


def write_on(arg: dict, grapher: Any) -> dict:
    from explorerscript.ssb_converting.ssb_decompiler import ExplorerScriptSsbDecompiler
    from explorerscript.ssb_converting.ssb_data_types import DungeonModeConstants
    from explorerscript.ssb_converting.decompiler.write_handlers.routine import RoutineWriteHandler
    from explorerscript.source_map import SourceMapBuilder
    from . import astdump
    from .gen import surface
    infos, ops, coros = rsjson.rs_from_json(arg["rs"])
    dec = ExplorerScriptSsbDecompiler(infos, ops, coros, arg.get("perf", PERF_VAR), DungeonModeConstants(*DMODE))
    # the state convert() sets up before its try
    dec._output = ""
    dec.indent = 0
    dec.labels_already_printed = []
    dec.labels_jumped_to = set()
    dec._line_number = 1
    dec.smb = SourceMapBuilder()
    out: dict = {}
    try:
        for r_id, (r_info, r_graph) in enumerate(zip(infos, grapher.get_graphs())):
            RoutineWriteHandler(dec, r_id, r_info, r_graph).write_content()
        missing = dec.labels_jumped_to.difference(dec.labels_already_printed)
        if len(missing) > 0:
            raise ValueError("missing labels")
        out["text"] = dec._output
    except Exception as e:  # noqa  (what convert() catches)
        out["error"] = type(e).__name__
    if "text" in out:
        try:
            ast = astdump.strip_hints(astdump.dump_text(out["text"]))
            out["core"] = surface.lower_program(ast)
        except BaseException as e:  # noqa
            out["core"] = None
            out["ast_error"] = type(e).__name__ + ": " + str(e)[:160]
    # convert() end to end on the same input: it must agree with the statements repeated above
    try:
        infos2, ops2, coros2 = rsjson.rs_from_json(arg["rs"])
        text2, _sm = ExplorerScriptSsbDecompiler(infos2, ops2, coros2, arg.get("perf", PERF_VAR), DungeonModeConstants(*DMODE)).convert()
        fb = "is-ssb-script" in text2.split("\n", 1)[0]
        out["convert"] = {"fallback": fb, "same_text": (not fb) and text2 == out.get("text")}
    except BaseException as e:  # noqa
        out["convert"] = {"error": type(e).__name__}
    return out


def table_selftest(_arg: Any = None) -> dict:
    """the operator tables of the lowering (surface.py) are the inverse of the notations the writers print"""
    from explorerscript.ssb_converting.ssb_data_types import SsbOperator, SsbCalcOperator
    from .gen import surface
    bad = []
    for o in SsbOperator:
        if surface.OPERATORS.get(o.notation) != o.value:
            bad.append(("operator", o.name))
    for o in SsbCalcOperator:
        if surface.CALC_OPERATORS.get(o.notation) != o.value:
            bad.append(("calc", o.name))
    if len(surface.OPERATORS) != len(SsbOperator) or len(surface.CALC_OPERATORS) != len(SsbCalcOperator):
        bad.append(("size", ""))
    return {"bad": bad, "perf": PERF_VAR}


def write_on_graph_set(arg: dict) -> dict:
    """graph-level tie: the REAL write handlers on hand-built igraph graphs (one per routine, in the JSON form of
    impl_decomp._lgraph; built by impl_decomp._hand_built).  arg: {"gs": [graph], "infos": [...], "coros": [...]}"""
    import time
    from explorerscript.ssb_converting.ssb_decompiler import ExplorerScriptSsbDecompiler
    from explorerscript.ssb_converting.ssb_data_types import DungeonModeConstants
    from explorerscript.ssb_converting.decompiler.write_handlers.routine import RoutineWriteHandler
    from explorerscript.source_map import SourceMapBuilder
    from . import astdump, impl_decomp
    from .gen import surface
    infos, _ops, coros = rsjson.rs_from_json({"infos": arg["infos"], "coros": arg["coros"], "ops": [[] for _ in arg["infos"]]})
    graphs = [impl_decomp._hand_built(g)[0] for g in arg["gs"]]
    dec = ExplorerScriptSsbDecompiler(infos, [[] for _ in infos], coros, arg.get("perf", PERF_VAR), DungeonModeConstants(*DMODE))
    dec._output = ""
    dec.indent = 0
    dec.labels_already_printed = []
    dec.labels_jumped_to = set()
    dec._line_number = 1
    dec.smb = SourceMapBuilder()
    out: dict = {}
    t0 = time.time()
    try:
        for r_id, (r_info, r_graph) in enumerate(zip(infos, graphs)):
            RoutineWriteHandler(dec, r_id, r_info, r_graph).write_content()
        missing = dec.labels_jumped_to.difference(dec.labels_already_printed)
        if len(missing) > 0:
            raise ValueError("missing labels")
        out["text"] = dec._output
    except Exception as e:  # noqa
        out["error"] = type(e).__name__
    out["secs"] = round(time.time() - t0, 3)
    if "text" in out:
        try:
            ast = astdump.strip_hints(astdump.dump_text(out["text"]))
            out["core"] = surface.lower_program(ast)
        except BaseException as e:  # noqa
            out["core"] = None
            out["ast_error"] = type(e).__name__ + ": " + str(e)[:160]
    return out


def write_on_graph_sets(args: list[dict]) -> list[dict]:
    return [write_on_graph_set(a) for a in args]
