"""Trace validation for the memo-table model (C11, C12): turns the event log recorded by harness/impl_cache.py into
requests for the Lean driver (`cache.replay`, `cache.replay_mt`), and compares the machine's outputs with what the
real code did, section by section."""
from __future__ import annotations

from collections import Counter
from typing import Any


def to_model(events: list[list]) -> dict:
    """events -> section-level history.
    ops[i]   : OP of the Lean machine (alloc/mutate/clear/lookup/store/drop)
    tids[i]  : thread that performed it (a drop is attributed to the owner of the graph)
    expect[i]: what the real code returned at that section: ["val", r, hit] | ["miss"] | None (no output expected)
    rc       : [[version, key, arg, result]] — what `_impl` computed on that graph version (from the misses)
    cuts     : op indices at which a new call starts"""
    ops: list[list] = []
    tids: list[int] = []
    at: dict[int, int] = {}              # event index -> op index
    expect: dict[int, list] = {}
    cuts: list[int] = []
    rc: dict[tuple, str] = {}
    problems: list[str] = []
    queries: list[dict] = []
    version: dict[int, int] = {}
    for ei, e in enumerate(events):
        tid, kind = e[0], e[1]
        if kind == "call":
            if ops:
                cuts.append(len(ops))
        elif kind == "alloc":
            at[ei] = len(ops); ops.append(["alloc", e[2], e[3]]); tids.append(tid); version[e[2]] = e[3]
        elif kind == "mutate":
            at[ei] = len(ops); ops.append(["mutate", e[2], e[3]]); tids.append(tid); version[e[2]] = e[3]
        elif kind == "drop":
            at[ei] = len(ops); ops.append(["drop", e[2]]); tids.append(e[3] if len(e) > 3 else tid)
        elif kind == "sec":
            if e[2] == "clear":
                at[ei] = len(ops); ops.append(["clear", e[3]]); tids.append(tid)
            elif e[2] in ("lookup", "store"):
                at[ei] = len(ops); ops.append([e[2], e[3], e[4], e[5]]); tids.append(tid)
            else:
                problems.append(f"lock section outside the wrapped functions at event {ei}")
        elif kind == "query":
            _, _, gid, key, arg, ver, returned, oracle, hit, origin, sec_idx, nested = e
            q = {"gid": gid, "key": key, "arg": arg, "version": ver, "returned": returned, "oracle": oracle, "hit": hit,
                 "origin": origin, "nested": nested, "tid": tid, "stale": returned != oracle}
            queries.append(q)
            if hit != (len(sec_idx) == 1) or len(sec_idx) not in (1, 2):
                problems.append(f"query with {len(sec_idx)} locked sections, hit={hit} (event {ei})")
                continue
            lk = at.get(sec_idx[0])
            if lk is None:
                problems.append(f"lookup section of query at event {ei} not found")
                continue
            q["op_lookup"] = lk
            if hit:
                expect[lk] = ["val", returned, True]
            else:
                expect[lk] = ["miss"]
                stx = at.get(sec_idx[1])
                if stx is None:
                    problems.append(f"store section of query at event {ei} not found")
                    continue
                q["op_store"] = stx
                expect[stx] = ["val", returned, False]
                k3 = (ver, key, arg)
                if k3 in rc and rc[k3] != returned:
                    problems.append(f"_impl returned two different values for one graph version/key/args: {k3}")
                rc[k3] = returned
        elif kind == "query_exc":
            sec_idx = e[7]
            if len(sec_idx) != 1 or at.get(sec_idx[0]) is None:
                problems.append(f"query that raised {e[6]} with {len(sec_idx)} locked sections (event {ei})")
            else:
                expect[at[sec_idx[0]]] = ["miss"]
            queries.append({"gid": e[2], "key": e[3], "arg": e[4], "version": e[5], "returned": "EXC:" + e[6], "oracle": "EXC:" + e[6], "hit": False,
                            "origin": None, "nested": e[8], "tid": tid, "stale": False, "raised": e[6]})
        elif kind in ("compute", "clear"):
            pass
        else:
            problems.append(f"unknown event kind {kind}")
    return {"ops": ops, "tids": tids, "expect": expect, "cuts": cuts, "rc": [[k[0], k[1], k[2], v] for k, v in rc.items()],
            "problems": problems, "queries": queries}


def replay_request(m: dict) -> dict:
    return {"op": "cache.replay", "history": m["ops"], "rc": m["rc"], "cuts": m["cuts"]}


def replay_mt_request(m: dict) -> dict:
    progs: dict[int, list] = {}
    for op, t in zip(m["ops"], m["tids"]):
        progs.setdefault(t, []).append(op)
    return {"op": "cache.replay_mt", "progs": [[t, p] for t, p in sorted(progs.items())], "sched": m["tids"], "rc": m["rc"]}


def compare_outs(m: dict, outs: list) -> list[str]:
    """model outputs (sequential replay) vs the real sections"""
    bad = []
    if len(outs) != len(m["ops"]):
        return [f"model answered {len(outs)} outputs for {len(m['ops'])} ops"]
    for i, (op, o) in enumerate(zip(m["ops"], outs)):
        exp = m["expect"].get(i)
        if op[0] in ("lookup", "store"):
            if exp is None:
                bad.append(f"op {i} {op}: section without a recorded query result")
            elif o != exp:
                bad.append(f"op {i} {op}: model {o}, implementation {exp}")
        elif o != ["ok"]:
            bad.append(f"op {i} {op}: model {o}")
    return bad


def compare_events(m: dict, evs: list) -> list[str]:
    """model events (threaded replay under the recorded schedule) vs the real sections"""
    bad = []
    if len(evs) != len(m["ops"]):
        return [f"model answered {len(evs)} events for {len(m['ops'])} sections"]
    for i, (op, t, ev) in enumerate(zip(m["ops"], m["tids"], evs)):
        exp = m["expect"].get(i)
        if op[0] in ("lookup", "store"):
            if exp is None:
                bad.append(f"step {i} {op}: section without a recorded query result")
            elif exp[0] == "miss":
                if ev != ["missed", t]:
                    bad.append(f"step {i} thread {t} {op}: model {ev}, implementation miss")
            elif not (ev[0] == "val" and ev[1] == t and ev[5] == exp[1] and ev[7] == exp[2]):
                bad.append(f"step {i} thread {t} {op}: model {ev}, implementation {exp}")
        elif ev != ["ok", t]:
            bad.append(f"step {i} thread {t} {op}: model {ev}")
    return bad


def stale_report(m: dict) -> dict:
    """the real-code staleness oracle: a query whose returned value differs from the uncached recomputation"""
    c: Counter = Counter()
    examples: list[dict] = []
    for q in m["queries"]:
        c["queries"] += 1
        c["hits"] += q["hit"]
        c["nested"] += bool(q["nested"])
        if q["hit"] and q["origin"] is not None:
            if not q["origin"]["same_object"]:
                c["hits_from_dead_graph"] += 1
            elif not q["origin"]["same_version"]:
                c["hits_across_mutation"] += 1
        if q["stale"]:
            if q["hit"] and q["origin"] is not None and not q["origin"]["same_object"]:
                kind = "stale_from_dead_graph"
            elif q["hit"]:
                kind = "stale_within_graph"
            else:
                kind = "computed_differs_from_uncached"      # a miss whose nested queries were answered from the table
            c[kind] += 1
            if len(examples) < 5:
                examples.append(dict(q, kind=kind))
    return {"counts": dict(c), "examples": examples}
