"""One-shot worker processes: every task runs in a NEW python process (harness/worker.py) that is killed afterwards, so the
process-wide state of the implementation at the start of the task is exactly that of a fresh interpreter (C11: reference
runs and sessions; C12: every schedule)."""
from __future__ import annotations

import json
import os
import select
import subprocess
import time
from concurrent.futures import ThreadPoolExecutor
from typing import Any

from . import core


def run_fresh(fn: str, arg: Any, timeout: float = 60.0, hashseed: str = "0", mem_mb: int = 3000) -> Any:
    env = dict(os.environ)
    env["VERIF_REPO"] = core.REPO
    env["VERIF_MEM_MB"] = str(mem_mb)
    env[core.GUARD] = "1"
    if hashseed == "random":
        env.pop("PYTHONHASHSEED", None)
    else:
        env["PYTHONHASHSEED"] = hashseed
    p = subprocess.Popen([core.PY, os.path.join(core.ROOT, "harness", "worker.py")], stdin=subprocess.PIPE, stdout=subprocess.PIPE,
                         stderr=subprocess.DEVNULL, text=True, env=env, cwd=core.ROOT, bufsize=1)
    try:
        assert p.stdin is not None and p.stdout is not None
        try:
            p.stdin.write(json.dumps({"fn": fn, "arg": arg}) + "\n")
            p.stdin.flush()
        except BrokenPipeError:
            return {"__died__": True, "rc": p.poll()}
        deadline = time.time() + timeout
        buf = ""
        fd = p.stdout.fileno()
        while True:
            left = deadline - time.time()
            if left <= 0:
                return {"__timeout__": True}
            rl, _, _ = select.select([fd], [], [], min(left, 0.5))
            if rl:
                chunk = os.read(fd, 1 << 20).decode("utf-8", "replace")
                if not chunk:
                    return {"__died__": True, "rc": p.wait()}
                buf += chunk
                if "\n" in buf:
                    line = buf.split("\n", 1)[0]
                    try:
                        return json.loads(line)
                    except Exception:
                        return {"__garbled__": line[:300]}
    finally:
        try:
            p.kill()
            p.wait()
        except Exception:
            pass


def run_fresh_many(tasks: list[tuple], jobs: int, timeout: float = 60.0) -> list[Any]:
    """tasks: (fn, arg) or (fn, arg, hashseed); results in order"""
    def one(t: tuple) -> Any:
        return run_fresh(t[0], t[1], timeout, t[2] if len(t) > 2 else "0")
    if not tasks:
        return []
    with ThreadPoolExecutor(max(1, jobs)) as ex:
        return list(ex.map(one, tasks))


def failed(r: Any) -> bool:
    return isinstance(r, dict) and any(k in r for k in ("__timeout__", "__died__", "__exc__", "__garbled__"))


def tree_stamp() -> str:
    """fingerprint of the implementation's source files (path, mtime, size): a run whose references and sessions saw different
    trees proves nothing either way"""
    import hashlib
    h = hashlib.sha256()
    base = os.path.join(core.REPO, "explorerscript")
    for dp, dn, fns in sorted(os.walk(base)):
        dn.sort()
        for fn in sorted(fns):
            if fn.endswith(".py"):
                st = os.stat(os.path.join(dp, fn))
                h.update(f"{os.path.relpath(os.path.join(dp, fn), base)}:{st.st_mtime_ns}:{st.st_size};".encode())
    return h.hexdigest()[:16]
