"""SsbScript text -> statement AST (JSON), by walking the parse tree of the repository's own SsbScript parser.
Trusted glue of the C07/C06 correspondence: the Lean model works on this AST, the real compiler on the text.
Literal values are read with the repository's own literal functions (the literal layer is property C04).

  AST     = [ROUTINE...]
  ROUTINE = {"hdr": HDR, "body": null (alias previous) | [STMT...]}
  HDR     = {"k":"def","id":int} | {"k":"coro","name":str} | {"k":"for","id":int,"word":str,"target": int|str}
            word: the identifier after `for`, or the legacy token for_actor/for_object/for_performer
            target: int when exps_int accepts the token text, else the token text
  STMT    = {"l": name} | {"op": name, "args": [ARG...]}
  ARG     = PARAM (harness/ssbjson.py) | {"j": label name}
"""
from __future__ import annotations

from typing import Any


class AstDumpError(Exception):
    pass


def parse(text: str) -> Any:
    from antlr4 import InputStream, CommonTokenStream
    from explorerscript.antlr.SsbScriptLexer import SsbScriptLexer
    from explorerscript.antlr.SsbScriptParser import SsbScriptParser
    from explorerscript.syntax_error_listener import SyntaxErrorListener
    lexer = SsbScriptLexer(InputStream(text))
    lexer.removeErrorListeners()
    parser = SsbScriptParser(CommonTokenStream(lexer))
    parser.removeErrorListeners()
    el = SyntaxErrorListener()
    parser.addErrorListener(el)
    tree = parser.start()
    if len(el.syntax_errors) > 0:
        raise AstDumpError("ParseError: " + str(el.syntax_errors[0]))
    return tree


def _arg(a: Any) -> Any:
    from explorerscript.util import exps_int
    from explorerscript.common_syntax import parse_position_marker_arg
    from explorerscript.ssb_converting.compiler.utils import singleline_string_literal, string_literal
    from explorerscript.ssb_converting.ssb_data_types import SsbOpParamFixedPoint
    il = a.integer_like()
    if il is not None:
        if il.INTEGER():
            return exps_int(str(il.INTEGER()))
        if il.DECIMAL():
            return {"fx": SsbOpParamFixedPoint.from_str(str(il.DECIMAL())).value}
        if il.IDENTIFIER():
            return {"c": str(il.IDENTIFIER())}
        if il.VARIABLE():
            return {"c": str(il.VARIABLE())}
        raise AstDumpError("integer_like without token")
    st = a.string()
    if st is not None:
        sv = st.string_value()
        if sv:
            return {"s": string_literal(sv)}
        d: dict[str, str] = {}
        for la in st.lang_string().lang_string_argument():
            d[str(la.IDENTIFIER())] = string_literal(la.string_value())
        return {"ls": [[k, v] for k, v in d.items()]}
    pm = a.position_marker()
    if pm is not None:
        name = singleline_string_literal(pm.STRING_LITERAL())
        args = pm.position_marker_arg()
        if len(args) != 2:
            raise AstDumpError("position marker without two arguments")
        xr, xo = parse_position_marker_arg(args[0])
        yr, yo = parse_position_marker_arg(args[1])
        return {"pm": [name, xo, yo, xr, yr]}
    jm = a.jump_marker()
    if jm is not None:
        return {"j": str(jm.IDENTIFIER())}
    raise AstDumpError("empty pos_argument")


def _stmt(s: Any) -> dict:
    op = s.operation()
    if op is not None:
        if op.inline_ctx() is not None:
            raise AstDumpError("inline context in SsbScript operation (not part of the AST)")
        al = op.arglist()
        return {"op": str(op.IDENTIFIER()), "args": [_arg(a) for a in al.pos_argument()] if al is not None else []}
    lb = s.label()
    if lb is None:
        raise AstDumpError("empty stmt")
    return {"l": str(lb.IDENTIFIER())}


def _body(fs: Any) -> Any:
    if fs.func_alias() is not None:
        return None
    return [_stmt(s) for s in fs.stmt()]


def dump_tree(tree: Any) -> list:
    from explorerscript.util import exps_int
    out = []
    for fd in tree.funcdef():
        if fd.simple_def() is not None:
            d = fd.simple_def()
            hdr: dict = {"k": "def", "id": exps_int(str(d.INTEGER()))}
        elif fd.coro_def() is not None:
            d = fd.coro_def()
            hdr = {"k": "coro", "name": str(d.IDENTIFIER())}
        else:
            d = fd.for_target_def()
            tgt = d.for_target_def_target()
            word = str(tgt.FOR_TARGET()) if tgt.FOR_TARGET() is not None else str(tgt.IDENTIFIER())
            il = str(d.integer_like().children[0])
            try:
                target: Any = exps_int(il)
            except ValueError:
                target = il
            hdr = {"k": "for", "id": exps_int(str(d.INTEGER())), "word": word, "target": target}
        out.append({"hdr": hdr, "body": _body(d.func_suite())})
    return out


def astdump(text: str) -> list:
    return dump_tree(parse(text))
