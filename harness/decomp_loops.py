"""The passes build_switch_fallthroughs / build_loops / remove_label_markers of the ExplorerScript decompiler (model
lean/ESV/Decomp/Loops.lean, semantics SemL.lean, theorems lean/ESV/Props/DecompLoops.lean): oracle plumbing and coverage counters of
the routine-level tie (the exact comparison itself is part of decomp_front.front_channels: keys "fl", "bl", "rl"), per-input
validation of the REAL graphs with the proven checker (`decomplp.validate`), and the graph-level tie on hand-built igraph graphs
(`decomplp.pass` / impl_decomp.loops_on_graph)."""
from __future__ import annotations

from collections import Counter
from typing import Any

from . import core
from . import decomp_switch as dsw

MODULES = ["ESV.Props.DecompLoops"]
THEOREMS = ["ESV.DecompFront.stepL_agrees", "ESV.DecompFront.buildSwitchFallthroughs_preserves", "ESV.DecompFront.buildLoops_preserves",
            "ESV.DecompFront.buildLoops_preserves_from_stepS", "ESV.DecompFront.removeLabelMarkers_preserves",
            "ESV.DecompFront.front_through_graph_phase_preserve", "ESV.Decomp.Lp.ltsPL_equiv_ltsL", "ESV.Decomp.Lp.stepPL_raised",
            "ESV.Decomp.buildLoops_continue_target_counterexample", "ESV.Decomp.buildLoops_context_counterexample",
            "ESV.Decomp.buildLoops_levels_counterexample", "ESV.Decomp.removeLabelMarkers_raise_counterexample",
            "ESV.Decomp.removeLabelMarkers_start_vertex_counterexample", "ESV.Decomp.removeLabelMarkers_context_counterexample",
            "ESV.Decomp.removeLabelMarkers_levels_counterexample"]

LP_EXAMPLES: list[dict] = []   # first real inputs on which one of the three passes alone changes behaviour under stepL (counted only)
ORACLE_KEYS = ("ft_marked", "lp_records")


def oracle_args(a: Any) -> dict:
    """the oracle inputs of the model for the three passes, taken from the real run `a` (impl_decomp.front)"""
    d: dict = {}
    if not isinstance(a, dict):
        return d
    for k in ORACLE_KEYS:
        if k in a:
            d[k] = a[k]
    if isinstance(a.get("fl"), dict):
        d["ft_raised"] = a["fl"]["error"]        # the whole pass is decision code
    if isinstance(a.get("bl"), dict) and "decision" in a["bl"]:
        d["lp_raised"] = [a["bl"]["decision"], a["bl"]["error"]]
    return d


def count_loops(cnt: Counter, a: dict) -> dict:
    """coverage of the routine-level tie of the three passes; pops the oracle keys from `a` (returned)"""
    orc = {k: a.pop(k) for k in ORACLE_KEYS if k in a}
    fl, bl, rl = a.get("fl"), a.get("bl"), a.get("rl")
    if isinstance(fl, dict):
        cnt["fallthroughs:raises:" + fl.get("error", "?")] += 1
    elif isinstance(fl, list):
        cnt["fallthroughs:ok"] += 1
        n = sum(len(x) for x in orc.get("ft_marked", []))
        if n:
            cnt["fallthroughs:marks"] += 1
            cnt["fallthroughs:labels_marked"] += n
        if any(len(set(x)) < len(x) for x in orc.get("ft_marked", [])):
            cnt["fallthroughs:label_marked_twice"] += 1
    if isinstance(bl, dict):
        if "decision" in bl:
            bl.pop("decision")
            cnt["build_loops:decision_raised:" + bl.get("error", "?")] += 1
        cnt["build_loops:raises:" + bl.get("error", "?")] += 1
    elif isinstance(bl, list):
        cnt["build_loops:ok"] += 1
        if any(v.get("syn") for g in bl for v in g["vs"]):
            cnt["build_loops:inserts_vertices"] += 1
        for g in bl:
            for v in g["vs"]:
                if v.get("syn"):
                    cnt["build_loops:inserted:" + ("break" if v.get("fb") is not None else "continue") + ":" + v["k"]] += 1
                elif v.get("fb") is not None or v.get("fc") is not None:
                    cnt["build_loops:marked_jump:" + ("break" if v.get("fb") is not None else "continue")] += 1
                if v.get("fe"):
                    cnt["build_loops:forever_end"] += 1
    for per_graph in orc.get("lp_records", []):
        cnt["build_loops:graphs_with_%s_loops" % (len(per_graph) if len(per_graph) < 3 else "3+")] += 1
        for r in per_graph:
            cnt["build_loops:loop:breaks_%s:continues_%s" % (min(len(r[1]), 3), min(len(r[2]), 3))] += 1
    if isinstance(rl, dict):
        cnt["remove_labels:raises:" + rl.get("error", "?")] += 1
    elif isinstance(rl, list):
        cnt["remove_labels:ok"] += 1
        if isinstance(bl, list):
            if any(len(g["vs"]) != len(o["vs"]) for g, o in zip(rl, bl)):
                cnt["remove_labels:deletes_vertices"] += 1
            if any(v.get("fw") for g in rl for v in g["vs"]):
                cnt["remove_labels:force_write"] += 1
    return orc


def loop_channels(run: core.Run, pool: core.Pool, drv: core.Driver, sets: list[dict], real: list, oracle_of: dict, jobs: int, cnt: Counter) -> int:
    """per-input validation of the REAL graphs of the three passes with the proven checker (REAL graph after each pass vs REAL graph
    before it, stepS / stepL), hypotheses of the theorems evaluated on the real graphs; then the graph-level tie.
    Returns the number of model/real mismatches of the graph-level tie."""
    reqs, idx = [], []
    for i, a in enumerate(real):
        if not a or not isinstance(a.get("gs"), list):
            continue
        orc = oracle_of.get(i, {})
        reqs.append(dict({"op": "decomplp.validate", "gs": a["gs"], "labels": a["labels"], "lp_records": orc.get("lp_records", [])},
                         **{k: a[k] for k in ("fl", "bl", "rl") if isinstance(a.get(k), list)}))
        idx.append(i)
    for i, rep in zip(idx, drv.batch_parallel(reqs, jobs)):
        if "error" in rep:
            cnt["validate_loops_error"] += 1
            run.broken_tie("decomplp.validate failed: " + str(rep["error"])[:200], {"channel": "decomplp.validate", "rs": sets[i]["rs"]})
            continue
        for v in rep["routines"]:
            r = v["r"]
            for phase, thm, hyps in (("fall", "buildSwitchFallthroughs_preserves", ()), ("loops", "buildLoops_preserves", ("records_ok", "no_syn")),
                                     ("remove", "removeLabelMarkers_preserves", ("remove_ok",))):
                w = v.get(phase)
                if w is None:
                    continue
                key = {"fall": "fallthroughs", "loops": "build_loops", "remove": "remove_labels"}[phase]
                tag = ":changed" if w.get("changed") else ""
                cnt[f"{key}:{w['verdict']}{tag}"] += 1
                hyp = all(w[h] for h in hyps)
                cnt[f"{key}:hypotheses_" + ("hold" if hyp else "fail:" + "+".join(h for h in hyps if not w[h])) + tag] += 1
                for extra in ("det_ok", "raise_ok", "jumps_ok", "det1_ok", "labels_ok"):
                    if extra in w and not w[extra]:
                        cnt[f"{key}:not_{extra}"] += 1
                if phase == "remove":
                    for q in ("jumps_bypassed", "jumps_deleted", "labels_bypassed", "labels_deleted"):
                        cnt[f"{key}:{q}"] += w.get(q, 0)
                # "silent-left": a reachable cycle of labels and Jumps only in the graph before (outside the quantifier of C02/C06)
                bad = w["verdict"] in ("differ", "check-rejected", "silent-right", "budget", "start-deleted")
                if bad and hyp:
                    run.broken_tie(f"a real graph that meets the hypotheses of {thm} contradicts it ({phase}: {w['verdict']})",
                                   {"channel": "decomplp.validate", "rs": sets[i]["rs"], "routine": r, "verdict": w})
                    run.violation(f"front:{key}_changes_behaviour", f"routine {r}: the real graph after the {phase} pass does not behave like the real graph before it (the theorem's hypotheses hold: the pass no longer is the modelled one): {w['verdict']} {w.get('why', '')} after test outcomes {w.get('path')}",
                                  {"rs": sets[i]["rs"], "routine": r, "verdict": w})
                elif bad:
                    # COUNTED only (like front:build_branches_changes_behaviour): the writer may compensate; the final text is judged by
                    # C02's validation as before.  First examples kept in LP_EXAMPLES.
                    cnt[f"front:{key}_changes_behaviour"] += 1
                    if phase != "remove":
                        # (remove_label_markers does change the reading of a Call whose fall-through leads to a by-passed Jump on the
                        #  unchanged tree - raiseOk, DESIGN 9.1 - and convert() then falls back: counted; the other passes never do)
                        run.violation(f"front:{key}_changes_behaviour", f"routine {r}: the real graph after the {phase} pass does not behave like the real graph before it: {w['verdict']} {w.get('why', '')} after test outcomes {w.get('path')}",
                                      {"rs": sets[i]["rs"], "routine": r, "verdict": w})
                    if len(LP_EXAMPLES) < 8:
                        before = {"fall": "gs", "loops": "fl", "remove": "bl"}[phase]
                        after = {"fall": "fl", "loops": "bl", "remove": "rl"}[phase]
                        LP_EXAMPLES.append({"phase": phase, "rs": sets[i]["rs"], "routine": r, "verdict": w, "before": real[i][before][r],
                                            "after": real[i][after][r], "records": (oracle_of.get(i, {}).get("lp_records") or [[]] * (r + 1))[r]})
    return loops_graph_tie(run, pool, drv, 300, jobs, cnt)


# ---------------------------------------------------------------------------------------------------------------------------
# graph-level tie: hand-built igraph graphs

def _v(n: Any, item: dict, **kw: Any) -> dict:
    d = dict(item, n=n, ifs=None, ife=[], mops=[], multi=False, sws=None, swe=[], ft=False, fs=None, fe=[], fb=None, fc=None, fw=False, syn=False)
    d["not"] = False
    d.update(kw)
    return d


_lj, _opv, _lab, _e = dsw._lj, dsw._opv, dsw._lab, dsw._e


def _w(*vs: dict) -> list:
    return [_v(None if d.get("_kw", {}).get("syn") else i, d, **d.pop("_kw", {})) for i, d in enumerate(vs)]


def _k(item: dict, **kw: Any) -> dict:
    return dict(item, _kw=kw)


DEFAULTS = {"ifs": None, "ife": [], "mops": [], "multi": False, "sws": None, "swe": [], "ft": False, "fs": None, "fe": [], "fb": None, "fc": None,
            "fw": False, "syn": False, "not": False}


def _norm(g: dict) -> dict:
    """a hand-built graph in the form _lgraph dumps it (all keys present, "multi" derived, no "ref")"""
    vs = []
    for v in g["vs"]:
        d = dict(DEFAULTS)
        d.update({k: x for k, x in v.items() if k != "ref"})
        d["multi"] = bool(d["mops"])
        vs.append(d)
    return {"vs": vs, "es": [list(e) + [[]] * (6 - len(e)) for e in g["es"]]}


def _fix_refs(g: dict) -> dict:
    """`referenced_from_other_routine` is a property of the label id (the model looks it up in the resolver's label table)"""
    seen: dict = {}
    for v in g["vs"]:
        if v["k"] == "label" and not v.get("syn"):
            v["ref"] = seen.setdefault(v["id"], bool(v.get("ref")))
    return g


def labels_of(g: dict) -> list:
    """the resolver's label table as far as remove_label_markers reads it: [offset, id, routine, referenced_from_other_routine]"""
    return [[0, v["id"], 0, bool(v.get("ref"))] for v in g["vs"] if v["k"] == "label" and not v.get("syn")]


def _eL(s: int, t: int, lv: int = 0) -> list:
    return _e(s, t, lv, False, None, True)


def _ifv(off: int, name: str, ifs: int) -> dict:
    return _k(_lj(off, name), ifs=ifs)


# the witnesses of lean/ESV/Decomp/LpCounter.lean / lean/ESV/Props/DecompLoops.lean, replayed on the real passes (build_loops: the
# decision part replaced by the witness' constructions): (name, pass, graph, oracle, hypotheses hold, behaviour changes)
LP_WITNESSES: list[tuple] = [
    ("exLoop", "loops", {"vs": _w(_lab(1), _opv(0, "Foo"), _ifv(1, "Branch", 0), _opv(2, "Bar"), _lj(3, "Jump"), _lab(2), _opv(4, "Baz")),
                         "es": [_e(0, 1), _e(1, 2), _e(2, 5, 1), _e(2, 3, 0, True), _e(3, 4), _eL(4, 0, 1), _e(5, 6)]}, {"records": [[0, [2], [5]]]}, True, False),
    ("cexLpCont", "loops", {"vs": _w(_lab(1), _opv(1, "Foo"), _lab(2), _opv(2, "Bar"), _opv(3, "Return"), _opv(4, "Dead")),
                            "es": [_e(0, 1), _e(1, 2), _e(2, 3), _e(3, 4), _eL(5, 2)]}, {"records": [[2, [], [0]]]}, False, True),
    ("cexLpCtx", "loops", {"vs": _w(_lab(1), _ifv(0, "lives", 0), _opv(1, "Return"), _opv(2, "Foo"), _opv(3, "Dead")),
                           "es": [_e(0, 1), _e(1, 2, 1), _e(1, 3, 0, True), _eL(4, 0)]}, {"records": [[0, [1], [3]]]}, False, True),
    ("cexLpLvl", "loops", {"vs": _w(_lab(1), _opv(0, "Foo"), _opv(1, "Bar"), _opv(2, "Qux"), _opv(3, "Dead")),
                           "es": [_e(0, 1), _e(1, 2), _e(1, 3), _eL(4, 0)]}, {"records": [[0, [1], [3]]]}, False, True),
    ("exRemove", "remove", {"vs": _w(_opv(0, "Foo"), _lj(1, "Jump"), _lab(1), _opv(2, "Bar"), _lab(2), _opv(3, "Baz")),
                            "es": [_e(0, 1), _e(1, 2, 1), _e(2, 3), _e(3, 4), _e(4, 5)]}, None, True, False),
    ("cexRmRaise", "remove", {"vs": _w(_lj(0, "Call", 0, True), _lj(1, "Jump"), _lab(1), _opv(2, "Foo"), _lab(2), _opv(3, "Bar")),
                              "es": [_e(0, 1), _e(0, 2, 1), _e(1, 4, 1), _e(2, 3), _e(4, 5)]}, None, False, True),
    ("cexRmStart", "remove", {"vs": _w(_lj(0, "Jump"), _opv(1, "Qux"), _lab(1), _opv(2, "Foo"), _lj(3, "Branch")),
                              "es": [_e(0, 2, 1), _e(2, 3), _e(3, 4), _e(4, 0, 1)]}, None, False, True),
    ("cexRmCtx", "remove", {"vs": _w(_opv(0, "lives"), _lab(1), _opv(1, "Return")), "es": [_e(0, 1), _e(1, 2)]}, None, False, True),
    ("cexRmLvl", "remove", {"vs": _w(_opv(0, "Foo"), _lab(1), _opv(1, "Qux"), _opv(2, "Bar")), "es": [_e(0, 1), _e(0, 2), _e(1, 3)]}, None, False, True),
]

BRANCHES = ["Branch", "BranchBit", "BranchVariable"]


def loopy_lgraph(rnd: Any) -> dict:
    """a forever-loop as build_loops meets it - start label, body with ifs that break (jump behind the loop) or continue (jump back
    to the start), last op falling / jumping back - with random vertex kinds at the break / continue points (plain ops, labels,
    unmarked Jumps, Call jumps, ifs, multi-ifs, wrapped switches), nested loops, loop flags on the back edges, shuffled edge ids"""
    vs: list = []
    es: list = []

    def add(item: dict, **kw: Any) -> int:
        vs.append(_v(len(vs), item, **kw))
        return len(vs) - 1

    def body(start: int, after: int, depth: int) -> tuple[int, list]:
        """returns (first vertex, list of open ends (vertex, level) that fall through to what follows)"""
        first = None
        ends: list = []
        k = rnd.randint(1, 4)
        for _ in range(k):
            r = rnd.random()
            if r < 0.3:
                v = add(_opv(len(vs), rnd.choice(["Foo", "Bar", "Wait", "lives"])))
                nxt_ends = [(v, 0)]
            elif r < 0.6:
                # if (..) { break / continue / nothing }
                kind = rnd.choice(["break", "break", "continue", "plain"])
                mops = [{"off": 200 + len(vs), "name": "BranchBit", "params": []}] if rnd.random() < 0.15 else []
                v = add(_lj(len(vs), rnd.choice(BRANCHES), 0), ifs=len(vs), mops=mops)
                if kind == "plain":
                    w = add(_opv(len(vs), "Qux"))
                    es.append(_e(v, w, 1, False))
                    nxt_ends = [(v, 0), (w, 0)]
                    es_else = True
                else:
                    tgt = after if kind == "break" else start
                    via = rnd.random()
                    if via < 0.5:
                        j = add(_lj(len(vs), "Jump", 0))
                        es.append(_e(v, j, 1, False))
                        es.append(_e(j, tgt, 1, False, None, kind == "continue"))
                    elif via < 0.75:
                        w = add(_opv(len(vs), "Zap"))
                        es.append(_e(v, w, 1, False))
                        es.append(_e(w, tgt, 0, False, None, kind == "continue"))
                    else:
                        es.append(_e(v, tgt, 1, False, None, kind == "continue"))
                    nxt_ends = [(v, 0)]
                    es_else = True
                # the else flag goes onto the fall-through edge, added by the caller: remember it
                nxt_ends = [(x, lv, x == v and es_else) for (x, lv) in nxt_ends]
            elif r < 0.7 and depth < 1:
                # nested loop
                l2 = add(_lab(50 + len(vs)))
                a2 = add(_lab(70 + len(vs)))
                f2, e2 = body(l2, a2, depth + 1)
                es.append(_e(l2, f2, 0))
                for (x, lv, *fl) in e2:
                    es.append(_e(x, l2, lv, bool(fl and fl[0]), None, True))
                v = l2
                nxt_ends = [(a2, 0)]
            elif r < 0.8:
                v = add(_lj(len(vs), "Call", 0, True))
                w = add(_lab(90 + len(vs)))
                es.append(_e(v, w, 1))
                nxt_ends = [(v, 0), (w, 0)]
            elif r < 0.9:
                v = add(_opv(len(vs), "Switch"), sws=len(vs))
                w = add(_opv(len(vs), "Qux"))
                es.append(_e(v, w, 1, False, [[0, 0, {"off": 300 + len(vs), "name": "Case", "params": []}]]))
                nxt_ends = [(v, 0, True), (w, 0)]
            else:
                v = add(_lab(30 + len(vs)))
                nxt_ends = [(v, 0)]
            if first is None:
                first = v
            for (x, lv, *fl) in ends:
                es.append(_e(x, v, lv, bool(fl and fl[0])))
            ends = [t if len(t) == 3 else (t[0], t[1], False) for t in nxt_ends]
        return first, ends

    pre = add(_opv(0, "Pre"))
    start = add(_lab(1))
    after_pos = add(_lab(2))
    first, ends = body(start, after_pos, 0)
    es.append(_e(pre, start, 0))
    es.append(_e(start, first, 0))
    for (x, lv, fl) in ends:
        if rnd.random() < 0.8:
            j = add(_lj(len(vs), "Jump", 1)) if rnd.random() < 0.5 else None
            if j is not None:
                es.append(_e(x, j, lv, fl))
                es.append(_e(j, start, 1, False, None, True))
            else:
                es.append(_e(x, start, lv, fl, None, True))
        else:
            es.append(_e(x, after_pos, lv, fl))
    post = add(_opv(99, rnd.choice(["Post", "Return", "End"])))
    es.append(_e(after_pos, post, 0))
    if rnd.random() < 0.2:
        e = rnd.choice(es)
        e[3] = not e[3]
    if rnd.random() < 0.3:
        rnd.shuffle(es)
    return {"vs": vs, "es": es}


def random_lgraph(rnd: Any, purpose: str) -> dict:
    """a small random graph with every vertex kind the three passes can meet, and many they never meet: inserted (synthetic)
    vertices, loop / fall-through / force_write attributes already set, Jumps with several or no in- / out-edges, Jumps to ops, labels
    with id 0, labels referenced from other routines, foreign labels, dead Jumps and labels, loop flags anywhere"""
    n = rnd.randint(2, 9)
    vs = []
    jumpy = purpose == "remove"
    for i in range(n):
        r = rnd.random()
        if r < (0.3 if jumpy else 0.12):
            v = _v(i, _lj(i, "Jump", i), **({"fb": rnd.randint(0, 2)} if rnd.random() < 0.06 else ({"fc": 1} if rnd.random() < 0.04 else {})))
        elif r < (0.62 if jumpy else 0.4):
            lid = rnd.choice([0, i, i, i, i + 1])
            v = _v(i, _lab(lid), ref=rnd.random() < 0.12, fw=rnd.random() < 0.05, ft=rnd.random() < 0.04,
                   fs=(rnd.randint(0, 2) if rnd.random() < 0.08 else None), fe=([rnd.randint(0, 2)] if rnd.random() < 0.06 else []),
                   ife=([rnd.randint(0, 2)] if rnd.random() < 0.07 else []), swe=([0] if rnd.random() < 0.04 else []))
        elif r < 0.72:
            mops = [{"off": 200 + i, "name": "BranchBit", "params": []}] if rnd.random() < 0.2 else []
            v = _v(i, _lj(i, rnd.choice(BRANCHES), i), ifs=i, mops=mops, **{"not": rnd.random() < 0.2})
        elif r < 0.77:
            v = _v(i, _lj(i, rnd.choice(["Call", "CaseValue", "Branch"]), i, rnd.random() < 0.6))
        elif r < 0.82:
            v = _v(i, _opv(i, "Switch"), sws=i)
        elif r < 0.86:
            v = _v(None, {"k": "foreign", "id": i})
        elif r < 0.91:
            root = rnd.choice([_opv(i, rnd.choice(["Foo", "lives", "Jump"])), _lab(i), {"k": "foreign", "id": i}])
            v = _v(None, root, syn=True, **({"fb": rnd.randint(0, 2)} if rnd.random() < 0.5 else {"fc": rnd.randint(0, 2)}))
        else:
            v = _v(i, _opv(i, rnd.choice(["Foo", "Bar", "Return", "lives", "End", "Wait"])))
        vs.append(v)
    labels = [i for i, v in enumerate(vs) if v["k"] == "label" and not v["syn"]]
    es = []
    for i, v in enumerate(vs):
        if v["k"] == "foreign" and not v["syn"]:
            continue
        if v.get("sws") is not None:
            for ix in range(rnd.randint(0, 3)):
                es.append(_e(i, rnd.randrange(n), 1, False, [[0, ix, {"off": 100 + ix, "name": "Case", "params": []}]], rnd.random() < 0.1))
            if rnd.random() < 0.8:
                es.append(_e(i, rnd.randrange(n), 0, True))
        elif v.get("ifs") is not None:
            es.append(_e(i, rnd.randrange(n), 0, True, None, rnd.random() < 0.1))
            es.append(_e(i, rnd.choice(labels) if labels and rnd.random() < 0.5 else rnd.randrange(n), 1, False, None, rnd.random() < 0.1))
        elif v["k"] == "ljump" and v["name"] == "Jump":
            r = rnd.random()
            k = 1 if r < 0.85 else (0 if r < 0.9 else 2)
            for _ in range(k):
                es.append(_e(i, rnd.choice(labels) if labels and rnd.random() < 0.9 else rnd.randrange(n), 1, False, None, rnd.random() < 0.1))
        elif v["k"] == "ljump":
            es.append(_e(i, rnd.randrange(n), 0, False, None, rnd.random() < 0.1))
            if rnd.random() < 0.8:
                es.append(_e(i, rnd.choice(labels) if labels else rnd.randrange(n), 1, False, None, rnd.random() < 0.1))
        else:
            r = rnd.random()
            k = 1 if r < 0.85 else (0 if r < 0.93 else 2)
            for _ in range(k):
                es.append(_e(i, (i + 1) % n if rnd.random() < 0.6 else rnd.randrange(n), rnd.choice([0, 0, 0, 1]), False, None, rnd.random() < (0.2 if purpose == "loops" else 0.06)))
    if rnd.random() < 0.15 and es:
        es.append(list(rnd.choice(es)))
    rnd.shuffle(es)
    return _fix_refs({"vs": vs, "es": es})


def chain_lgraph(rnd: Any) -> dict:
    """chains `op -> Jump -> label -> Jump -> label -> op` as remove_label_markers meets them, with perturbations: second in-edges,
    loop flags, labels with markers / id 0 / referenced from elsewhere, a Call or Case in front of a Jump (the raised flow level
    meets an edge of the same level), dead Jumps and labels, shuffled numbering"""
    k = rnd.randint(2, 7)
    roles = []
    for i in range(k):
        roles.append(rnd.choice(["op", "jump", "label", "jump", "label", "call", "case", "if", "ctx", "syn"]))
    n = len(roles) + 2
    order = list(range(1, n))
    if rnd.random() < 0.4:
        rnd.shuffle(order)
    pos = [0] + order
    vs: list = [None] * n
    es = []
    vs[0] = _v(0, rnd.choice([_opv(0, "Pre"), _lab(7), _lj(0, "Jump", 3), _lab(0)]))
    for i, r in enumerate(roles):
        p = pos[i + 1]
        if r == "op":
            vs[p] = _v(p, _opv(p, rnd.choice(["Foo", "Bar", "Return"])))
        elif r == "ctx":
            vs[p] = _v(p, _opv(p, "lives"))
        elif r == "jump":
            vs[p] = _v(p, _lj(p, "Jump", p))
        elif r == "label":
            vs[p] = _v(p, _lab(p if rnd.random() < 0.93 else 0), ref=rnd.random() < 0.08, ife=([1] if rnd.random() < 0.08 else []),
                       fs=(0 if rnd.random() < 0.05 else None))
        elif r == "call":
            vs[p] = _v(p, _lj(p, "Call", p, True))
        elif r == "case":
            vs[p] = _v(p, _lj(p, "CaseValue", p))
        elif r == "if":
            vs[p] = _v(p, _lj(p, "Branch", p), ifs=p)
        else:
            vs[p] = _v(None, _opv(p, "Foo"), syn=True, fb=0)
    vs[pos[n - 1]] = _v(pos[n - 1], _opv(99, rnd.choice(["Post", "Return"])))
    for i in range(n - 1):
        a, b = pos[i], pos[i + 1]
        va = vs[a]
        lvl = 1 if va["k"] == "ljump" and va["name"] == "Jump" else 0
        es.append(_e(a, b, lvl, va.get("ifs") is not None, None, rnd.random() < 0.05))
        if va["k"] == "ljump" and va["name"] != "Jump":
            t = pos[rnd.randrange(n)]
            es.append(_e(a, t, 1, False, None, rnd.random() < 0.05))
    for _ in range(rnd.choice([0, 0, 1, 1, 2])):
        es.append(_e(pos[rnd.randrange(n)], pos[rnd.randrange(n)], rnd.choice([0, 1]), False, None, rnd.random() < 0.1))
    if rnd.random() < 0.25:
        # a dead Jump / label in front of something
        d = rnd.choice(["jump", "label"])
        vs.append(_v(len(vs), _lj(len(vs), "Jump", 1) if d == "jump" else _lab(40)))
        es.append(_e(len(vs) - 1, pos[rnd.randrange(n)], 1 if d == "jump" else 0))
    if rnd.random() < 0.3:
        rnd.shuffle(es)
    return _fix_refs({"vs": vs, "es": es})


def loops_graph_tie(run: core.Run, pool: core.Pool, drv: core.Driver, n: int, jobs: int, cnt: Counter) -> int:
    """graph-level tie of the three passes: model and real pass on hand-built graphs (the witnesses of the Lean counterexamples + n
    random graphs; build_loops half with the real decision code, half with a seeded policy in its place; remove_label_markers also
    on what the REAL build_loops produced; build_switch_fallthroughs on what the real switch passes produce).  On every graph the
    theorems' conclusion is re-checked by the proven checker: hypotheses hold => behaviour kept."""
    cases: list[tuple] = [(name, ps, g, orc, hyp, chg) for (name, ps, g, orc, hyp, chg) in LP_WITNESSES]
    for k in range(n):
        r = k % 6
        if r == 0:
            cases.append((f"loopy{k}", "loops", loopy_lgraph(run.rng), None, None, None))
        elif r == 1:
            cases.append((f"loopy{k}", "loops", loopy_lgraph(run.rng), {"forced": {"seed": run.rng.randrange(1 << 30)}}, None, None))
        elif r == 2:
            cases.append((f"random{k}", "loops", random_lgraph(run.rng, "loops"), {"forced": {"seed": run.rng.randrange(1 << 30)}}, None, None))
        elif r == 3:
            cases.append((f"chain{k}", "remove", chain_lgraph(run.rng), None, None, None))
        elif r == 4:
            cases.append((f"random{k}", "remove", random_lgraph(run.rng, "remove"), None, None, None))
        else:
            g = random_lgraph(run.rng, "fall")
            cases.append((f"random{k}", "fall", g, None, None, None))
            cases.append((f"random{k}", "loops", g, None, None, None))
    chunk = 40

    def run_real(rq: list) -> list:
        chunks = [rq[i:i + chunk] for i in range(0, len(rq), chunk)]
        out: list[Any] = []
        for ch, o in zip(chunks, pool.map("harness.impl_decomp:loops_on_graphs", chunks, timeout=120)):
            out += o if isinstance(o, list) else [None] * len(ch)
        return out

    # build_switch_fallthroughs needs what the switch passes build: structured switches through the REAL build / group passes first
    sw = [dsw.structured_sgraph(run.rng) for _ in range(max(4, n // 6))]
    sreq = [{"g": g, "pass": "build", "answers": ans} for g, ans in sw]
    schunks = [sreq[i:i + chunk] for i in range(0, len(sreq), chunk)]
    built: list[Any] = []
    for ch, o in zip(schunks, pool.map("harness.impl_decomp:switch_on_graphs", schunks, timeout=90)):
        built += o if isinstance(o, list) else [None] * len(ch)
    greq = [{"g": a, "pass": "group", "answers": []} for a in built if isinstance(a, dict) and "error" not in a]
    gchunks = [greq[i:i + chunk] for i in range(0, len(greq), chunk)]
    for ch, o in zip(gchunks, pool.map("harness.impl_decomp:switch_on_graphs", gchunks, timeout=90)):
        for k, a in enumerate(o if isinstance(o, list) else []):
            if isinstance(a, dict) and "error" not in a:
                cases.append((f"switch{k}", "fall", a, {"forced": {"seed": 0}} if k % 2 else None, None, None))
    reqs = [dict({"g": g, "pass": ps}, **({"forced": orc["forced"]} if isinstance(orc, dict) and "forced" in orc else {}),
                 **({"witness": orc} if isinstance(orc, dict) and "forced" not in orc else {})) for (_n, ps, g, orc, _h, _c) in cases]
    real = run_real(reqs)
    # second round: remove_label_markers on what the REAL build_loops produced
    extra = [(name + "+remove", "remove", {"vs": a["vs"], "es": a["es"]}, None, None, None) for (name, ps, _g, _o, _h, _c), a in zip(cases, real)
             if ps == "loops" and isinstance(a, dict) and "error" not in a]
    if extra:
        ereqs = [{"g": g, "pass": ps} for (_n, ps, g, _o, _h, _c) in extra]
        real += run_real(ereqs)
        cases += extra
        reqs += ereqs
    mreqs = []
    for rq, a in zip(reqs, real):
        m = {"op": "decomplp.pass", "g": rq["g"], "pass": rq["pass"], "labels": labels_of(rq["g"])}
        if isinstance(a, dict):
            if "lp_records" in a:
                m["lp_records"] = a["lp_records"]
            if "ft_marked" in a:
                m["ft_marked"] = a["ft_marked"]
            if "error" in a and (rq["pass"] == "fall" or "decision" in a):
                m["raised"] = a["error"]
        mreqs.append(m)
    model = drv.batch_parallel(mreqs, jobs)
    mism = 0
    for (name, ps, g, orc, exp_hyp, exp_chg), a, b in zip(cases, real, model):
        if a is None:
            cnt["loops_tie:impl_no_answer"] += 1
            continue
        a = dict(a)
        used = {k: a.pop(k) for k in ("lp_records", "ft_marked", "decision") if k in a}
        b = dict(b)
        facts = {k: b.pop(k, None) for k in ("hyp", "verdict", "remove_ok", "det_ok", "raise_ok", "jumps_ok", "det1_ok", "labels_ok",
                                             "jumps_bypassed", "jumps_deleted", "labels_bypassed", "labels_deleted")}
        ng = _norm(g)
        shape = "raises:" + a["error"] if "error" in a else ("ok:changes" if (a["vs"], a["es"]) != (ng["vs"], ng["es"]) else "ok")
        cnt[f"loops_tie:{ps}:{shape}"] += 1
        if ps == "loops" and "error" not in a:
            cnt[f"loops_tie:loops:records_{min(len(used.get('lp_records', [])), 3)}"] += 1
            if any(v["syn"] for v in a["vs"][len(g["vs"]):]):
                cnt["loops_tie:loops:inserts_vertices"] += 1
        if ps == "fall" and used.get("ft_marked"):
            cnt["loops_tie:fall:marks"] += 1
        if a != b:
            mism += 1
            if mism <= 2:
                run.broken_tie(f"correspondence {ps} (loops / labels) on a hand-built graph: model and implementation disagree",
                               {"channel": "decomplp.pass", "case": name, "pass": ps, "g": g, "oracle": used, "impl": a, "model": b})
            continue
        if "error" in a:
            continue
        changed = facts["verdict"] in ("differ", "check-rejected", "silent-right", "budget", "start-deleted")
        cnt[f"loops_tie:{ps}:hypotheses_" + ("hold" if facts["hyp"] else "fail") + (":behaviour_changed" if changed else "")] += 1
        if facts["hyp"] and facts["verdict"] not in ("equiv", "silent-left"):
            run.broken_tie(f"the theorem about {ps} (loops / labels) is contradicted by the proven checker on a hand-built graph",
                           {"channel": "decomplp.pass", "case": name, "pass": ps, "g": g, "oracle": used, "facts": facts})
        if exp_hyp is not None and (facts["hyp"] != exp_hyp or (exp_chg is not None and changed != exp_chg)):
            run.broken_tie(f"witness {name} of a Lean theorem does not replay on the real {ps} pass", {"channel": "decomplp.pass", "case": name, "impl": a, "facts": facts})
    return mism
