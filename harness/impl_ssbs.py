"""Implementation adapter for the SsbScript decompiler/compiler (runs inside a worker).
JSON formats: harness/ssbjson.py (routine sets), harness/astdump_ssbs.py (statement AST)."""
from __future__ import annotations

import contextlib
import io
import traceback
from typing import Any

from harness import ssbjson
from harness.astdump_ssbs import astdump


def _exc(e: BaseException) -> dict:
    return {"cls": type(e).__name__, "msg": str(e)[:300], "tb": traceback.format_exc()[-1200:]}


def compile_text(text: str) -> dict:
    """real SsbScriptSsbCompiler on `text` + the AST of `text` (parse tree walk)"""
    from explorerscript.ssb_script.ssb_converting.ssb_compiler import SsbScriptSsbCompiler
    r: dict = {}
    try:
        r["ast"] = astdump(text)
    except BaseException as e:  # noqa
        r["ast_exc"] = _exc(e)
    c = SsbScriptSsbCompiler()
    try:
        with contextlib.redirect_stderr(io.StringIO()):  # antlr's console listener
            c.compile(text)
        r["out"] = ssbjson.set_to_json(c.routine_infos, c.routine_ops, c.named_coroutines)
        # set_to_json pads coros to the routine count; keep the real length visible
        r["out"]["coros"] = [x if isinstance(x, str) else None for x in c.named_coroutines]
    except BaseException as e:  # noqa
        r["comp_exc"] = _exc(e)
    return r


def roundtrip(setj: dict) -> dict:
    from explorerscript.ssb_script.ssb_converting.ssb_decompiler import SsbScriptSsbDecompiler
    infos, ops, coros = ssbjson.set_from_json(setj)
    try:
        dec = SsbScriptSsbDecompiler(infos, ops, coros)
        text, _sm = dec.convert()
        # (the answer of a later convert() of the same decompiler object is an answer of the decompiler like the first:
        #  every third set is converted a second time and that text goes through the compiler)
        import zlib
        if zlib.crc32(repr(setj).encode()) % 3 == 0:
            text, _sm = dec.convert()
    except BaseException as e:  # noqa
        return {"dec_exc": _exc(e)}
    r = {"text": text}
    r.update(compile_text(text))
    return r


def run_cases(cases: list[dict]) -> list[dict]:
    """each case: {"set": SET} (decompile -> compile) or {"text": str} (compile only)"""
    out = []
    for c in cases:
        try:
            if "set" in c:
                out.append(roundtrip(c["set"]))
            else:
                out.append(compile_text(c["text"]))
        except BaseException as e:  # noqa
            out.append({"harness_exc": _exc(e)})
    return out
