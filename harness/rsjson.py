"""JSON form of SSB routine sets and conversion from/to the implementation's objects.

{"infos":[{"type":"GENERIC|ACTOR|OBJECT|PERFORMER|COROUTINE","linked_to":int,"linked_to_name":str|null}|null],
 "coros":[str|null], "ops":[[{"off":int,"name":str,"params":[PARAM]}]]}
PARAM = int | {"fx":"1.5"} | {"c":"CONST"} | {"s":"text"} | {"ls":[["lang","text"]]} | {"pm":[name,x_off,y_off,x_rel,y_rel]}
"""
from __future__ import annotations

from typing import Any


def param_to_json(p: Any) -> Any:
    from explorerscript.ssb_converting import ssb_data_types as dt
    if isinstance(p, bool):
        return int(p)
    if isinstance(p, int):
        return p
    if isinstance(p, dt.SsbOpParamFixedPoint):
        return {"fx": p.value}
    if isinstance(p, dt.SsbOpParamConstant):
        return {"c": p.name}
    if isinstance(p, dt.SsbOpParamConstString):
        return {"s": p.name}
    if isinstance(p, dt.SsbOpParamLanguageString):
        return {"ls": [[k, v] for k, v in p.strings.items()]}
    if isinstance(p, dt.SsbOpParamPositionMarker):
        return {"pm": [p.name, p.x_offset, p.y_offset, p.x_relative, p.y_relative]}
    return {"unknown": type(p).__name__ + ":" + repr(p)[:80]}


def param_from_json(j: Any) -> Any:
    from explorerscript.ssb_converting import ssb_data_types as dt
    if isinstance(j, int):
        return j
    if "fx" in j:
        o = dt.SsbOpParamFixedPoint(0, "0")
        o.value = j["fx"]
        return o
    if "c" in j:
        return dt.SsbOpParamConstant(j["c"])
    if "s" in j:
        return dt.SsbOpParamConstString(j["s"])
    if "ls" in j:
        return dt.SsbOpParamLanguageString({k: v for k, v in j["ls"]})
    if "pm" in j:
        return dt.SsbOpParamPositionMarker(*j["pm"])
    raise ValueError(j)


def ops_to_json(routine_ops: Any) -> list:
    out = []
    for r in routine_ops:
        row = []
        for op in r:
            cls = type(op).__name__
            d = {"off": op.offset, "name": op.op_code.name, "params": [param_to_json(p) for p in op.params]}
            if cls != "SsbOperation":
                d["cls"] = cls
            row.append(d)
        out.append(row)
    return out


def info_to_json(i: Any) -> Any:
    if i is None:
        return None
    return {"type": i.type.name, "linked_to": i.linked_to, "linked_to_name": i.linked_to_name}


def rs_to_json(infos: Any, ops: Any, coros: Any) -> dict:
    return {"infos": [info_to_json(i) for i in infos], "coros": [c if isinstance(c, str) else None for c in coros], "ops": ops_to_json(ops)}


def rs_from_json(j: dict) -> tuple:
    """-> (routine_infos, routine_ops, named_coroutines[list of SsbCoroutine])"""
    from explorerscript.ssb_converting import ssb_data_types as dt
    infos = [dt.SsbRoutineInfo(dt.SsbRoutineType[i["type"]], i["linked_to"], i.get("linked_to_name")) for i in j["infos"]]
    ops = [[dt.SsbOperation(o["off"], dt.SsbOpCode(-1, o["name"]), [param_from_json(p) for p in o["params"]]) for o in r] for r in j["ops"]]
    coros = [dt.SsbCoroutine(idx, name) for idx, name in enumerate(j["coros"]) if name is not None]
    return infos, ops, coros
