"""Implementation adapters of C03 (run inside workers): the ExplorerScript compiler with the macro resolution order
also reported when compilation fails, and the SsbScript round (decompile to SsbScript text, compile it)."""
from __future__ import annotations

from typing import Any

from . import impl_es, rsjson
from .gen.surface import PERF_VAR


def compile_ex(arg: dict) -> dict:
    """like impl_es.compile_text; on an error the result also carries "macro_order" (when the compiler got that far)"""
    from explorerscript.ssb_converting.ssb_compiler import ExplorerScriptSsbCompiler
    c = ExplorerScriptSsbCompiler(arg.get("perf", PERF_VAR), arg.get("lookup", []))
    try:
        c.compile(arg["text"], arg.get("file", "/nonexistent/main.exps"))
    except BaseException as e:  # noqa
        r = impl_es._exc(e)
        r["macro_order"] = list(c.macro_resolution_order)
        return r
    out = rsjson.rs_to_json(c.routine_infos, c.routine_ops, c.named_coroutines)
    out["macro_order"] = list(c.macro_resolution_order)
    out["lens"] = [len(c.routine_infos), len(c.named_coroutines), len(c.routine_ops)]
    out["shared_params"] = shared_params(c.routine_ops)
    return out


def compile_ex_many(args: list[dict]) -> list[dict]:
    return [compile_ex(a) for a in args]


def jump_table(_: Any = None) -> dict:
    """the PINNED specification table (lean/ESV/Beh/Spec.lean via harness/spec_tables.py): the oracle must not follow an
    edited OPS_WITH_JUMP_TO_MEM_OFFSET of the /repo under test (the tie of /repo's table to it is ESV.TableTie)"""
    from . import spec_tables
    return dict(spec_tables.OPS_WITH_JUMP)


def shared_params(routine_ops: Any) -> list:
    """[[offset, offset, ...]] for every params list OBJECT that more than one op of the result holds"""
    by_id: dict = {}
    for r in routine_ops:
        for op in r:
            by_id.setdefault(id(op.params), []).append(op.offset)
    return [offs for offs in by_id.values() if len(offs) > 1]


def ssbs_round(arg: dict) -> dict:
    """arg: {"rs": routine set json}: decompile to SsbScript with the real decompiler, compile the text with the real
    SsbScript compiler (through ExplorerScriptSsbCompiler is not needed: the text has no attribute header)."""
    from explorerscript.ssb_script.ssb_converting.ssb_decompiler import SsbScriptSsbDecompiler
    from explorerscript.ssb_script.ssb_converting.ssb_compiler import SsbScriptSsbCompiler
    infos, ops, coros = rsjson.rs_from_json(arg["rs"])
    try:
        text, _sm = SsbScriptSsbDecompiler(infos, ops, coros).convert()
    except BaseException as e:  # noqa
        r = impl_es._exc(e)
        r["stage"] = "decompile"
        return r
    c = SsbScriptSsbCompiler()
    try:
        c.compile(text)
    except BaseException as e:  # noqa
        r = impl_es._exc(e)
        r["stage"] = "compile"
        r["text"] = text
        return r
    out = rsjson.rs_to_json(c.routine_infos, c.routine_ops, c.named_coroutines)
    out["text"] = text
    out["lens"] = [len(c.routine_infos), len(c.named_coroutines), len(c.routine_ops)]
    return out


def ssbs_round_many(args: list[dict]) -> list[dict]:
    return [ssbs_round(a) for a in args]


def ssbs_compile(arg: dict) -> dict:
    from explorerscript.ssb_script.ssb_converting.ssb_compiler import SsbScriptSsbCompiler
    c = SsbScriptSsbCompiler()
    try:
        c.compile(arg["text"])
    except BaseException as e:  # noqa
        return impl_es._exc(e)
    out = rsjson.rs_to_json(c.routine_infos, c.routine_ops, c.named_coroutines)
    out["lens"] = [len(c.routine_infos), len(c.named_coroutines), len(c.routine_ops)]
    return out
