"""Implementation adapter for explorerscript.pygments.expslexer (runs inside a worker)."""
from __future__ import annotations

from typing import Any

_LEXER: Any = None
# the engine does not advance on an empty match: that many consecutive empty tokens are reported as non-termination
LIVELOCK_LIMIT = 1000


def lexer() -> Any:
    global _LEXER
    if _LEXER is None:
        from explorerscript.pygments.expslexer import ExplorerScriptLexer
        _LEXER = ExplorerScriptLexer()
    return _LEXER


def lex_texts(texts: list[str]) -> list[dict]:
    """for every text: tokens of get_tokens (with preprocessing) and of get_tokens_unprocessed (raw, with the
    start index the engine reports).  Token = [str(tokentype), value]."""
    lx = lexer()
    out = []
    for t in texts:
        r: dict = {}
        try:
            toks = []
            empty_run = 0
            for ty, v in lx.get_tokens(t):
                toks.append([str(ty), v])
                empty_run = empty_run + 1 if v == "" else 0
                if empty_run > LIVELOCK_LIMIT:
                    r["livelock"] = f"get_tokens: more than {LIVELOCK_LIMIT} consecutive empty tokens after {len(toks)} tokens"
                    break
            raw = []
            empty_run = 0
            if "livelock" not in r:
                for i, ty, v in lx.get_tokens_unprocessed(t):
                    raw.append((i, ty, v))
                    empty_run = empty_run + 1 if v == "" else 0
                    if empty_run > LIVELOCK_LIMIT:
                        r["livelock"] = f"get_tokens_unprocessed: more than {LIVELOCK_LIMIT} consecutive empty tokens at index {i}"
                        break
            if "livelock" in r:
                out.append(r)
                continue
            r["tokens"] = toks
            r["raw"] = [[str(ty), v] for _i, ty, v in raw]
            r["raw_idx"] = [i for i, _ty, _v in raw]
        except BaseException as e:  # noqa
            import traceback
            r["exc"] = type(e).__name__ + ": " + str(e)[:200]
            r["tb"] = traceback.format_exc()[-800:]
        out.append(r)
    return out


def match_cases(arg: dict) -> list:
    """unit channel: arg = {"state": s, "idx": i, "cases": [[text, pos], …]} → match length (or None) of the
    COMPILED regex object the lexer class really uses for rule i of state s (words() already through regex_opt)."""
    lx = lexer()
    rexmatch = lx._tokens[arg["state"]][arg["idx"]][0]
    out = []
    for text, pos in arg["cases"]:
        m = rexmatch(text, pos)
        out.append(None if m is None else m.end() - pos)
    return out


def rule_table(_arg: Any = None) -> dict:
    """the flattened rule table as gen_tables.py encodes it, plus the processed table's shape (for alignment)"""
    from harness.gen_tables import pyg_flat
    from explorerscript.pygments import expslexer as px
    lx = lexer()
    toks = px.ExplorerScriptLexer.tokens
    return {
        "flags": int(px.ExplorerScriptLexer.flags),
        "rules": {s: [list(r) for r in pyg_flat(toks, s)] for s in toks},
        "processed_len": {s: len(v) for s, v in lx._tokens.items()},
        "processed_pat": {s: [getattr(getattr(r[0], "__self__", None), "pattern", None) for r in v] for s, v in lx._tokens.items()},
    }


def compile_sources(srcs: list[dict]) -> list[dict]:
    """does the real compiler accept the source?  [{"src": text, "file": path|None}] → [{"ok": bool, "err": str}]"""
    import contextlib
    import io
    import os
    from explorerscript.ssb_converting.ssb_compiler import ExplorerScriptSsbCompiler
    out = []
    sink = io.StringIO()
    for s in srcs:
        try:
            f = s.get("file") or "/tmp/c17_virtual.exps"
            c = ExplorerScriptSsbCompiler("$PERFORMANCE_PROGRESS_LIST", [os.path.dirname(f)] if s.get("file") else [])
            with contextlib.redirect_stderr(sink), contextlib.redirect_stdout(sink):   # ANTLR's console error listener
                c.compile(s["src"], f)
            out.append({"ok": True})
        except BaseException as e:  # noqa
            out.append({"ok": False, "err": type(e).__name__ + ": " + str(e)[:150]})
        sink.seek(0)
        sink.truncate()
    return out
