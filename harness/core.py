"""Shared machinery of every check: paths, Lean build + audit, driver client, worker pool with
resource limits, verdict protocol (VIOLATION / KNOWN-FINDING / no-failing-input-found), evidence.

Everything is path-relative to this checkout; the implementation under test is $VERIF_REPO or /repo.
"""
from __future__ import annotations

import fcntl
import hashlib
import json
import os
import random
import re
import select
import subprocess
import sys
import time
from typing import Any, Callable, Iterable

ROOT = os.path.dirname(os.path.dirname(os.path.abspath(__file__)))
REPO = os.environ.get("VERIF_REPO", "/repo")
LEAN = os.path.join(ROOT, "lean")
PY = os.environ.get("VERIF_PY", "/venv/bin/python")
GUARD = "TECH_TICKS_EXPLORERSCRIPT_VERIF"
ALLOWED_AXIOMS = {"propext", "Classical.choice", "Quot.sound"}
FORBIDDEN = re.compile(r"\bsorry\b|\badmit\b|^axiom\s|native_decide|bv_decide|implemented_by|\bunsafe\s|maxHeartbeats\s+0\b")


class Infra(Exception):
    """infrastructure failure: exit 2, never a violation"""


def log(*a: Any) -> None:
    print(*a, flush=True)


def repo_state() -> dict:
    def git(*args: str) -> str:
        try:
            return subprocess.run(["git", "-C", REPO, *args], capture_output=True, text=True, timeout=30).stdout.strip()
        except Exception:
            return ""
    return {"head": git("rev-parse", "HEAD"), "dirty": [l for l in git("status", "--porcelain").splitlines() if l][:50]}


# ----------------------------------------------------------------------------------------------------------------------
# Lean: table regeneration, build, audit
# ----------------------------------------------------------------------------------------------------------------------
class _Lock:
    def __init__(self) -> None:
        os.makedirs(os.path.join(LEAN, ".lake"), exist_ok=True)
        self.path = os.path.join(LEAN, ".lake", "verif.lock")

    def __enter__(self) -> "_Lock":
        self.fh = open(self.path, "w")
        fcntl.flock(self.fh, fcntl.LOCK_EX)
        return self

    def __exit__(self, *a: Any) -> None:
        fcntl.flock(self.fh, fcntl.LOCK_UN)
        self.fh.close()


def regen_tables() -> dict:
    """Regenerate lean/ESV/Gen/Tables.lean from the current /repo tree (written only when changed)."""
    p = subprocess.run([PY, os.path.join(ROOT, "harness", "gen_tables.py"), "--repo", REPO],
                       capture_output=True, text=True, timeout=300)
    if p.returncode != 0:
        return {"ok": False, "error": p.stderr[-3000:]}
    target = os.path.join(LEAN, "ESV", "Gen", "Tables.lean")
    new = p.stdout
    old = open(target).read() if os.path.exists(target) else None
    changed = old != new
    if changed:
        with open(target, "w") as fh:
            fh.write(new)
    return {"ok": True, "changed": changed, "sha256": hashlib.sha256(new.encode()).hexdigest()}


def lake_build(targets: list[str], timeout: int = 3000) -> tuple[bool, str]:
    p = subprocess.run(["lake", "build", *targets], cwd=LEAN, capture_output=True, text=True, timeout=timeout)
    return p.returncode == 0, (p.stdout + p.stderr)[-6000:]


def driver_props_imports() -> list[list[str]]:
    """import chains Driver.Main -> … -> ESV.Props.X (must be empty), see tools_driver_imports.py"""
    import importlib.util
    spec = importlib.util.spec_from_file_location("tools_driver_imports", os.path.join(ROOT, "tools_driver_imports.py"))
    mod = importlib.util.module_from_spec(spec)  # type: ignore[arg-type]
    spec.loader.exec_module(mod)  # type: ignore[union-attr]
    return mod.driver_props_imports()


def lean_prepare(modules: list[str], need_driver: bool = True) -> dict:
    """regen tables, build driver (models) and the property's proof modules. Returns a status dict;
    never raises on a *proof* failure (that is the break protocol's business)."""
    st: dict = {"tables": None, "driver_ok": False, "proofs_ok": False, "log": ""}
    with _Lock():
        st["tables"] = regen_tables()
        if not st["tables"]["ok"]:
            st["log"] = st["tables"]["error"]
            return st
        if need_driver:
            ok, out = lake_build(["esvdrive"])
            st["driver_ok"] = ok
            if not ok:
                st["log"] += out
            # the driver must build whatever /repo looks like: nothing it imports may depend on the table tie ESV.Props.Tables
            # (or any other proof statement under ESV.Props); a violation is a broken tie of every check that uses the driver
            chains = driver_props_imports()
            if chains:
                st["driver_ok"] = False
                st["driver_imports_props"] = chains
                st["log"] += "\nthe Lean driver imports proof modules under ESV.Props (tools_driver_imports.py):\n" + "\n".join(" -> ".join(c) for c in chains) + "\n"
        if modules:
            ok, out = lake_build(modules)
            st["proofs_ok"] = ok
            if not ok:
                st["log"] += out
        else:
            st["proofs_ok"] = True
    return st


def strip_comments(src: str) -> str:
    src = re.sub(r"/-.*?-/", "", src, flags=re.S)
    return re.sub(r"--.*", "", src)


def audit(theorems: list[str], modules: list[str]) -> dict:
    """#print axioms for every theorem; grep the whole Lean tree for forbidden constructs."""
    res: dict = {"theorems": {}, "forbidden": [], "ok": True, "obligations": len(theorems), "discharged": 0}
    for dp, _dn, fns in os.walk(LEAN):
        if ".lake" in dp:
            continue
        for fn in fns:
            if fn.endswith(".lean"):
                txt = strip_comments(open(os.path.join(dp, fn)).read())
                for i, line in enumerate(txt.splitlines()):
                    if FORBIDDEN.search(line):
                        res["forbidden"].append(f"{os.path.relpath(os.path.join(dp, fn), LEAN)}:{i+1}:{line.strip()[:80]}")
    if res["forbidden"]:
        res["ok"] = False
    if not theorems:
        return res
    src = "".join(f"import {m}\n" for m in modules) + "".join(f"#print axioms {t}\n" for t in theorems)
    tmp = os.path.join(LEAN, ".lake", f"audit_{os.getpid()}.lean")
    with open(tmp, "w") as fh:
        fh.write(src)
    try:
        p = subprocess.run(["lake", "env", "lean", tmp], cwd=LEAN, capture_output=True, text=True, timeout=900)
    finally:
        try:
            os.unlink(tmp)
        except OSError:
            pass
    out = p.stdout + p.stderr
    # "'X' depends on axioms: [a, b]"  |  "'X' does not depend on any axioms"
    for m in re.finditer(r"'([^']+)' depends on axioms: \[([^\]]*)\]", out, flags=re.S):
        res["theorems"][m.group(1)] = [a.strip() for a in m.group(2).replace("\n", " ").split(",") if a.strip()]
    for m in re.finditer(r"'([^']+)' does not depend on any axioms", out):
        res["theorems"][m.group(1)] = []
    for t in theorems:
        ax = res["theorems"].get(t)
        if ax is None:
            short = [k for k in res["theorems"] if k.endswith("." + t) or k == t]
            ax = res["theorems"][short[0]] if short else None
        if ax is None:
            res["ok"] = False
            res.setdefault("missing", []).append(t)
        elif set(ax) <= ALLOWED_AXIOMS:
            res["discharged"] += 1
        else:
            res["ok"] = False
            res.setdefault("bad_axioms", {})[t] = ax
    if p.returncode != 0 and not res.get("missing"):
        res["ok"] = False
        res["error"] = out[-2000:]
    return res


def leanchecker(modules: list[str]) -> tuple[bool, str]:
    p = subprocess.run(["lake", "env", "leanchecker", *modules], cwd=LEAN, capture_output=True, text=True, timeout=3000)
    return p.returncode == 0, (p.stdout + p.stderr)[-2000:]


class Driver:
    """Line protocol client for the compiled Lean driver (fallback: interpreted)."""

    def __init__(self) -> None:
        exe = os.path.join(LEAN, ".lake", "build", "bin", "esvdrive")
        if os.path.exists(exe):
            self.cmd = [exe]
        else:
            self.cmd = ["lake", "env", "lean", "--run", "Driver/Main.lean"]

    def batch(self, requests: list[dict], timeout: int = 3000) -> list[dict]:
        if not requests:
            return []
        data = "".join(json.dumps(r, ensure_ascii=True) + "\n" for r in requests)
        p = subprocess.run(self.cmd, cwd=LEAN, input=data, capture_output=True, text=True, timeout=timeout)
        lines = [l for l in p.stdout.split("\n") if l.strip()]
        if len(lines) != len(requests):
            raise Infra(f"driver answered {len(lines)} lines for {len(requests)} requests; stderr={p.stderr[-1500:]}")
        out = []
        for l in lines:
            try:
                out.append(json.loads(l))
            except Exception:
                out.append({"error": "unparsable", "raw": l[:500]})
        return out

    def batch_parallel(self, requests: list[dict], jobs: int = 8, timeout: int = 3000) -> list[dict]:
        if len(requests) < 64 or jobs <= 1:
            return self.batch(requests, timeout)
        from concurrent.futures import ThreadPoolExecutor
        chunks = [requests[i::jobs] for i in range(jobs)]
        with ThreadPoolExecutor(jobs) as ex:
            outs = list(ex.map(lambda c: self.batch(c, timeout), chunks))
        res: list[Any] = [None] * len(requests)
        for j, o in enumerate(outs):
            for k, v in enumerate(o):
                res[j + k * jobs] = v
        return res


# ----------------------------------------------------------------------------------------------------------------------
# Worker pool: implementation calls under RLIMIT_AS and per-task timeouts
# ----------------------------------------------------------------------------------------------------------------------
class Pool:
    """N persistent worker processes (harness/worker.py) executing `module:function(arg)` tasks.
    A task that exceeds its time limit kills the worker; the result is {"__timeout__": True}."""

    def __init__(self, jobs: int, mem_mb: int = 3000):
        self.jobs = jobs
        self.mem_mb = mem_mb
        self.procs: list[subprocess.Popen | None] = [None] * jobs

    def _spawn(self, i: int) -> subprocess.Popen:
        env = dict(os.environ)
        env["VERIF_REPO"] = REPO
        env["VERIF_MEM_MB"] = str(self.mem_mb)
        env[GUARD] = "1"
        env["PYTHONHASHSEED"] = "0"
        p = subprocess.Popen([PY, os.path.join(ROOT, "harness", "worker.py")], stdin=subprocess.PIPE,
                             stdout=subprocess.PIPE, text=True, env=env, cwd=ROOT, bufsize=1)
        self.procs[i] = p
        return p

    def close(self) -> None:
        for p in self.procs:
            if p is not None:
                try:
                    p.kill()
                except Exception:
                    pass
        self.procs = [None] * self.jobs

    def map(self, fn: str, args: list[Any], timeout: float = 30.0, on_result: Callable[[int, Any], None] | None = None) -> list[Any]:
        results: list[Any] = [None] * len(args)
        pending = list(range(len(args)))[::-1]
        busy: dict[int, tuple[int, float]] = {}  # worker -> (task, deadline)
        while pending or busy:
            for w in range(self.jobs):
                if w not in busy and pending:
                    t = pending.pop()
                    p = self.procs[w]
                    if p is None or p.poll() is not None:
                        p = self._spawn(w)
                    assert p.stdin is not None
                    try:
                        p.stdin.write(json.dumps({"fn": fn, "arg": args[t]}) + "\n")
                        p.stdin.flush()
                    except BrokenPipeError:
                        p = self._spawn(w)
                        p.stdin.write(json.dumps({"fn": fn, "arg": args[t]}) + "\n")  # type: ignore
                        p.stdin.flush()  # type: ignore
                    busy[w] = (t, time.time() + timeout)
            fds = {self.procs[w].stdout.fileno(): w for w in busy}  # type: ignore
            rl, _, _ = select.select(list(fds), [], [], 0.25)
            now = time.time()
            for fd in rl:
                w = fds[fd]
                t, _dl = busy[w]
                line = self.procs[w].stdout.readline()  # type: ignore
                if not line:
                    rc = self.procs[w].wait()  # type: ignore
                    results[t] = {"__died__": True, "rc": rc}
                    self.procs[w] = None
                else:
                    try:
                        results[t] = json.loads(line)
                    except Exception:
                        results[t] = {"__garbled__": line[:300]}
                del busy[w]
                if on_result:
                    on_result(t, results[t])
            for w, (t, dl) in list(busy.items()):
                if now > dl:
                    try:
                        self.procs[w].kill()  # type: ignore
                        self.procs[w].wait()  # type: ignore
                    except Exception:
                        pass
                    self.procs[w] = None
                    results[t] = {"__timeout__": True}
                    del busy[w]
                    if on_result:
                        on_result(t, results[t])
        return results


# ----------------------------------------------------------------------------------------------------------------------
# Verdict + evidence
# ----------------------------------------------------------------------------------------------------------------------
def load_known() -> list[dict]:
    path = os.path.join(ROOT, "known_findings.jsonl")
    out = []
    if os.path.exists(path):
        for line in open(path):
            line = line.strip()
            if line and not line.startswith("#"):
                out.append(json.loads(line))
    return out


class Run:
    def __init__(self, prop: str, tier: str, seed: int):
        self.prop = prop
        self.tier = tier
        self.seed = seed
        self.rng = random.Random(seed * 1000003 + int(prop[1:]))
        self.t0 = time.time()
        self.violations: list[dict] = []
        self.known_hits: dict[str, dict] = {}
        self.notes: list[str] = []
        self.known = [k for k in load_known() if k.get("property") == prop and k.get("status") == "known"]

    def elapsed(self) -> float:
        return time.time() - self.t0

    def violation(self, kind: str, what: str, replay: dict) -> None:
        """kind: named shape predicate of the (shrunk) failing case, used ONLY to match known findings."""
        for k in self.known:
            if k.get("kind") == kind:
                if kind not in self.known_hits:
                    self.known_hits[kind] = {"what": k.get("what", what), "example": replay, "count": 0}
                self.known_hits[kind]["count"] += 1
                return
        if len(self.violations) < 50:
            self.violations.append({"kind": kind, "what": what, "replay": replay})

    def broken_tie(self, what: str, detail: dict) -> None:
        """A proof obligation / table lemma / correspondence channel no longer checks and no failing
        input of the property itself was found."""
        self.violations.append({"kind": "__tie__", "what": what, "replay": detail, "nofail": True})

    def finish(self, level: str, coverage: dict, assumptions: list[str]) -> int:
        os.makedirs(os.path.join(ROOT, "replays"), exist_ok=True)
        os.makedirs(os.path.join(ROOT, "evidence"), exist_ok=True)
        for kind, h in sorted(self.known_hits.items()):
            log(f"KNOWN-FINDING: property={self.prop} {kind}: {h['what']} ({h['count']} case(s) this run)")
        # real failing inputs first; tie-only breaks are reported only when no real input was found
        real = [v for v in self.violations if not v.get("nofail")]
        ties = [v for v in self.violations if v.get("nofail")]
        reported = real if real else ties[:3]
        seen = set()
        for v in reported:
            if v["kind"] in seen and len(seen) >= 1 and v["kind"] != "__tie__":
                continue
            seen.add(v["kind"])
            body = json.dumps({"property": self.prop, "tier": self.tier, "seed": self.seed, **v}, indent=1, sort_keys=True, default=str)
            h = hashlib.sha256(body.encode()).hexdigest()[:12]
            path = os.path.join("replays", f"{self.prop}-{h}.json")
            with open(os.path.join(ROOT, path), "w") as fh:
                fh.write(body)
            tail = " no-failing-input-found" if v.get("nofail") else ""
            log(f"VIOLATION property={self.prop} replay={path}{tail}")
            log(f"  {v['kind']}: {v['what'][:300]}")
        ev = {
            "property_id": self.prop, "tier": self.tier, "seed": self.seed, "level": level,
            "coverage": coverage, "assumptions": assumptions, "wall_s": round(self.elapsed(), 2),
            "violations": len(reported),
        }
        ev["coverage"].setdefault("repo_state", repo_state())
        ev["coverage"].setdefault("known_findings_hit", {k: v["count"] for k, v in self.known_hits.items()})
        if self.notes:
            ev["coverage"].setdefault("notes", self.notes[:40])
        with open(os.path.join(ROOT, "evidence", f"{self.prop}.json"), "w") as fh:
            json.dump(ev, fh, indent=1, default=str)
        log(f"[{self.prop}] tier={self.tier} seed={self.seed} violations={len(reported)} wall={ev['wall_s']}s")
        return 1 if reported else 0


def proof_coverage(run: Run, prep: dict, aud: dict, modules: list[str], theorems: list[str], extra: dict) -> dict:
    cov = {
        "obligations": aud["obligations"],
        "discharged": aud["discharged"] if prep["proofs_ok"] else 0,
        "checker_cmd": "lake build " + " ".join(modules) + " && #print axioms (harness/core.py:audit)",
        "trusted_base": [
            "Lean 4.33 kernel; axioms allowed: propext, Classical.choice, Quot.sound",
            "harness/gen_tables.py (tables regenerated from /repo on this run)",
            "correspondence harness (Python) + Lean driver JSON protocol",
        ],
        "theorems": theorems,
        "axioms": aud.get("theorems", {}),
        "tables": prep.get("tables"),
    }
    cov.update(extra)
    return cov


def distinct(items: Iterable[Any]) -> int:
    return len({json.dumps(i, sort_keys=True, default=str) for i in items})


def jobs_for(tier: str) -> int:
    n = os.cpu_count() or 4
    return max(2, min(n - 2, 14)) if tier == "thorough" else max(2, min(n // 2, 8))
