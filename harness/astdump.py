"""Parse tree of the repository's own ExplorerScript parser -> surface AST (harness/gen/surface.py format).
Trusted glue; cross-checked on every generated program by astdump(print(ast)) == ast (modulo spelling hints).
Also records 0-based (line, col) of statement starts under "_pos" when with_pos=True."""
from __future__ import annotations

from typing import Any


def _txt(node: Any) -> str:
    return str(node)


class Dumper:
    def __init__(self, with_pos: bool = False):
        self.with_pos = with_pos
        from explorerscript.ssb_converting.compiler.utils import string_literal, singleline_string_literal
        from explorerscript.util import exps_int
        self.string_literal = string_literal
        self.single = singleline_string_literal
        self.exps_int = exps_int

    def pos(self, d: dict, ctx: Any) -> dict:
        if self.with_pos:
            d["_pos"] = [ctx.start.line - 1, ctx.start.column]
        return d

    # ---- atoms
    def il(self, ctx: Any) -> dict:
        if ctx.INTEGER():
            return {"k": "int", "v": self.exps_int(_txt(ctx.INTEGER()))}
        if ctx.DECIMAL():
            return {"k": "dec", "v": _txt(ctx.DECIMAL())}
        if ctx.IDENTIFIER():
            return {"k": "id", "v": _txt(ctx.IDENTIFIER())}
        return {"k": "var", "v": _txt(ctx.VARIABLE())}

    def string(self, ctx: Any) -> dict:
        """string: string_value | lang_string"""
        if ctx.string_value():
            return {"k": "str", "v": self.string_literal(ctx.string_value())}
        ls = ctx.lang_string()
        return {"k": "lang", "v": [[_txt(a.IDENTIFIER()), self.string_literal(a.string_value())] for a in ls.lang_string_argument()]}

    def arg(self, ctx: Any) -> dict:
        if ctx.integer_like():
            return self.il(ctx.integer_like())
        if ctx.string():
            return self.string(ctx.string())
        pm = ctx.position_marker()
        a = pm.position_marker_arg()
        return {"k": "pos", "name": self.single(pm.STRING_LITERAL()), "x": a[0].getText(), "y": a[1].getText()}

    def args(self, ctx: Any) -> list[dict]:
        if ctx is None:
            return []
        return [self.arg(a) for a in ctx.pos_argument()]

    def cmp(self, ctx: Any) -> str:
        return ctx.getText()

    # ---- headers
    def header(self, ctx: Any) -> dict:
        if ctx.if_h_op():
            h = ctx.if_h_op()
            ils = h.integer_like()
            if h.value_of():
                return {"h": "op", "left": self.il(ils[0]), "cmp": self.cmp(h.conditional_operator()), "right": self.il(h.value_of().integer_like()), "value_of": True}
            return {"h": "op", "left": self.il(ils[0]), "cmp": self.cmp(h.conditional_operator()), "right": self.il(ils[1]), "value_of": False}
        if ctx.if_h_bit():
            h = ctx.if_h_bit()
            return {"h": "bit", "not": h.NOT() is not None, "var": self.il(h.integer_like()), "index": self.exps_int(_txt(h.INTEGER()))}
        if ctx.if_h_negatable():
            h = ctx.if_h_negatable()
            kw = "debug" if h.DEBUG() else ("edit" if h.EDIT() else "variation")
            return {"h": "neg", "not": h.NOT() is not None, "kw": kw}
        if ctx.if_h_scn():
            h = ctx.if_h_scn()
            return {"h": "scn", "var": self.il(h.scn_var().integer_like()), "cmp": self.cmp(h.conditional_operator()),
                    "a": self.exps_int(_txt(h.INTEGER(0))), "b": self.exps_int(_txt(h.INTEGER(1)))}
        op = ctx.operation()
        return {"h": "operation", "name": _txt(op.IDENTIFIER()), "args": self.args(op.arglist())}

    def switch_header(self, ctx: Any) -> dict:
        if ctx.integer_like():
            return {"s": "var", "v": self.il(ctx.integer_like())}
        if ctx.operation():
            op = ctx.operation()
            return {"s": "operation", "name": _txt(op.IDENTIFIER()), "args": self.args(op.arglist())}
        if ctx.switch_h_scn():
            h = ctx.switch_h_scn()
            return {"s": "scn", "v": self.il(h.scn_var().integer_like()), "index": self.exps_int(_txt(h.INTEGER()))}
        if ctx.switch_h_random():
            return {"s": "random", "v": self.il(ctx.switch_h_random().integer_like())}
        if ctx.switch_h_dungeon_mode():
            return {"s": "dungeon_mode", "v": self.il(ctx.switch_h_dungeon_mode().integer_like())}
        return {"s": "sector"}

    def case_header(self, ctx: Any) -> dict:
        if ctx.integer_like():
            return {"c": "value", "v": self.il(ctx.integer_like())}
        if ctx.case_h_menu():
            return {"c": "menu", "v": self.string(ctx.case_h_menu().string())}
        if ctx.case_h_menu2():
            return {"c": "menu2", "v": self.il(ctx.case_h_menu2().integer_like())}
        h = ctx.case_h_op()
        if h.value_of():
            return {"c": "op", "cmp": self.cmp(h.conditional_operator()), "v": self.il(h.value_of().integer_like()), "value_of": True}
        return {"c": "op", "cmp": self.cmp(h.conditional_operator()), "v": self.il(h.integer_like()), "value_of": False}

    # ---- statements
    def simple(self, ctx: Any) -> dict:
        if ctx.operation():
            op = ctx.operation()
            d: dict = {"t": "op", "name": _txt(op.IDENTIFIER()), "args": self.args(op.arglist())}
            if op.inline_ctx():
                h = op.inline_ctx().ctx_header()
                d["ctx"] = {"kind": _txt(h.IDENTIFIER()), "target": self.il(h.integer_like())}
            return self.pos(d, ctx)
        if ctx.label():
            return self.pos({"t": "label", "name": _txt(ctx.label().IDENTIFIER())}, ctx)
        if ctx.cntrl_stmt():
            return self.pos({"t": "ctrl", "k": ctx.cntrl_stmt().getText()}, ctx)
        if ctx.jump():
            return self.pos({"t": "jump", "name": _txt(ctx.jump().IDENTIFIER())}, ctx)
        if ctx.call():
            return self.pos({"t": "call", "name": _txt(ctx.call().IDENTIFIER())}, ctx)
        return self.pos(self.assign(ctx.assignment()), ctx)

    def assign(self, ctx: Any) -> dict:
        if ctx.assignment_regular():
            a = ctx.assignment_regular()
            ils = a.integer_like()
            d: dict = {"t": "assign", "form": "regular", "target": self.il(ils[0]),
                       "index": self.exps_int(_txt(a.INTEGER())) if a.INTEGER() else None, "op": a.assign_operator().getText()}
            if a.value_of():
                d["value"] = self.il(a.value_of().integer_like())
                d["value_of"] = True
            else:
                d["value"] = self.il(ils[1])
                d["value_of"] = False
            return d
        if ctx.assignment_clear():
            return {"t": "assign", "form": "clear", "target": self.il(ctx.assignment_clear().integer_like())}
        if ctx.assignment_initial():
            return {"t": "assign", "form": "init", "target": self.il(ctx.assignment_initial().integer_like())}
        if ctx.assignment_reset():
            a = ctx.assignment_reset()
            return {"t": "assign", "form": "reset", "target": None if a.DUNGEON_RESULT() else self.il(a.scn_var().integer_like())}
        if ctx.assignment_adv_log():
            return {"t": "assign", "form": "adv_log", "value": self.il(ctx.assignment_adv_log().integer_like())}
        if ctx.assignment_dungeon_mode():
            a = ctx.assignment_dungeon_mode()
            ils = a.integer_like()
            return {"t": "assign", "form": "dungeon_mode", "target": self.il(ils[0]), "value": self.il(ils[1])}
        a = ctx.assignment_scn()
        return {"t": "assign", "form": "scn", "target": self.il(a.integer_like()), "a": self.exps_int(_txt(a.INTEGER(0))), "b": self.exps_int(_txt(a.INTEGER(1)))}

    def stmts(self, lst: Any) -> list[dict]:
        return [self.stmt(s) for s in lst]

    def stmt(self, ctx: Any) -> dict:
        if ctx.simple_stmt():
            return self.simple(ctx.simple_stmt())
        if ctx.ctx_block():
            c = ctx.ctx_block()
            h = c.ctx_header()
            return self.pos({"t": "with", "kind": _txt(h.IDENTIFIER()), "target": self.il(h.integer_like()), "stmt": self.simple(c.simple_stmt())}, ctx)
        if ctx.if_block():
            c = ctx.if_block()
            brs = [self.pos({"not": c.NOT() is not None, "headers": [self.header(h) for h in c.if_header()], "body": self.stmts(c.stmt())}, c)]
            for e in c.elseif_block():
                brs.append(self.pos({"not": e.NOT() is not None, "headers": [self.header(h) for h in e.if_header()], "body": self.stmts(e.stmt())}, e))
            els = self.stmts(c.else_block().stmt()) if c.else_block() else None
            return self.pos({"t": "if", "branches": brs, "else": els}, ctx)
        if ctx.switch_block():
            c = ctx.switch_block()
            return self.pos({"t": "switch", "header": self.switch_header(c.switch_header()), "cases": self.cases(c, False)}, ctx)
        if ctx.message_switch_block():
            c = ctx.message_switch_block()
            return self.pos({"t": "msgswitch", "kind": "talk" if c.MESSAGE_SWITCH_TALK() else "monologue",
                             "v": self.il(c.integer_like()), "cases": self.cases(c, True)}, ctx)
        if ctx.forever_block():
            return self.pos({"t": "forever", "body": self.stmts(ctx.forever_block().stmt())}, ctx)
        if ctx.for_block():
            c = ctx.for_block()
            ss = c.simple_stmt()
            return self.pos({"t": "for", "init": self.simple(ss[0]), "header": self.header(c.if_header()), "inc": self.simple(ss[1]), "body": self.stmts(c.stmt())}, ctx)
        if ctx.while_block():
            c = ctx.while_block()
            return self.pos({"t": "while", "not": c.NOT() is not None, "header": self.header(c.if_header()), "body": self.stmts(c.stmt())}, ctx)
        c = ctx.macro_call()
        return self.pos({"t": "macrocall", "name": _txt(c.MACRO_CALL())[1:], "args": self.args(c.arglist())}, ctx)

    def cases(self, c: Any, message: bool) -> list[dict]:
        """children in source order: default | single_case_block"""
        out = []
        from explorerscript.antlr.ExplorerScriptParser import ExplorerScriptParser as P
        for ch in c.getChildren():
            if isinstance(ch, P.DefaultContext):
                if message or ch.string():
                    out.append(self.pos({"default": True, "v": None, "string": self.string(ch.string()) if ch.string() else None, "body": self.stmts(ch.stmt()), "header": None}, ch))
                else:
                    out.append(self.pos({"default": True, "header": None, "body": self.stmts(ch.stmt())}, ch))
            elif isinstance(ch, P.Single_case_blockContext):
                if message or ch.string():
                    hdr = ch.case_header()
                    out.append(self.pos({"default": False, "v": self.il(hdr.integer_like()) if hdr.integer_like() else None, "header": self.case_header(hdr),
                                         "string": self.string(ch.string()) if ch.string() else None, "body": self.stmts(ch.stmt())}, ch))
                else:
                    out.append(self.pos({"default": False, "header": self.case_header(ch.case_header()), "body": self.stmts(ch.stmt())}, ch))
        if message:
            for o in out:
                o.pop("header", None)
                o.pop("body", None)
        return out

    def routine(self, ctx: Any) -> dict:
        suite = None
        if ctx.simple_def():
            d = ctx.simple_def()
            r: dict = {"kind": "def", "id": self.exps_int(_txt(d.INTEGER()))}
            suite = d.func_suite()
        elif ctx.coro_def():
            d = ctx.coro_def()
            r = {"kind": "coro", "id": -1, "name": _txt(d.IDENTIFIER())}
            suite = d.func_suite()
        else:
            d = ctx.for_target_def()
            t = d.for_target_def_target()
            if t.FOR_TARGET():
                tk, legacy = _txt(t.FOR_TARGET())[4:], True
            else:
                tk, legacy = _txt(t.IDENTIFIER()), False
            r = {"kind": "for", "id": self.exps_int(_txt(d.INTEGER())), "tkind": tk, "target": self.il(d.integer_like()), "legacy": legacy}
            suite = d.func_suite()
        r["body"] = None if suite.func_alias() else self.stmts(suite.stmt())
        return self.pos(r, ctx)

    def program(self, tree: Any) -> dict:
        imports = [self.single(i.STRING_LITERAL()) for i in tree.import_stmt()]
        macros = []
        for m in tree.macrodef():
            macros.append(self.pos({"name": _txt(m.IDENTIFIER()), "params": [_txt(v) for v in m.VARIABLE()], "body": self.stmts(m.func_suite().stmt())}, m))
        routines = [self.routine(f) for f in tree.funcdef()]
        return {"imports": imports, "macros": macros, "routines": routines}


def dump_text(text: str, with_pos: bool = False) -> dict:
    from explorerscript.explorerscript_reader import ExplorerScriptReader
    tree = ExplorerScriptReader(text).read()
    return Dumper(with_pos).program(tree)


HINT_KEYS = {"sp", "style", "quote", "trailing_comma", "paragraph", "legacy", "specs", "id_sp", "order", "_pos"}


def strip_hints(x: Any) -> Any:
    """remove spelling hints so that a generated AST can be compared with a dumped one"""
    if isinstance(x, dict):
        d = {k: strip_hints(v) for k, v in x.items() if k not in HINT_KEYS}
        if d.get("k") == "dec":
            pass
        if d.get("kind") == "coro":
            d["id"] = -1
        return d
    if isinstance(x, list):
        return [strip_hints(v) for v in x]
    return x
