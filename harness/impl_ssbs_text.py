"""Real-code adapter for the character-level model of the SsbScript decompiler (lean/ESV/SsbScript/Text.lean).

decompile_text({"rs": routine set json, "prefix": str}) ->
    {"text": str,
     "calls": [[off, line, col]]          the add_opcode calls in recording order (a recording subclass of SourceMapBuilder
                                           is put in the decompiler module's namespace for the duration of the call),
     "map":   [[off, line, col]]          source_map.serialize()["map"] in the order of the dict (first insertion),
     "marks": [[line, col, end_line, end_col, name, x_off, y_off, x_rel, y_rel]]}   serialize()["pos_marks"]
  | {"error": exception class name, "msg", "site"}
"""
from __future__ import annotations

import json
import os
import traceback
from typing import Any

from . import rsjson

# the banner ExplorerScriptSsbDecompiler.convert puts in front of its SsbScript fallback (literal copied from
# /repo/explorerscript/ssb_converting/ssb_decompiler.py; `fallback_banner_in_repo` reads it back from the source on every run)
FALLBACK_BANNER = (
    "//?: is-ssb-script: true\n"
    "// WARNING:\n"
    "// Failed to normally decompile this script. This is either because of a bug\n"
    "// in the decompiler or because this script was not valid.\n"
    "//\n"
    "// The following is a fallback decompilation as SsbScript that may not be as easy to read.\n"
    "//\n"
    "// IMPORTANT: This is now SsbScript instead of ExplorerScript. If you remove the very first\n"
    "// line (//?: is-ssb-script: true), then the compiler will try to compile this file \n"
    "// as ExplorerScript again.\n"
    "// Before this is possible you will need to re-write this file to be valid ExplorerScript.\n"
)


def _exc(e: BaseException) -> dict:
    tb = traceback.extract_tb(e.__traceback__)
    site = ""
    for fr in reversed(tb):
        if "explorerscript" in fr.filename and "/harness/" not in fr.filename:
            site = os.path.basename(fr.filename) + ":" + fr.name
            break
    return {"error": type(e).__name__, "msg": str(e)[:300], "site": site}


def decompile_text(arg: dict) -> dict:
    import explorerscript.ssb_script.ssb_converting.ssb_decompiler as mod
    from explorerscript.source_map import SourceMapBuilder
    infos, ops, coros = rsjson.rs_from_json(arg["rs"])
    calls: list = []

    class Recording(SourceMapBuilder):  # type: ignore
        def add_opcode(self, op_offset: int, line_number: int, column: int):  # type: ignore
            calls.append([op_offset, line_number, column])
            return super().add_opcode(op_offset, line_number, column)

    orig = mod.SourceMapBuilder
    mod.SourceMapBuilder = Recording  # type: ignore
    try:
        text, sm = mod.SsbScriptSsbDecompiler(infos, ops, coros).convert(prefix=arg.get("prefix", ""))
    except BaseException as e:  # noqa
        return _exc(e)
    finally:
        mod.SourceMapBuilder = orig  # type: ignore
    ser = json.loads(sm.serialize(), object_pairs_hook=list)     # keep the order of the "map" object
    d = dict(ser)
    macros = dict(d["macros"])
    return {"text": text, "calls": calls,
            "map": [[int(k), v[0], v[1]] for k, v in d["map"]],
            "marks": d["pos_marks"],
            "macros_empty": len(macros["map"]) == 0 and len(macros["pos_marks"]) == 0}


def decompile_text_many(args: list[dict]) -> list[dict]:
    return [decompile_text(a) for a in args]


def fallback_banner_in_repo(_: Any = None) -> dict:
    """the banner as the repo's source spells it: the string literals of the `prefix = … / prefix += …` statements"""
    import ast
    import explorerscript.ssb_converting.ssb_decompiler as m
    src = open(m.__file__, encoding="utf-8").read()
    tree = ast.parse(src)
    parts: list[str] = []
    for node in ast.walk(tree):
        tgt = None
        if isinstance(node, ast.Assign) and len(node.targets) == 1:
            tgt = node.targets[0]
        elif isinstance(node, ast.AugAssign):
            tgt = node.target
        if isinstance(tgt, ast.Name) and tgt.id == "prefix" and isinstance(node.value, ast.Constant) and isinstance(node.value.value, str):
            parts.append((node.lineno, node.value.value))  # type: ignore
    parts.sort()
    return {"banner": "".join(p[1] for p in parts)}  # type: ignore
