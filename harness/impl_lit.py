"""Implementation adapter for the literal printers/readers and for print-then-compile round trips through the
real decompilers and compilers (runs inside a worker).  JSON in, JSON out."""
from __future__ import annotations

import warnings
from typing import Any

warnings.simplefilter("ignore")

try:  # the parsers print every syntax error to the console; the harness only needs the raised ParseError
    from antlr4.error.ErrorListener import ConsoleErrorListener
    ConsoleErrorListener.syntaxError = lambda self, *a, **k: None  # type: ignore
except Exception:
    pass

DM = ["DM_CLOSE", "DM_OPEN", "DM_REQUEST", "DM_OPEN_REQUEST"]
PROBE = "zzprobe"


# ---------------------------------------------------------------------------------------------------------------------
# unit channel: single functions
# ---------------------------------------------------------------------------------------------------------------------
def _exc(e: BaseException) -> dict:
    return {"err": type(e).__name__}


_LEX: dict = {}


def first_token(text: str, which: str = "exps") -> dict:
    """type name and length of the first token the real ANTLR lexer produces"""
    from antlr4 import InputStream
    if which not in _LEX:
        if which == "exps":
            from explorerscript.antlr.ExplorerScriptLexer import ExplorerScriptLexer as L
        else:
            from explorerscript.antlr.SsbScriptLexer import SsbScriptLexer as L
        _LEX[which] = L
    L = _LEX[which]
    lx = L(InputStream(text))
    lx.removeErrorListeners()
    t = lx.nextToken()
    name = {L.STRING_LITERAL: "STRING_LITERAL", L.MULTILINE_STRING_LITERAL: "MULTILINE_STRING_LITERAL", L.INTEGER: "INTEGER",
            L.DECIMAL: "DECIMAL", -1: "EOF"}.get(t.type, "other")
    if t.type != -1 and t.start != 0:      # skipped blanks/comments first: no literal token starts the text
        return {"type": "other", "n": 0}
    return {"type": name, "n": len(t.text) if t.type != -1 else 0}


class _Tok:
    def __init__(self, s: str):
        self.s = s

    def __str__(self) -> str:
        return self.s


class _PosArgCtx:
    """what parse_position_marker_arg reads from the parse tree: INTEGER() / DECIMAL() terminal or None"""

    def __init__(self, kind: str, text: str):
        self.kind, self.text = kind, text

    def INTEGER(self) -> Any:
        return _Tok(self.text) if self.kind == "INTEGER" else None

    def DECIMAL(self) -> Any:
        return _Tok(self.text) if self.kind == "DECIMAL" else None


def unit_one(c: dict) -> dict:
    from explorerscript.ssb_converting import ssb_data_types as dt
    from explorerscript.ssb_converting.compiler import utils as cu
    from explorerscript.util import exps_int
    from explorerscript.common_syntax import parse_position_marker_arg
    k = c["k"]
    try:
        if k == "replace":
            return {"r": c["s"].replace(c["a"], c["b"])}
        if k == "splitlines":
            return {"r": c["s"].splitlines()}
        if k == "split":
            return {"r": c["s"].split(c["sep"])}
        if k == "escq":
            return {"r": dt.escape_quotes(c["s"], c["q"])}
        if k == "escnl":
            return {"r": dt.escape_newlines(c["s"])}
        if k == "repr":
            r = dt.repr_string(c["s"], c["indent"], c["single"])
            if c["single"]:
                p = dt.SsbOpParamConstString(c["s"])
                p.indent = c["indent"]
                if str(p) != r:
                    return {"r": r, "conststr_differs": str(p)}
            return {"r": r}
        if k == "langstr":
            p = dt.SsbOpParamLanguageString({a: b for a, b in c["items"]})
            p.indent = c["indent"]
            return {"r": str(p)}
        if k == "read_single":
            return {"v": cu.singleline_string_literal(_Tok(c["tok"]))}
        if k == "read_multi":
            return {"v": cu.multiline_string_literal(_Tok(c["tok"]))}
        if k == "tok":
            a = first_token(c["text"], "exps")
            b = first_token(c["text"], "ssbs")
            return {"exps": a, "ssbs": b}
        if k == "int":
            return {"tok": first_token(c["s"])["type"] == "INTEGER" and first_token(c["s"])["n"] == len(c["s"]),
                    "v": exps_int(c["s"])}
        if k == "fixed":
            return {"v": dt.SsbOpParamFixedPoint.from_str(c["s"]).value}
        if k == "fixedmk":
            w = c["whole"]
            return {"v": str(dt.SsbOpParamFixedPoint(dt.SsbOpParamFixedPoint.NegativeZero if w is None else w, c["fract"]))}
        if k == "posarg":
            t = first_token(c["s"])
            kind = t["type"] if t["n"] == len(c["s"]) and t["type"] in ("INTEGER", "DECIMAL") else "other"
            try:
                pos, off = parse_position_marker_arg(_PosArgCtx(kind, c["s"]))  # type: ignore
                return {"v": [pos, off], "kind": kind}
            except BaseException as e:  # noqa
                return {"err": type(e).__name__, "kind": kind}
        if k == "posmark":
            return {"r": str(dt.SsbOpParamPositionMarker(c["name"], c["xo"], c["yo"], c["xr"], c["yr"]))}
        if k == "dmode":
            return {"r": dt.DungeonModeConstants(*c["consts"]).get_explorerscript_constant_for(c["idx"])}
    except BaseException as e:  # noqa
        return _exc(e)
    return {"err": "unknown-kind"}


def unit_cases(cases: list[dict]) -> list[dict]:
    return [unit_one(c) for c in cases]


def roundtrip_one(c: dict) -> dict:
    """function-level print-then-read: repr_string -> first token of the real lexers on (printed + rest) ->
    singleline_/multiline_string_literal on the token text (what string_literal() does with the parse tree)"""
    from explorerscript.ssb_converting import ssb_data_types as dt
    from explorerscript.ssb_converting.compiler import utils as cu
    try:
        s, indent, single = c["s"], c["indent"], c["single"]
        r = dt.repr_string(s, indent, single)
        if single:
            p = dt.SsbOpParamConstString(s)
            p.indent = indent
            if str(p) != r:
                return {"err": "str(SsbOpParamConstString) differs from repr_string(prefer_single_qoute=True)"}
        text = r + c["rest"]
        a = first_token(text, "exps")
        b = first_token(text, "ssbs")
        if a != b:
            return {"err": "lexers disagree", "exps": a, "ssbs": b}
        kind = {"STRING_LITERAL": "single", "MULTILINE_STRING_LITERAL": "multi"}.get(a["type"])
        out: dict = {"r": r, "tok": {"kind": kind, "n": a["n"] if kind else 0}, "exact": kind is not None and a["n"] == len(r)}
        if kind == "single":
            out["v"] = cu.singleline_string_literal(_Tok(text[:a["n"]]))
        elif kind == "multi":
            out["v"] = cu.multiline_string_literal(_Tok(text[:a["n"]]))
        else:
            out["v"] = None
        return out
    except BaseException as e:  # noqa
        return _exc(e)


def roundtrip_cases(cases: list[dict]) -> list[dict]:
    return [roundtrip_one(c) for c in cases]


# ---------------------------------------------------------------------------------------------------------------------
# parameters on the wire
# ---------------------------------------------------------------------------------------------------------------------
def param_from_wire(w: dict) -> Any:
    from explorerscript.ssb_converting import ssb_data_types as dt
    t = w["t"]
    if t == "int":
        return int(w["v"])
    if t == "fixed":       # constructed as a reader would: (whole | NegativeZero, fraction digits)
        return dt.SsbOpParamFixedPoint(dt.SsbOpParamFixedPoint.NegativeZero if w["whole"] is None else w["whole"], w["fract"])
    if t == "fixedf":      # from_float(n / 256)
        return dt.SsbOpParamFixedPoint.from_float(w["n"] / 256)
    if t == "const":
        return dt.SsbOpParamConstant(w["v"])
    if t == "str":
        return dt.SsbOpParamConstString(w["v"])
    if t == "lang":
        return dt.SsbOpParamLanguageString({a: b for a, b in w["v"]})
    if t == "pos":
        return dt.SsbOpParamPositionMarker(w["name"], w["xo"], w["yo"], w["xr"], w["yr"])
    raise ValueError(t)


def param_to_wire(p: Any) -> dict:
    from explorerscript.ssb_converting import ssb_data_types as dt
    if isinstance(p, bool):
        return {"t": "other", "v": repr(p)}
    if isinstance(p, int):
        return {"t": "int", "v": p}
    if isinstance(p, dt.SsbOpParamFixedPoint):
        return {"t": "fixed", "value": p.value}
    if isinstance(p, dt.SsbOpParamConstant):
        return {"t": "const", "v": p.name}
    if isinstance(p, dt.SsbOpParamConstString):
        return {"t": "str", "v": p.name}
    if isinstance(p, dt.SsbOpParamLanguageString):
        return {"t": "lang", "v": [[a, b] for a, b in p.strings.items()]}
    if isinstance(p, dt.SsbOpParamPositionMarker):
        return {"t": "pos", "name": p.name, "xo": p.x_offset, "yo": p.y_offset, "xr": p.x_relative, "yr": p.y_relative}
    return {"t": "other", "v": repr(p)[:100]}


# ---------------------------------------------------------------------------------------------------------------------
# end-to-end channel: real op lists -> real decompiler -> real compiler
# ---------------------------------------------------------------------------------------------------------------------
def _wrap(depth: int, inner: str) -> str:
    """nest `inner` inside `depth` if-blocks (every block ends the routine, so that the flow graph is a tree)"""
    body = inner
    for i in range(depth):
        body = "if (debug) {\n" + body + "\nend;\n}\nzzafter%d();" % i
    return "def 0 {\n" + body + "\nend;\n}\n"


TEMPLATES = {
    # context -> (ExplorerScript source with one placeholder op, op name whose parameter is replaced, index of the parameter)
    "arg": ("zzprobe(0);", PROBE, 0),
    "arg2": ("zzprobe(5, 0, CONST);", PROBE, 1),            # in the middle of an argument list
    "inlinectx": ("with (actor 3) {\nzzprobe(0);\n}\nzzend();", PROBE, 0),   # printed as zzprobe<actor 3>(...)
    "menu": ("switch (message_SwitchMenu(1, 2)) {\ncase menu('x'):\nzzin();\nbreak;\n}\nzzend();", "CaseMenu", 0),
    "casetext": ("message_SwitchTalk ($X) {\ncase 7: 'x'\ndefault: 'y'\n}\nzzend();", "CaseText", 1),
    "defaulttext": ("message_SwitchMonologue ($X) {\ncase 7: 'x'\ndefault: 'y'\n}\nzzend();", "DefaultText", 0),
    "dmode": ("switch (dungeon_mode(3)) {\ncase 0:\nzzin();\nbreak;\n}\nzzend();", "Case", 0),
    "case": ("switch ($X) {\ncase 0:\nzzin();\nbreak;\n}\nzzend();", "Case", 0),
    "casetext_key": ("message_SwitchTalk ($X) {\ncase 7: 'x'\ndefault: 'y'\n}\nzzend();", "CaseText", 0),
    "menu2": ("switch (message_SwitchMenu(1, 2)) {\ncase menu2(5):\nzzin();\nbreak;\n}\nzzend();", "CaseMenu2", 0),
    "casevalue": ("switch ($X) {\ncase > 3:\nzzin();\nbreak;\n}\nzzend();", "CaseValue", 1),
    "switchhdr": ("switch (ProcessSpecial(0, 1, 2)) {\ncase 1:\nzzin();\nbreak;\n}\nzzend();", "ProcessSpecial", 0),
    # the parameter of the context op itself: printed as the target in `zzprobe<actor X>(…)` / in `with (actor X) { … }`
    "ctxtarget": ("with (actor 3) {\nzzprobe(1);\n}\nzzend();", "lives", 0),
    "ctxtarget_with": ("with (object 3) {\n$X = 1;\n}\nzzend();", "object", 0),
}
_TPL_CACHE: dict = {}


def _template_ops(ctx: str, depth: int) -> tuple:
    """compile the template with the real ExplorerScript compiler (cached); returns (infos, ops, coroutines)"""
    from explorerscript.ssb_converting.ssb_compiler import ExplorerScriptSsbCompiler
    key = (ctx, depth)
    if key not in _TPL_CACHE:
        c = ExplorerScriptSsbCompiler("PERF_VAR", [])
        c.compile(_wrap(depth, TEMPLATES[ctx][0]), "/tmp/c04_template.exps")
        _TPL_CACHE[key] = (c.routine_infos, c.routine_ops, c.named_coroutines)
    return _TPL_CACHE[key]


def _find(ops: list, name: str) -> Any:
    hits = [op for r in ops for op in r if op.op_code.name == name]
    return hits


def e2e_one(c: dict) -> dict:
    """c = {param, ctx, depth, dec: exps|ssbs}.  Puts the parameter into real ops, decompiles, compiles again."""
    import copy
    from explorerscript.ssb_converting import ssb_data_types as dt
    from explorerscript.ssb_converting.ssb_compiler import ExplorerScriptSsbCompiler
    from explorerscript.ssb_converting.ssb_decompiler import ExplorerScriptSsbDecompiler
    from explorerscript.ssb_script.ssb_converting.ssb_compiler import SsbScriptSsbCompiler
    from explorerscript.ssb_script.ssb_converting.ssb_decompiler import SsbScriptSsbDecompiler
    out: dict = {}
    ctx, depth, dec = c["ctx"], c["depth"], c["dec"]
    _src, opname, idx = TEMPLATES[ctx]
    try:
        infos, ops, _coros = _template_ops(ctx, depth)
        infos, ops = copy.deepcopy(infos), copy.deepcopy(ops)
        target = _find(ops, opname)
        assert len(target) == 1, f"template {ctx} has {len(target)} ops {opname}"
        param = param_from_wire(c["param"])
        target[0].params[idx] = param
        out["printed0"] = str(param)          # str() with the default indent, before any decompiler touched it
    except BaseException as e:  # noqa
        return {"setup_err": type(e).__name__ + ": " + str(e)[:200]}
    # decompile
    try:
        if dec == "exps":
            text, _sm = ExplorerScriptSsbDecompiler(infos, ops, [], "PERF_VAR", dt.DungeonModeConstants(*DM)).convert()
        else:
            text, _sm = SsbScriptSsbDecompiler(infos, ops, []).convert()
    except BaseException as e:  # noqa
        return {**out, "dec_err": type(e).__name__ + ": " + str(e)[:200]}
    out["text"] = text
    out["indent"] = getattr(param, "indent", None)
    printed = str(param) if not (ctx == "dmode" and dec == "exps") else None
    out["printed"] = printed
    if printed is not None:
        pos = text.find(printed)
        out["found"] = pos >= 0
        out["rest"] = text[pos + len(printed):][:200] if pos >= 0 else None
    # compile again
    try:
        if dec == "exps":
            comp = ExplorerScriptSsbCompiler("PERF_VAR", [])
            comp.compile(text, "/tmp/c04_roundtrip.exps")
        else:
            comp = SsbScriptSsbCompiler()
            comp.compile(text)
        back = _find(comp.routine_ops, opname)
        if len(back) != 1:
            out["comp_err"] = f"shape: {len(back)} ops named {opname} after recompiling"
            return out
        ps = back[0].params
        if idx >= len(ps):
            out["comp_err"] = f"shape: op has {len(ps)} parameters"
            return out
        out["nparams"] = len(ps)
        out["back"] = param_to_wire(ps[idx])
        out["py_eq"] = bool(ps[idx] == param)
    except BaseException as e:  # noqa
        out["comp_err"] = type(e).__name__ + ": " + str(e)[:160]
    return out


def e2e_cases(cases: list[dict]) -> list[dict]:
    return [e2e_one(c) for c in cases]


# ---------------------------------------------------------------------------------------------------------------------
# end-to-end channel, whole parameter lists: every target op of a template gets a complete parameter list
# ---------------------------------------------------------------------------------------------------------------------
MTEMPLATES = {
    # context -> (ExplorerScript source, names of the target ops in op order); the ops named in FREE_ARITY take a parameter
    # list of any length, of the others the leading parameters are replaced (a jump target behind them stays)
    "arg": ("zzprobe(0);", [PROBE]),
    "inlinectx": ("with (actor 3) {\nzzprobe(0);\n}\nzzend();", [PROBE]),
    "switchhdr": ("switch (ProcessSpecial(0, 1, 2)) {\ncase 1:\nzzin();\nbreak;\n}\nzzend();", ["ProcessSpecial"]),
    "menu": ("switch (message_SwitchMenu(1, 2)) {\ncase menu('x'):\nzzin();\nbreak;\ncase menu('y'):\nzzin2();\nbreak;\n}\nzzend();",
             ["CaseMenu", "CaseMenu"]),
    "casetext": ("message_SwitchTalk ($X) {\ncase 7: 'x'\ncase 8: 'z'\ndefault: 'y'\n}\nzzend();", ["CaseText", "CaseText", "DefaultText"]),
}
FREE_ARITY = {PROBE, "ProcessSpecial"}
_MTPL_CACHE: dict = {}


def _mtemplate_ops(ctx: str, depth: int) -> tuple:
    from explorerscript.ssb_converting.ssb_compiler import ExplorerScriptSsbCompiler
    key = (ctx, depth)
    if key not in _MTPL_CACHE:
        c = ExplorerScriptSsbCompiler("PERF_VAR", [])
        c.compile(_wrap(depth, MTEMPLATES[ctx][0]), "/tmp/c04_template.exps")
        _MTPL_CACHE[key] = (c.routine_infos, c.routine_ops)
    return _MTPL_CACHE[key]


def _targets(ops: list, names: list[str]) -> list:
    want = set(names)
    return [op for r in ops for op in r if op.op_code.name in want]


def e2e_ops_one(c: dict) -> dict:
    """c = {ops: [[param, ...], ...], ctx, depth, dec}: ops[i] becomes the complete parameter list of the i-th target op
    of the template; decompile, compile again, report every parameter of every target op."""
    import copy
    from explorerscript.ssb_converting import ssb_data_types as dt
    from explorerscript.ssb_converting.ssb_compiler import ExplorerScriptSsbCompiler
    from explorerscript.ssb_converting.ssb_decompiler import ExplorerScriptSsbDecompiler
    from explorerscript.ssb_script.ssb_converting.ssb_compiler import SsbScriptSsbCompiler
    from explorerscript.ssb_script.ssb_converting.ssb_decompiler import SsbScriptSsbDecompiler
    out: dict = {}
    ctx, depth, dec = c["ctx"], c["depth"], c["dec"]
    _src, names = MTEMPLATES[ctx]
    try:
        infos, ops = _mtemplate_ops(ctx, depth)
        infos, ops = copy.deepcopy(infos), copy.deepcopy(ops)
        target = _targets(ops, names)
        assert [t.op_code.name for t in target] == names, f"template {ctx}: target ops {[t.op_code.name for t in target]}"
        assert len(c["ops"]) == len(names), "one parameter list per target op"
        real: list[list] = []
        for t, plist in zip(target, c["ops"]):
            ps = [param_from_wire(w) for w in plist]
            if t.op_code.name in FREE_ARITY:
                t.params = list(ps)
            else:
                assert len(ps) <= len(t.params), f"{t.op_code.name} takes {len(t.params)} parameters"
                t.params[:len(ps)] = ps
            real.append(ps)
        out["printed0"] = [[str(p) for p in ps] for ps in real]
    except BaseException as e:  # noqa
        return {"setup_err": type(e).__name__ + ": " + str(e)[:200]}
    try:
        if dec == "exps":
            text, _sm = ExplorerScriptSsbDecompiler(infos, ops, [], "PERF_VAR", dt.DungeonModeConstants(*DM)).convert()
        else:
            text, _sm = SsbScriptSsbDecompiler(infos, ops, []).convert()
    except BaseException as e:  # noqa
        return {**out, "dec_err": type(e).__name__ + ": " + str(e)[:200]}
    out["text"] = text
    out["indents"] = [[getattr(p, "indent", None) for p in ps] for ps in real]
    out["printed"] = [[str(p) for p in ps] for ps in real]
    try:
        if dec == "exps":
            comp = ExplorerScriptSsbCompiler("PERF_VAR", [])
            comp.compile(text, "/tmp/c04_roundtrip.exps")
        else:
            comp = SsbScriptSsbCompiler()
            comp.compile(text)
        back = _targets(comp.routine_ops, names)
        out["back_names"] = [b.op_code.name for b in back]
        out["back"] = [[param_to_wire(p) for p in b.params] for b in back]
    except BaseException as e:  # noqa
        out["comp_err"] = type(e).__name__ + ": " + str(e)[:160]
    return out


def e2e_ops_cases(cases: list[dict]) -> list[dict]:
    return [e2e_ops_one(c) for c in cases]


# ---------------------------------------------------------------------------------------------------------------------
# parse side: a literal spelling inside a real program
# ---------------------------------------------------------------------------------------------------------------------
def parse_one(c: dict) -> dict:
    """c = {lit, as: arg|pos, comp: exps|ssbs}: compile `zzprobe(<lit>);` or `zzprobe(Position<'m', <lit>, 0>);`"""
    from explorerscript.ssb_converting.ssb_compiler import ExplorerScriptSsbCompiler
    from explorerscript.ssb_script.ssb_converting.ssb_compiler import SsbScriptSsbCompiler
    lit = c["lit"]
    arg = lit if c["as"] == "arg" else f"Position<'m', {lit}, 0>"
    src = "def 0 {\n    zzprobe(" + arg + ");\n}\n"
    try:
        if c["comp"] == "exps":
            comp = ExplorerScriptSsbCompiler("PERF_VAR", [])
            comp.compile(src, "/tmp/c04_parse.exps")
        else:
            comp = SsbScriptSsbCompiler()
            comp.compile(src)
        back = _find(comp.routine_ops, PROBE)
        if len(back) != 1 or len(back[0].params) != 1:
            return {"err": "shape", "n": len(back), "params": [param_to_wire(p) for b in back for p in b.params][:4]}
        return {"back": param_to_wire(back[0].params[0])}
    except BaseException as e:  # noqa
        return {"err": type(e).__name__, "msg": str(e)[:120]}


def parse_cases(cases: list[dict]) -> list[dict]:
    return [parse_one(c) for c in cases]
