"""Multi-file projects for C08: a compiled file with routines and local macros, library files with macros in other
directories, imports (relative with ./ and ../, absolute, via lookup paths; direct and transitive), acyclic macro call
graphs across files.  All paths are virtual (relative to the project root); `materialize` writes them under a fresh
directory below /tmp and `cleanup` removes it.

project = {"root": "/tmp/c08w/<id>", "main": "proj/main.exps", "lookup": [abs paths],
           "files": {virtual path: surface AST}, "lay": {virtual path: [style, seed]},
           "direct_imports": [virtual paths imported by main], "imports_of": {path: [paths]}}
"""
from __future__ import annotations

import os
import posixpath
import random
import shutil
from typing import Any

from .programs import Cfg, ProgGen
from . import marked
from .marked import Marker, MacroBodyGen, make_call, all_blocks, strip_pos, has_pos, PATH_PARAMS

SCRATCH = "/tmp/c08w"

LAYOUTS = [
    # (main, libs)
    ("proj/main.exps", ["proj/a.exps", "proj/sub/b.exps", "lib/c.exps"]),
    ("main.exps", ["m1.exps", "inc/m2.exps", "inc/deep/m3.exps"]),
    ("proj/src/main.exps", ["proj/common.exps", "proj/src/local.exps", "other/x y.exps"]),
]


def import_spec(rnd: random.Random, root: str, frm: str, to: str, lookup: list[str]) -> str:
    """spelling of the import of file `to` inside file `frm`"""
    c = rnd.random()
    rel = posixpath.relpath(to, posixpath.dirname(frm) or ".")
    if c < 0.6:
        return rel if rel.startswith(".") else "./" + rel
    if c < 0.8:
        return posixpath.join(root, to)
    # through a lookup path: the directory of `to` becomes a lookup path (absolute), the spec is the bare file name;
    # only when no earlier lookup path has a file of that name
    d = posixpath.join(root, posixpath.dirname(to))
    if d not in lookup:
        lookup.append(d)
    return posixpath.basename(to)


class ProjectGen:
    def __init__(self, rnd: random.Random, cfg: Cfg, ident: str, mode: str | None = None):
        self.r = rnd
        self.cfg = cfg
        self.ident = ident
        # "marks": macros may contain Position literals, nested calls only across files;
        # "nest": nested calls also inside a file, no Position literal in any macro (the pinned tree hangs otherwise)
        # "nest_marks": both (hung the pinned tree: macro_posmark_nested_hang, repaired by /repo commit 1dfd06a)
        self.mode = mode or rnd.choice(["marks", "nest", "nest", "flat", "nest_marks"])
        self.stats: dict[str, int] = {}

    def hit(self, k: str, n: int = 1) -> None:
        self.stats[k] = self.stats.get(k, 0) + n

    def project(self) -> dict:
        r = self.r
        mk = Marker(r)
        main, libs = r.choice(LAYOUTS)
        libs = libs[: r.choice([0, 1, 2, 2, 3, 3])]
        root = posixpath.join(SCRATCH, self.ident)
        lookup: list[str] = []
        # import graph: main -> subset of libs; lib i -> libs j > i
        imports_of: dict[str, list[str]] = {main: []}
        for i, f in enumerate(libs):
            imports_of[f] = [g for g in libs[i + 1:] if r.random() < 0.45]
        for f in libs:
            reach_already = set()
            for d in imports_of[main]:
                reach_already |= self.closure(d, imports_of)
            if f not in reach_already or r.random() < 0.2:
                if r.random() < 0.75:
                    imports_of[main].append(f)
        files: dict[str, dict] = {}
        macro_home: dict[str, str] = {}
        order: list[tuple[str, dict]] = []    # (file, macro) in creation order: callees first
        n_macro = 0
        body_cfg = Cfg(max_depth=2, max_stmts=3, switches=self.cfg.switches, loops=self.cfg.loops, pos_marks=(self.mode in ("marks", "nest_marks")),
                       strings_nl=self.cfg.strings_nl, hdr_pos=getattr(self.cfg, "hdr_pos", 0.0))
        bg = MacroBodyGen(r, body_cfg)
        # libraries last-to-first so that callees exist
        for f in list(reversed(libs)) + [main]:
            ast: dict = {"imports": [], "macros": [], "routines": []}
            files[f] = ast
            vis = [m for g in self.closure_list(f, imports_of) if g != f for m in files[g]["macros"]]
            nm = r.choice([1, 1, 2, 3]) if f != main else r.choice([0, 0, 1, 2, 3])
            for _ in range(nm):
                n_macro += 1
                extra = ["$q"] if r.random() < 0.4 else []
                m = {"name": f"m{n_macro}_{r.choice(['a', 'Bx', 'c_1'])}", "params": PATH_PARAMS + extra, "body": bg.body()}
                if self.mode not in ("marks", "nest_marks"):
                    strip_pos(m["body"])
                if extra:
                    self.use_param(m["body"], "$q")
                mk.block(m["body"], True)
                # nested calls
                local = list(ast["macros"]) if self.mode in ("nest", "nest_marks") else []
                direct = [m2 for g2 in imports_of[f] for m2 in files[g2]["macros"]]
                pool_ = (direct + local) if (direct + local) and r.random() < 0.8 else (vis + local)
                cands = [c for c in pool_ if self.depth(c, files, macro_home) < marked.MAX_DEPTH - 1]
                if cands and r.random() < 0.6:
                    for _k in range(r.choice([1, 1, 2])):
                        callee = r.choice(cands)
                        blk = r.choice(all_blocks(m["body"]))
                        ncall = make_call(mk, callee["name"], True, self.extra_args(callee, True))
                        if r.random() < 0.3:
                            kind, blk = r.choice(tail_blocks(m["body"]))
                            blk.append(ncall)
                            self.hit("nested_call_last_in_" + kind)
                        else:
                            blk.insert(r.randint(0, len(blk)) if r.random() < 0.7 else 0, ncall)
                        self.hit("nested_call")
                        if macro_home[callee["name"]] == f:
                            self.hit("nested_call_same_file")
                if r.random() < 0.25:
                    lbl = f"ml{mk.tag()}"
                    m["body"].insert(r.randint(0, len(m["body"])), {"t": "label", "name": lbl})
                    blk = r.choice(all_blocks(m["body"]))
                    blk.insert(r.randint(0, len(blk)), {"t": "jump", "name": lbl})
                    self.hit("macro_label")
                ast["macros"].append(m)
                macro_home[m["name"]] = f
                order.append((f, m))
            if f != main and r.random() < 0.5:
                r.shuffle(ast["macros"])
        # the compiled file: routines from the base generator, marked, with calls inserted
        g = ProgGen(r, self.cfg)
        prog = g.program()
        for k, v in g.stats.items():
            self.hit(k, v)
        mast = files[main]
        mast["routines"] = prog["routines"]
        for rt in mast["routines"]:
            if rt["body"] is not None:
                mk.block(rt["body"], False)
        visible = [m for gname in self.closure_list(main, imports_of) for m in files[gname]["macros"]]
        bodies = [rt["body"] for rt in mast["routines"] if rt["body"] is not None]
        if visible and bodies:
            for _ in range(r.choice([1, 2, 2, 3, 4])):
                callee = r.choice(visible)
                near = [m for m in visible if macro_home[m["name"]] == main or macro_home[m["name"]] in imports_of[main]]
                if near and r.random() < 0.8:
                    callee = r.choice(near)
                body = r.choice(bodies)
                blk = r.choice(all_blocks(body))
                call = make_call(mk, callee["name"], False, self.extra_args(callee, False))
                tails = tail_blocks(body)
                if tails and r.random() < 0.45:
                    # the call as LAST op-producing statement of a loop body / case body / if branch / routine (what follows the
                    # expansion is then an op the enclosing construct generates: increment, back jump, end jump, loop test)
                    kind, blk = r.choice(tails)
                    at = len(blk)
                    if blk and blk[-1]["t"] == "ctrl" and blk[-1]["k"] in ("break", "continue", "break_loop") and r.random() < 0.5:
                        at -= 1
                    blk.insert(at, call)
                    self.hit("macro_call_last_in_" + kind)
                else:
                    blk.insert(r.randint(0, len(blk)), call)
                self.hit("macro_call")
                home = macro_home[callee["name"]]
                if home != main and home not in imports_of[main]:
                    self.hit("call_of_transitively_imported_macro")
        # item order of the compiled file: macros and routines interleaved
        n_items = len(mast["macros"]) + len(mast["routines"])
        if r.random() < 0.5:
            idx_m = list(range(len(mast["macros"])))
            idx_r = list(range(len(mast["macros"]), n_items))
            merged: list[int] = []
            while idx_m or idx_r:
                if idx_m and (not idx_r or r.random() < 0.5):
                    merged.append(idx_m.pop(r.randrange(len(idx_m))))
                else:
                    merged.append(idx_r.pop(0))      # routine order must stay
            mast["order"] = merged
        for f in files:
            files[f]["imports"] = [import_spec(r, root, f, t, lookup) for t in imports_of[f]]
        self.hit("files", len(files))
        self.hit("mode_" + self.mode)
        return {"root": root, "main": main, "lookup": lookup, "files": files, "lay": {}, "imports_of": imports_of,
                "mode": self.mode}

    # ---- helpers
    @staticmethod
    def closure(f: str, imports_of: dict[str, list[str]]) -> set:
        seen: set = set()
        todo = [f]
        while todo:
            x = todo.pop()
            if x in seen:
                continue
            seen.add(x)
            todo += imports_of.get(x, [])
        return seen

    def closure_list(self, f: str, imports_of: dict[str, list[str]]) -> list[str]:
        return sorted(self.closure(f, imports_of))

    def depth(self, m: dict, files: dict, home: dict) -> int:
        """longest chain of nested calls below macro m"""
        by_name = {x["name"]: x for a in files.values() for x in a["macros"]}
        best = 0
        for blk in all_blocks(m["body"]):
            for s in blk:
                if s["t"] == "macrocall" and s["name"] in by_name:
                    best = max(best, 1 + self.depth(by_name[s["name"]], files, home))
        return best

    def extra_args(self, callee: dict, in_macro: bool) -> list[dict]:
        if len(callee["params"]) <= len(PATH_PARAMS):
            return []
        c = self.r.random()
        if c < 0.5:
            return [{"k": "int", "v": self.r.randint(0, 999)}]
        if c < 0.8:
            return [{"k": "id", "v": self.r.choice(["ACTOR_PLAYER", "K", "DIR_DOWN"])}]
        if in_macro:
            return [{"k": "var", "v": "$p3"}]
        return [{"k": "int", "v": self.r.randint(0, 999)}]

    def use_param(self, body: list[dict], p: str) -> None:
        ops = [s for blk in all_blocks(body) for s in blk if s["t"] == "op"]
        if ops:
            self.r.choice(ops)["args"].append({"k": "var", "v": p})


def tail_blocks(body: list[dict]) -> list[tuple[str, list[dict]]]:
    """(kind, statement list) of every block whose end is followed by an op of the enclosing construct"""
    out: list[tuple[str, list[dict]]] = [("routine", body)]

    def walk(ss: list[dict]) -> None:
        for s in ss:
            t = s["t"]
            if t == "if":
                for b in s["branches"]:
                    out.append(("if", b["body"]))
                    walk(b["body"])
                if s.get("else") is not None:
                    out.append(("else", s["else"]))
                    walk(s["else"])
            elif t == "switch":
                for c in s["cases"]:
                    if c["body"]:
                        out.append(("case", c["body"]))
                    walk(c["body"])
            elif t in ("forever", "while", "for"):
                out.append((t, s["body"]))
                walk(s["body"])
    walk(body)
    # loops first: they are rarer than if branches
    loops = [x for x in out if x[0] in ("for", "while", "forever")]
    return loops * 3 + out


def layouts_for(project: dict, rnd: random.Random, style: str) -> None:
    project["lay"] = {f: [style, rnd.getrandbits(32)] for f in project["files"]}


def texts_of(project: dict) -> tuple[dict, dict]:
    """-> ({path: text}, {path: positions}) ; positions are keyed by id() of the nodes of project["files"]"""
    texts, pos = {}, {}
    for f, ast in project["files"].items():
        style, seed = project["lay"].get(f, ["canonical", 0])
        texts[f], pos[f] = marked.print_file(ast, style, seed)
    return texts, pos


def materialize(root: str, texts: dict) -> None:
    for f, t in texts.items():
        p = os.path.join(root, f)
        os.makedirs(os.path.dirname(p), exist_ok=True)
        with open(p, "w", encoding="utf-8") as fh:
            fh.write(t)


def cleanup(root: str) -> None:
    if root.startswith(SCRATCH + "/"):
        shutil.rmtree(root, ignore_errors=True)
