"""Grammar- and construct-directed generator of statically valid ExplorerScript programs (surface AST)."""
from __future__ import annotations

import random
from typing import Any

from .surface import PERF_VAR

PLAIN_OPS = ["Wait", "message_Talk", "camera_Move", "se_Play", "back_SetGround", "screen_FadeIn", "supervision_Acting",
             "Turn2Direction", "SetAnimation", "WaitExecuteLives", "message_Close", "bgm_Play", "x", "Op_1"]
HALT_OPS = ["Destroy", "JumpCommon"]
BRANCH_OPS = [("BranchExecuteSub", 1), ("BranchSum", 3), ("BranchVariation", 1), ("BranchEdit", 1)]
CONSTS = ["ACTOR_PLAYER", "DIR_DOWN", "BGM_X", "FACE_HAPPY", "K", "TRUE_", "OBJECT_1"]
VARS = ["$SCENARIO_MAIN", "$X", "$EVENT_LOCAL", "$v2", PERF_VAR]
LANGS = ["english", "french", "german", "italian", "spanish"]
STR_ALPHA = list("abc XYZ,.!?äß") + ["'", '"', "\n", "[", "]", "{", "}", "  ", ":", ";", "//", "/*", "@", "~"]
CMP = ["FALSE", "TRUE", "==", ">", "<", ">=", "<=", "!=", "&", "^", "&<<"]
ASSIGN_OPS = ["=", "-=", "+=", "*=", "/="]


class Cfg:
    def __init__(self, **kw: Any):
        self.max_depth = 3
        self.max_stmts = 6
        self.max_routines = 3
        self.labels = True
        self.loops = True
        self.switches = True
        self.macros = False
        self.strings_nl = True
        self.int_styles = False
        self.pos_marks = True
        self.flat = False          # C13: flat structured programs only
        self.coro = False
        self.p_halt = 0.08
        self.dead_code = 0.15       # probability that a block keeps statements after one that ends the control flow
        self.reader_shaped = False  # only op shapes a binary SSB reader delivers (int flags for BranchEdit/Variation…)
        self.hdr_pos = 0.0          # share of condition operations (if / while / for headers) that carry a Position literal
        self.with_halt = 0.0        # share of with-blocks whose statement is return / end / hold (behind a context op nothing stops the routine)
        self.goto_style = 0.0       # share of routines written with labels, `if (c) { jump @l; }` and jumps only: the compiler folds
                                    # lone jumps into the branch ops, which gives layouts of flow graphs that structured source never yields
        for k, v in kw.items():
            setattr(self, k, v)


class ProgGen:
    def __init__(self, rnd: random.Random, cfg: Cfg | None = None):
        self.r = rnd
        self.cfg = cfg or Cfg()
        self.label_pool: list[str] = []
        self.jumps: list[str] = []
        self.n_label = 0
        self.stats: dict[str, int] = {}

    def hit(self, k: str) -> None:
        self.stats[k] = self.stats.get(k, 0) + 1

    # ---- atoms
    def int_(self, lo: int = -3, hi: int = 40) -> dict:
        v = self.r.choice([0, 1, 2, 3, 5, 10, 255, self.r.randint(lo, hi), self.r.randint(0, 20000)])
        d: dict = {"k": "int", "v": v}
        if self.cfg.int_styles and self.r.random() < 0.4:
            d["style"] = {"base": self.r.choice([2, 8, 16, 10]), "upper": self.r.random() < 0.5}
        return d

    def il(self, kinds: str = "icv") -> dict:
        k = self.r.choice(kinds)
        if k == "i":
            return self.int_()
        if k == "c":
            return {"k": "id", "v": self.r.choice(CONSTS)}
        if k == "v":
            return {"k": "var", "v": self.r.choice(VARS[:-1])}
        if k == "d":
            return {"k": "dec", "v": self.r.choice(["1.5", "0.25", "-2.75", ".5", "-.5", "007.250", "-0.5", "-00.10", "12.0"])}
        raise ValueError(k)

    def string(self) -> str:
        n = self.r.choice([0, 1, 3, 6, 12])
        s = "".join(self.r.choice(STR_ALPHA) for _ in range(n))
        if not self.cfg.strings_nl:
            s = s.replace("\n", " ")
        return s

    def arg(self) -> dict:
        c = self.r.random()
        if c < 0.45:
            return self.il("iiicvd" if self.r.random() < 0.3 else "iicv")
        if c < 0.7:
            return {"k": "str", "v": self.string(), "quote": self.r.choice(['"', "'"])}
        if c < 0.82:
            langs = self.r.sample(LANGS, self.r.randint(1, 3))
            return {"k": "lang", "v": [[l, self.string()] for l in langs], "trailing_comma": self.r.random() < 0.5}
        if c < 0.95 and self.cfg.pos_marks:
            return {"k": "pos", "name": self.r.choice(["m0", "Mark", "p_1", ""]), "x": self.r.choice(["0", "12", "3.5", "7.0", "0.5"]),
                    "y": self.r.choice(["1", "20.5", "4", "9.50"]), "quote": self.r.choice(["'", '"'])}
        return self.il("ic")

    def args(self, n: int | None = None) -> list[dict]:
        n = self.r.choice([0, 1, 1, 2, 3]) if n is None else n
        return [self.arg() for _ in range(n)]

    # ---- headers
    def header(self) -> dict:
        c = self.r.random()
        self.hit("hdr")
        if c < 0.4:
            vo = self.r.random() < 0.3
            return {"h": "op", "left": self.il("vvc i".replace(" ", "")), "cmp": self.r.choice(CMP), "right": self.il("vc" if vo else "iic"), "value_of": vo}
        if c < 0.55:
            if self.r.random() < 0.4:
                return {"h": "bit", "not": self.r.random() < 0.5, "var": {"k": "var", "v": PERF_VAR}, "index": self.r.randint(0, 9)}
            return {"h": "bit", "not": False, "var": self.il("vc"), "index": self.r.randint(0, 9)}
        if c < 0.7:
            return {"h": "neg", "not": self.r.random() < 0.4, "kw": self.r.choice(["debug", "edit", "variation"])}
        if c < 0.9:
            return {"h": "scn", "var": self.il("vc"), "cmp": self.r.choice(["==", ">", "<", ">=", "<="]), "a": self.r.randint(0, 50), "b": self.r.randint(0, 9)}
        nm, ar = self.r.choice(BRANCH_OPS[:2] if self.cfg.reader_shaped else BRANCH_OPS)
        hargs = [self.il("ic") for _ in range(ar)]
        if getattr(self.cfg, "hdr_pos", 0) and self.cfg.pos_marks and ar >= 1 and self.r.random() < self.cfg.hdr_pos:
            # a Position literal as an argument of a condition operation (if / elseif / while / for headers)
            self.hit("hdr_pos")
            hargs[-1] = {"k": "pos", "name": self.r.choice(["m0", "Mark", "p_1", ""]), "x": self.r.choice(["0", "12", "3.5", "7.0", "0.5"]),
                         "y": self.r.choice(["1", "20.5", "4", "9.50"]), "quote": self.r.choice(["'", '"'])}
        return {"h": "operation", "name": nm, "args": hargs}

    def switch_header(self) -> dict:
        c = self.r.random()
        if c < 0.35:
            return {"s": "var", "v": self.il("vc")}
        if c < 0.5:
            return {"s": "scn", "v": self.il("vc"), "index": self.r.choice([0, 1])}
        if c < 0.62:
            return {"s": "random", "v": self.il("ic")}
        if c < 0.74:
            return {"s": "dungeon_mode", "v": self.il("ic")}
        if c < 0.82:
            return {"s": "sector"}
        return {"s": "operation", "name": self.r.choice(["message_SwitchMenu", "ProcessSpecial", "message_Menu", "main_EnterAdventure", "SomeOp"]), "args": self.args(self.r.choice([0, 1, 2]))}

    def case_header(self) -> dict:
        c = self.r.random()
        if c < 0.45:
            return {"c": "value", "v": self.il("iic")}
        if c < 0.75:
            vo = self.r.random() < 0.3
            return {"c": "op", "cmp": self.r.choice(CMP), "v": self.il("vc" if vo else "iic"), "value_of": vo}
        if c < 0.9:
            if self.r.random() < 0.5:
                return {"c": "menu", "v": {"k": "str", "v": self.string(), "quote": '"'}}
            return {"c": "menu", "v": {"k": "lang", "v": [[l, self.string()] for l in self.r.sample(LANGS, 2)]}}
        return {"c": "menu2", "v": self.il("ic")}

    # ---- statements
    def plain(self) -> dict:
        """operation / assignment / with-block / message switch: statements that just emit ops"""
        c = self.r.random()
        if c < 0.45:
            self.hit("op")
            s: dict = {"t": "op", "name": self.r.choice(PLAIN_OPS), "args": self.args(), "trailing_comma": self.r.random() < 0.15}
            if self.r.random() < 0.15:
                self.hit("inline_ctx")
                s["ctx"] = {"kind": self.r.choice(["actor", "object", "performer"]), "target": self.il("ic")}
            return s
        if c < 0.75:
            return self.assign()
        if c < 0.9:
            self.hit("with")
            inner = self.assign() if self.r.random() < 0.3 else {"t": "op", "name": self.r.choice(PLAIN_OPS), "args": self.args()}
            if self.cfg.with_halt and self.r.random() < self.cfg.with_halt:
                self.hit("with_halt")
                inner = {"t": "ctrl", "k": self.r.choice(["return", "end", "hold"])}
            return {"t": "with", "kind": self.r.choice(["actor", "object", "performer"]), "target": self.il("ic"), "stmt": inner}
        self.hit("msgswitch")
        cases = [{"default": False, "v": self.il("ic"), "string": self.msg_string()} for _ in range(self.r.randint(0, 3))]
        if self.r.random() < 0.6:
            cases.insert(self.r.randint(0, len(cases)), {"default": True, "v": None, "string": self.msg_string()})
        return {"t": "msgswitch", "kind": self.r.choice(["talk", "monologue"]), "v": self.il("vc"), "cases": cases}

    def msg_string(self) -> dict:
        if self.r.random() < 0.5:
            return {"k": "str", "v": self.string(), "quote": self.r.choice(['"', "'"])}
        return {"k": "lang", "v": [[l, self.string()] for l in self.r.sample(LANGS, self.r.randint(1, 2))]}

    def assign(self) -> dict:
        self.hit("assign")
        c = self.r.random()
        if c < 0.45:
            vo = self.r.random() < 0.25
            idx = None
            tgt = self.il("vc")
            if not vo and self.r.random() < 0.3:
                idx = self.r.randint(0, 7)
                if self.r.random() < 0.4:
                    tgt = {"k": "var", "v": PERF_VAR}
            return {"t": "assign", "form": "regular", "target": tgt, "index": idx, "op": self.r.choice(ASSIGN_OPS),
                    "value": self.il("vc" if vo else "iic"), "value_of": vo}
        if c < 0.55:
            return {"t": "assign", "form": "clear", "target": self.il("vc")}
        if c < 0.63:
            return {"t": "assign", "form": "init", "target": self.il("vc")}
        if c < 0.73:
            return {"t": "assign", "form": "reset", "target": None if self.r.random() < 0.5 else self.il("vc")}
        if c < 0.8:
            return {"t": "assign", "form": "adv_log", "value": self.il("ic")}
        if c < 0.9:
            return {"t": "assign", "form": "dungeon_mode", "target": self.il("ic"), "value": self.il("ic")}
        return {"t": "assign", "form": "scn", "target": self.il("vc"), "a": self.r.randint(0, 60), "b": self.r.randint(0, 5)}

    def new_label(self) -> str:
        self.n_label += 1
        return f"l{self.n_label}"

    def stmt(self, depth: int, in_loop: bool, in_case: bool) -> dict:
        cfg = self.cfg
        c = self.r.random()
        blocks_ok = depth < cfg.max_depth and not cfg.flat
        if c < 0.42 or (cfg.flat and depth > 0):
            return self.plain()
        if c < 0.56:
            return self.if_(depth, in_loop, in_case)
        if c < 0.66 and cfg.switches and (blocks_ok or (cfg.flat and depth == 0)):
            return self.switch(depth, in_loop)
        if c < 0.78 and cfg.loops and blocks_ok:
            return self.loop(depth, in_case)
        if c < 0.9 and cfg.labels and not cfg.flat:
            k = self.r.random()
            if k < 0.3:
                self.hit("label")
                nm = self.new_label()
                self.label_pool.append(nm)
                return {"t": "label", "name": nm, "paragraph": self.r.random() < 0.15}
            nm = self.r.choice(self.label_pool) if self.label_pool and self.r.random() < 0.6 else f"f{self.r.randint(0, 3)}"
            self.jumps.append(nm)
            self.hit("jump" if k < 0.8 else "call")
            return {"t": "jump" if k < 0.8 else "call", "name": nm}
        if not cfg.flat:
            opts = []
            if in_loop:
                opts += ["continue", "break_loop"]
            if in_case:
                opts += ["break"]
            if self.r.random() < cfg.p_halt * 3 or not opts:
                if self.r.random() < 0.25:
                    nm = self.r.choice(HALT_OPS)
                    return {"t": "op", "name": nm, "args": self.args(0 if nm == "Destroy" else 1)}
                self.hit("halt")
                return {"t": "ctrl", "k": self.r.choice(["return", "end", "hold"])}
            k2 = self.r.choice(opts)
            self.hit(k2)
            return {"t": "ctrl", "k": k2}
        return self.plain()

    def block(self, depth: int, in_loop: bool, in_case: bool, allow_empty: bool = True) -> list[dict]:
        n = self.r.choice([0, 1, 1, 2, 2, 3, self.cfg.max_stmts]) if allow_empty else self.r.choice([1, 1, 2, 3])
        if self.cfg.flat:
            return [self.plain() for _ in range(n)]
        return self.trim_dead([self.stmt(depth + 1, in_loop, in_case) for _ in range(n)])

    @staticmethod
    def ends_flow(s: dict) -> bool:
        t = s["t"]
        return t in ("ctrl", "jump") or (t == "op" and s["name"] in HALT_OPS)

    def trim_dead(self, body: list[dict]) -> list[dict]:
        """unless dead code is wanted, cut a statement list after its first control-flow-ending statement"""
        if self.r.random() < self.cfg.dead_code:
            return body
        for i, s in enumerate(body):
            if self.ends_flow(s):
                # labels after it are reachable by jumps: keep everything from the first label on
                rest = body[i + 1:]
                for j, t in enumerate(rest):
                    if t["t"] == "label":
                        return body[:i + 1] + self.trim_dead(rest[j:])
                return body[:i + 1]
        return body

    def if_(self, depth: int, in_loop: bool, in_case: bool) -> dict:
        self.hit("if")
        brs = []
        for i in range(self.r.choice([1, 1, 1, 2, 3])):
            neg = self.r.random() < 0.3
            if neg:
                self.hit("if_not")
            hs = [self.header() for _ in range(self.r.choice([1, 1, 1, 2, 3]))]
            brs.append({"not": neg, "headers": hs, "body": self.block(depth, in_loop, in_case)})
        els = self.block(depth, in_loop, in_case) if self.r.random() < 0.45 else None
        if els is not None:
            self.hit("else")
        return {"t": "if", "branches": brs, "else": els}

    def switch(self, depth: int, in_loop: bool) -> dict:
        self.hit("switch")
        n = self.r.choice([0, 1, 2, 3, 4])
        cases = []
        hdr = self.switch_header()
        menu_only = False
        if self.cfg.reader_shaped:
            # the game pairs message_SwitchMenu with menu cases and every other switch header with value cases
            while hdr["s"] == "operation" and hdr["name"] == "SomeOp":
                hdr = self.switch_header()
            menu_only = hdr["s"] == "operation" and hdr["name"].startswith("message_SwitchMenu")
        for _ in range(n):
            body = self.block(depth, in_loop, True)
            if self.cfg.flat:
                body = [self.plain() for _ in range(self.r.choice([0, 1, 2]))]
                if body or self.r.random() < 0.3:
                    body.append({"t": "ctrl", "k": "break"})
            elif self.r.random() < 0.5 and not (body and self.ends_flow(body[-1])):
                body.append({"t": "ctrl", "k": "break"})
            ch = self.case_header()
            if self.cfg.reader_shaped:
                while (ch["c"] in ("menu", "menu2")) != menu_only:
                    ch = self.case_header()
            cases.append({"default": False, "header": ch, "body": body})
        if self.r.random() < 0.5:
            body = self.block(depth, in_loop, True)
            if self.cfg.flat:
                body = [self.plain() for _ in range(self.r.choice([0, 1, 2]))] + [{"t": "ctrl", "k": "break"}]
            cases.insert(self.r.randint(0, len(cases)), {"default": True, "header": None, "body": body})
            self.hit("default")
        # a switch must not end in an empty case
        if cases and not cases[-1]["body"]:
            cases[-1]["body"] = [self.plain()] + ([{"t": "ctrl", "k": "break"}] if self.cfg.flat else [])
        return {"t": "switch", "header": hdr, "cases": cases}

    def loop(self, depth: int, in_case: bool) -> dict:
        c = self.r.random()
        if c < 0.35:
            self.hit("forever")
            return {"t": "forever", "body": self.block(depth, True, in_case)}
        if c < 0.7:
            self.hit("while")
            return {"t": "while", "not": self.r.random() < 0.4, "header": self.header(), "body": self.block(depth, True, in_case)}
        self.hit("for")
        return {"t": "for", "init": self.assign(), "header": self.header(), "inc": self.assign(), "body": self.block(depth, True, in_case)}

    # ---- routines / program
    def goto_body(self) -> list[dict]:
        """labels, conditional lone jumps, jumps and plain ops at the top level of a routine (all labels local and defined)"""
        self.hit("goto_routine")
        nl = self.r.randint(1, 4)
        labels = [self.new_label() for _ in range(nl)]
        n = self.r.randint(2, 5 + self.cfg.max_stmts)
        body: list[dict] = []
        for _ in range(n):
            c = self.r.random()
            if c < 0.4:
                body.append(self.plain())
            elif c < 0.75:
                hs = [self.header() for _ in range(self.r.choice([1, 1, 1, 2]))]
                nm = self.r.choice(labels)
                self.jumps.append(nm)
                body.append({"t": "if", "branches": [{"not": self.r.random() < 0.25, "headers": hs, "body": [{"t": "jump", "name": nm}]}], "else": None})
            elif c < 0.85:
                nm = self.r.choice(labels)
                self.jumps.append(nm)
                body.append({"t": "jump", "name": nm})
            elif c < 0.93:
                body.append({"t": "ctrl", "k": self.r.choice(["return", "end", "hold"])})
            elif self.cfg.max_depth > 1:
                body.append(self.if_(self.cfg.max_depth - 1, False, False))
        if self.r.random() < 0.5:
            # a ladder of tests without any Jump between them, followed by their targets in some order
            # ('Branch a -> T; Branch b -> E; T: ...; E: ...'): hand-written / other compilers' layout of if-or-not chains
            self.hit("goto_ladder")
            k = self.r.randint(2, 3)
            ls = [self.new_label() for _ in range(k)]
            ladder: list[dict] = []
            for nm in ls:
                self.jumps.append(nm)
                ladder.append({"t": "if", "branches": [{"not": self.r.random() < 0.2, "headers": [self.header()], "body": [{"t": "jump", "name": nm}]}], "else": None})
            order = ls[:]
            self.r.shuffle(order)
            if self.r.random() < 0.4:
                ladder.append(self.plain())
                if self.r.random() < 0.5:
                    ladder.append({"t": "jump", "name": self.r.choice(ls)})
            for nm in order:
                ladder.append({"t": "label", "name": nm})
                self.label_pool.append(nm)
                if self.r.random() < 0.8:
                    ladder.append(self.plain())
                if self.r.random() < 0.2:
                    ladder.append({"t": "ctrl", "k": self.r.choice(["return", "end", "hold"])})
            at = self.r.randint(0, len(body))
            body[at:at] = ladder
        for nm in labels:
            # half of the labels directly behind a (conditional) jump: tests that aim just past the next test / jump
            spots = [i + 1 for i, s in enumerate(body) if s["t"] in ("if", "jump")]
            at = self.r.choice(spots) if spots and self.r.random() < 0.5 else self.r.randint(0, len(body))
            body.insert(at, {"t": "label", "name": nm})
            self.label_pool.append(nm)
        if self.r.random() < 0.6:
            body.append({"t": "ctrl", "k": self.r.choice(["return", "end", "hold"])})
        return body

    def routine_body(self) -> list[dict]:
        cfg = self.cfg
        if cfg.goto_style and self.r.random() < cfg.goto_style:
            return self.goto_body()
        n = self.r.choice([0, 1, 2, 3, 4, cfg.max_stmts, cfg.max_stmts + 3])
        body = self.trim_dead([self.stmt(0, False, False) for _ in range(n)])
        if not body:
            body = [self.plain()]
        c = self.r.random()
        if body and self.ends_flow(body[-1]) and not cfg.flat:
            return body
        if cfg.flat or c < 0.6:
            body.append({"t": "ctrl", "k": self.r.choice(["return", "end", "hold"])})
        elif c < 0.7 and cfg.labels:
            nm = self.new_label()
            self.label_pool.append(nm)
            body.append({"t": "label", "name": nm})
            self.hit("label_at_end")
        else:
            self.hit("no_terminator")
        return body

    def program(self) -> dict:
        cfg = self.cfg
        self.label_pool, self.jumps, self.n_label = [], [], 0
        routines = []
        nr = self.r.randint(1, cfg.max_routines)
        for i in range(nr):
            if cfg.coro:
                r: dict = {"kind": "coro", "id": i, "name": f"CORO_{i}", "body": self.routine_body()}
            else:
                k = self.r.random()
                if k < 0.6:
                    r = {"kind": "def", "id": i, "body": self.routine_body()}
                else:
                    r = {"kind": "for", "id": i, "tkind": self.r.choice(["actor", "object", "performer"]),
                         "target": self.il("ic"), "legacy": self.r.random() < 0.3, "body": self.routine_body()}
                if i > 0 and self.r.random() < 0.1:
                    r["body"] = None
                    self.hit("alias")
            routines.append(r)
        # define every referenced-but-undefined label somewhere legal
        defined, used = self.scan_labels(routines)
        missing = sorted(used - defined)
        for nm in missing:
            spots = [r for r in routines if r["body"] is not None]
            if not spots:
                routines[0]["body"] = []
                spots = [routines[0]]
            body = self.r.choice(spots)["body"]
            if not cfg.flat and self.r.random() < 0.15:
                # a label that only jumps reach: behind a terminator at the end of a routine (dead in its own routine when
                # the jump comes from another one)
                self.hit("label_behind_terminator")
                if not (body and self.ends_flow(body[-1])):
                    body.append({"t": "ctrl", "k": self.r.choice(["return", "end", "hold"])})
                body += [{"t": "label", "name": nm}, self.plain(), {"t": "ctrl", "k": self.r.choice(["return", "end", "hold"])}]
                continue
            tgt = self.pick_block(body)
            tgt.insert(self.r.randint(0, len(tgt)), {"t": "label", "name": nm})
        return {"imports": [], "macros": [], "routines": routines}

    @staticmethod
    def scan_labels(routines: list[dict]) -> tuple[set, set]:
        defined: set = set()
        used: set = set()

        def walk(ss: list[dict]) -> None:
            for s in ss:
                t = s["t"]
                if t == "label":
                    defined.add(s["name"])
                elif t in ("jump", "call"):
                    used.add(s["name"])
                elif t == "with":
                    walk([s["stmt"]])
                elif t == "if":
                    for b in s["branches"]:
                        walk(b["body"])
                    if s.get("else") is not None:
                        walk(s["else"])
                elif t == "switch":
                    for c in s["cases"]:
                        walk(c["body"])
                elif t in ("forever", "while", "for"):
                    walk(s["body"])
        for r in routines:
            if r["body"] is not None:
                walk(r["body"])
        return defined, used

    def pick_block(self, body: list[dict]) -> list[dict]:
        """a statement list (possibly nested) into which a label may be inserted"""
        cur = body
        while self.r.random() < 0.4:
            subs = []
            for s in cur:
                t = s["t"]
                if t == "if":
                    subs += [b["body"] for b in s["branches"]] + ([s["else"]] if s.get("else") is not None else [])
                elif t == "switch":
                    subs += [c["body"] for c in s["cases"] if c["body"]]
                elif t in ("forever", "while", "for"):
                    subs.append(s["body"])
            if not subs:
                break
            cur = self.r.choice(subs)
        return cur


def count_stmts(p: dict) -> int:
    def cs(ss: list[dict]) -> int:
        n = 0
        for s in ss:
            n += 1
            t = s["t"]
            if t == "if":
                n += sum(cs(b["body"]) for b in s["branches"]) + (cs(s["else"]) if s.get("else") else 0)
            elif t == "switch":
                n += sum(cs(c["body"]) for c in s["cases"])
            elif t in ("forever", "while", "for"):
                n += cs(s["body"])
        return n
    return sum(cs(r["body"]) for r in p["routines"] if r["body"] is not None) + sum(cs(m["body"]) for m in p.get("macros", []))
