"""Lowering of the surface AST (harness/gen/surface.py) to the input of the Lean compiler model (lean/ESV/Comp/Ast.lean,
decoded by lean/Driver/Comp.lean).

It uses the lowering table of surface.py (opcode name + parameter list of every header / assignment form, message
switches as straight op lists) and keeps what only the code generator reacts to:
  * headers written as an operation carry isOp = True,
  * operations with an inline context ("inl") and with-blocks ("with") stay apart,
  * elseif blocks stay apart from the first branch of an if,
  * case headers are NOT rewritten to CaseScenario under SwitchScenario (the compiler model does that, as the compiler does),
  * routines come in source order with their id rule (def N -> N, coro -> previous + 1) and table data.

STMT = ["op", name, params] | ["inl", ctxop, ctxparam, name, params] | ["with", ctxop, ctxparam, STMT]
     | ["label"|"jump"|"call", name] | ["ret"] | ["end"] | ["hold"] | ["break"] | ["continue"] | ["break_loop"]
     | ["if", neg, [HDR], [STMT], [[neg, [HDR], [STMT]]], [STMT] | null]
     | ["switch", HDR, [[isDefault, name | null, params | null, [STMT]]]]
     | ["forever", [STMT]] | ["while", neg, HDR, [STMT]] | ["for", STMT, HDR, STMT, [STMT]] | ["macro", name, params]
HDR  = [isOp, name, params]
"""
from __future__ import annotations

from typing import Any

from . import surface as S


def hdr(h: dict) -> list:
    name, params = S.lower_header(h)
    return [h["h"] == "operation", name, params]


def switch_hdr(s: dict) -> list:
    name, params = S.lower_switch_header(s)
    return [s["s"] == "operation", name, params]


def stmt(s: dict) -> list[list]:
    t = s["t"]
    if t == "op":
        params = [S.arg_param(a) for a in s["args"]]
        if s.get("ctx"):
            return [["inl", S.CTX_OPS[s["ctx"]["kind"]], S.il_param(s["ctx"]["target"]), s["name"], params]]
        return [["op", s["name"], params]]
    if t in ("label", "jump", "call"):
        return [[t, s["name"]]]
    if t == "ctrl":
        return [[{"return": "ret", "end": "end", "hold": "hold", "break": "break", "continue": "continue", "break_loop": "break_loop"}[s["k"]]]]
    if t == "assign":
        return [S.lower_assign(s)]
    if t == "with":
        inner = stmt(s["stmt"])
        assert len(inner) == 1
        return [["with", S.CTX_OPS[s["kind"]], S.il_param(s["target"]), inner[0]]]
    if t == "if":
        b0 = s["branches"][0]
        elifs = [[bool(b.get("not")), [hdr(h) for h in b["headers"]], block(b["body"])] for b in s["branches"][1:]]
        return [["if", bool(b0.get("not")), [hdr(h) for h in b0["headers"]], block(b0["body"]), elifs,
                 None if s.get("else") is None else block(s["else"])]]
    if t == "switch":
        cases = []
        for c in s["cases"]:
            if c.get("default"):
                cases.append([True, None, None, block(c["body"])])
            else:
                name, params = S.lower_case_header(c["header"], "")
                cases.append([False, name, params, block(c["body"])])
        return [["switch", switch_hdr(s["header"]), cases]]
    if t == "msgswitch":
        return [[x[0], x[1], x[2]] for x in S.lower_stmt(s)]
    if t == "forever":
        return [["forever", block(s["body"])]]
    if t == "while":
        return [["while", bool(s.get("not")), hdr(s["header"]), block(s["body"])]]
    if t == "for":
        i, n = stmt(s["init"]), stmt(s["inc"])
        assert len(i) == 1 and len(n) == 1
        return [["for", i[0], hdr(s["header"]), n[0], block(s["body"])]]
    if t == "macrocall":
        return [["macro", s["name"], [S.arg_param(a) for a in s["args"]]]]
    raise ValueError(t)


def block(stmts: list[dict]) -> list[list]:
    out: list[list] = []
    for s in stmts:
        out += stmt(s)
    return out


def info_tag(r: dict) -> str:
    """what the routine info is built from, as one opaque string (compared with the real table by the harness)"""
    if r["kind"] == "coro":
        return "COROUTINE:0:"
    if r["kind"] == "def":
        return "GENERIC:0:"
    typ = {"actor": "ACTOR", "object": "OBJECT", "performer": "PERFORMER"}[r["tkind"]]
    tgt = r["target"]
    if tgt["k"] == "int":
        return f"{typ}:{tgt['v']}:"
    return f"{typ}:-1:{tgt['v']}"


def info_tag_of_json(i: Any) -> Any:
    if i is None:
        return None
    return f"{i['type']}:{i['linked_to']}:{i['linked_to_name'] or ''}"


def program(p: dict, macro_order: list[str] | None = None) -> dict:
    macros = [{"name": m["name"], "vars": m["params"], "body": block(m["body"])} for m in p.get("macros", [])]
    routines = []
    for r in p["routines"]:
        routines.append({"rid": None if r["kind"] == "coro" else r["id"], "info": info_tag(r),
                         "coro": r["name"] if r["kind"] == "coro" else None,
                         "body": [] if r["body"] is None else block(r["body"])})
    return {"macros": macros, "macro_order": macro_order if macro_order is not None else [m["name"] for m in macros], "routines": routines}
