"""Generator of ExplorerScript programs with macros and of multi-file layouts (property C05).

A *case* is a JSON-able dict
  {"name", "tags": [...], "files": {relpath: surface AST}, "main": relpath, "lookup": [str], "dirs": [relpath],
   "expect": "ok" | "missing" | "cycle" | "routines_in_import" | "dot_component" | "too_few_args" | "macro_cycle" | "dir_candidate"}
Paths are relative to a temporary root the worker creates under /tmp; `{ROOT}` inside import strings / lookup paths
stands for that root.  Surface ASTs are those of harness/gen/surface.py (`macros` = [{"name","params","body"}]).

Three families:
  dag_cases     every acyclic call-graph shape with <= n macros x every definition order x call orders, plain bodies
  rich_case     random DAG, bodies from ProgGen (labels/jumps with the same names everywhere, return nested in if/loops,
                loops, switches), all argument kinds, parameters passed on, shadowing parameter names, too many arguments,
                calls inside blocks, several calls of one macro
  layout_case   macros spread over imported files: relative / absolute / lookup-path imports, shadowing between lookup
                paths, nested and diamond imports; invalid layouts (missing file, import cycle, routines in an imported
                file, '.'/'..' components, empty lookup list)
"""
from __future__ import annotations

import copy
import itertools
import posixpath
import random
from typing import Any, Iterator

from .programs import CONSTS, LANGS, Cfg, ProgGen
from .surface import PERF_VAR

ROOT = "{ROOT}"
PARAM_POOL = ["$a", "$b", "$c", "$x", "$X", "$v2"]     # "$X", "$v2" are also game-variable names used by ProgGen bodies
GAME_VARS = ["$SCENARIO_MAIN", "$X", "$EVENT_LOCAL", "$v2"]


# ----------------------------------------------------------------------------------------------------------------------
# acyclic call graphs
# ----------------------------------------------------------------------------------------------------------------------
def all_dags(n: int) -> Iterator[list[list[int]]]:
    """calls[i] = macros (j > i) that macro i calls: every DAG has such a numbering"""
    pairs = [(i, j) for i in range(n) for j in range(i + 1, n)]
    for mask in range(1 << len(pairs)):
        calls: list[list[int]] = [[] for _ in range(n)]
        for b, (i, j) in enumerate(pairs):
            if mask >> b & 1:
                calls[i].append(j)
        yield calls


def canon(calls: list[list[int]]) -> tuple:
    n = len(calls)
    edges = [(i, j) for i in range(n) for j in calls[i]]
    best = None
    for perm in itertools.permutations(range(n)):
        key = tuple(sorted((perm[i], perm[j]) for i, j in edges))
        if best is None or key < best:
            best = key
    return (n, best)


_SHAPES: dict[int, list[list[list[int]]]] = {}


def dag_shapes(n: int) -> list[list[list[int]]]:
    """one representative per isomorphism class of DAGs with exactly n vertices (1, 2, 6, 31, 302 for n = 1..5)"""
    if n not in _SHAPES:
        seen: dict = {}
        for c in all_dags(n):
            seen.setdefault(canon(c), c)
        _SHAPES[n] = list(seen.values())
    return _SHAPES[n]


def shape_info(calls: list[list[int]]) -> dict:
    """statistics of a call graph (edges caller -> callee)"""
    n = len(calls)
    memo: dict[int, int] = {}

    def depth(i: int) -> int:
        if i not in memo:
            memo[i] = 1 + max([depth(j) for j in calls[i]], default=0)
        return memo[i]
    # path lengths between all pairs (sets), to find diamonds and the "paths of different length" class
    lens: dict[tuple[int, int], set] = {}

    def paths(i: int) -> dict[int, set]:
        out: dict[int, set] = {i: {0}}
        for j in calls[i]:
            for k, ls in paths(j).items():
                out.setdefault(k, set()).update(l + 1 for l in ls)
        return out
    npaths_multi = False
    ungraded = False
    for i in range(n):
        cnt: dict[int, int] = {}

        def count(a: int) -> None:
            for j in calls[a]:
                cnt[j] = cnt.get(j, 0) + 1
                count(j)
        count(i)
        if any(v > 1 for v in cnt.values()):
            npaths_multi = True
        for k, ls in paths(i).items():
            lens[(i, k)] = ls
            if len(ls) > 1:
                ungraded = True
    indeg = [0] * n
    for i in range(n):
        for j in calls[i]:
            indeg[j] += 1
    ne = sum(len(c) for c in calls)
    return {"n": n, "edges": ne, "depth": max([depth(i) for i in range(n)], default=0),
            "chain": n >= 2 and ne == n - 1 and all(len(c) <= 1 for c in calls) and max(indeg, default=0) <= 1 and max([depth(i) for i in range(n)]) == n,
            "diamond": npaths_multi, "shared_callee": any(d >= 2 for d in indeg), "multi_callee": any(len(c) >= 2 for c in calls),
            "unequal_paths": ungraded, "isolated": sum(1 for i in range(n) if not calls[i] and indeg[i] == 0)}


# ----------------------------------------------------------------------------------------------------------------------
# small AST helpers
# ----------------------------------------------------------------------------------------------------------------------
def op(name: str, *args: dict) -> dict:
    return {"t": "op", "name": name, "args": list(args)}


def I(v: int) -> dict:
    return {"k": "int", "v": v}


def V(name: str) -> dict:
    return {"k": "var", "v": name}


def C(name: str) -> dict:
    return {"k": "id", "v": name}


def call(name: str, *args: dict) -> dict:
    return {"t": "macrocall", "name": name, "args": list(args)}


def blocks_of(body: list) -> list[list]:
    """all statement lists below `body` (mutable references), parse-tree order"""
    out: list[list] = []

    def walk(ss: list) -> None:
        out.append(ss)
        for s in ss:
            t = s["t"]
            if t == "if":
                for b in s["branches"]:
                    walk(b["body"])
                if s.get("else") is not None:
                    walk(s["else"])
            elif t == "switch":
                for c in s["cases"]:
                    walk(c["body"])
            elif t in ("forever", "while", "for"):
                walk(s["body"])
    walk(body)
    return out


def calls_in(body: list) -> list[dict]:
    """macro-call statements in parse-tree (textual) order"""
    out: list[dict] = []

    def walk(ss: list) -> None:
        for s in ss:
            t = s["t"]
            if t == "macrocall":
                out.append(s)
            elif t == "if":
                for b in s["branches"]:
                    walk(b["body"])
                if s.get("else") is not None:
                    walk(s["else"])
            elif t == "switch":
                for c in s["cases"]:
                    walk(c["body"])
            elif t in ("forever", "while", "for"):
                walk(s["body"])
    walk(body)
    return out


def printed_macros(ast: dict) -> list[dict]:
    """the macros of a file in the order in which they are printed (`order` option of the printer)"""
    ms = ast.get("macros", [])
    order = ast.get("order")
    if not order:
        return list(ms)
    return [ms[i] for i in order if i < len(ms)]


def abstract_input(ast: dict, imported: list[str]) -> dict:
    """the abstract input of MacroResolutionOrderVisitor for one file (what lean `macro.order` consumes)"""
    return {"imported": list(imported), "defs": [[m["name"], [c["name"] for c in calls_in(m["body"])]] for m in printed_macros(ast)]}


def has_pos(x: Any) -> bool:
    if isinstance(x, dict):
        if x.get("k") == "pos":
            return True
        return any(has_pos(v) for v in x.values())
    if isinstance(x, list):
        return any(has_pos(v) for v in x)
    return False


def predicts_posmark_hang(files: dict) -> bool:
    """shape of known finding `macro_posmark_nested_hang`: some file has a macro that calls a macro defined in the same
    file, and a Position literal occurs in a macro body (of that file or of a file with macros; call arguments included)"""
    any_pos = any(has_pos(m["body"]) for ast in files.values() for m in ast.get("macros", []))
    if not any_pos:
        return False
    for ast in files.values():
        names = {m["name"] for m in ast.get("macros", [])}
        for m in ast.get("macros", []):
            if any(c["name"] in names for c in calls_in(m["body"])):
                return True
    return False


# ----------------------------------------------------------------------------------------------------------------------
# textual inlining: "the program in which every call is replaced by the macro's body with parameters substituted by the
# call's arguments, `return` leaving only the macro, and the body's labels private to each expansion"
# ----------------------------------------------------------------------------------------------------------------------
class Inliner:
    def __init__(self, macros: dict[str, dict]):
        self.macros = macros
        self.n = 0

    def atom(self, a: Any, subst: dict[str, dict]) -> Any:
        if isinstance(a, dict) and a.get("k") == "var" and a.get("v") in subst and "t" not in a:
            return copy.deepcopy(subst[a["v"]])
        return a

    def node(self, x: Any, subst: dict[str, dict]) -> Any:
        """substitute parameters in everything that is not a statement list"""
        if isinstance(x, list):
            return [self.node(y, subst) for y in x]
        if isinstance(x, dict):
            if x.get("k") == "var" and "t" not in x:
                return self.atom(x, subst)
            return {k: self.node(v, subst) for k, v in x.items()}
        return x

    def block(self, body: list, subst: dict[str, dict], ren: dict[str, str] | None, end: str | None, depth: int) -> list:
        out: list = []
        for s in body:
            out += self.stmt(s, subst, ren, end, depth)
        return out

    def stmt(self, s: dict, subst: dict[str, dict], ren: Any, end: str | None, depth: int) -> list:
        t = s["t"]
        rn = (lambda n: ren(n)) if ren else (lambda n: n)
        if t == "macrocall":
            if depth > 40:
                raise ValueError("macro recursion")
            m = self.macros[s["name"]]
            args = [self.node(a, subst) for a in s["args"]]
            if len(args) < len(m["params"]):
                raise ValueError("too few arguments")
            self.n += 1
            tag = f"__{m['name']}_{self.n}"
            inner = dict(subst)
            inner.update(dict(zip(m["params"], args)))     # innermost binding first, the caller's bindings stay visible
            endl = "end" + tag
            body = self.block(m["body"], inner, (lambda n, tag=tag: n + tag), endl, depth + 1)
            return body + [{"t": "label", "name": endl}]
        if t in ("label", "jump", "call"):
            return [dict(s, name=rn(s["name"]))]
        if t == "ctrl":
            if s["k"] == "return" and end is not None:
                return [{"t": "jump", "name": end}]
            return [dict(s)]
        if t == "with":
            inner_s = self.stmt(s["stmt"], subst, ren, end, depth)
            assert len(inner_s) == 1
            return [dict(self.node({k: v for k, v in s.items() if k != "stmt"}, subst), stmt=inner_s[0])]
        if t == "if":
            return [{"t": "if", "branches": [{"not": b.get("not", False), "headers": self.node(b["headers"], subst),
                                              "body": self.block(b["body"], subst, ren, end, depth)} for b in s["branches"]],
                     "else": None if s.get("else") is None else self.block(s["else"], subst, ren, end, depth)}]
        if t == "switch":
            return [{"t": "switch", "header": self.node(s["header"], subst),
                     "cases": [{"default": c.get("default", False), "header": self.node(c.get("header"), subst),
                                "body": self.block(c["body"], subst, ren, end, depth)} for c in s["cases"]]}]
        if t in ("forever", "while", "for"):
            d = {k: self.node(v, subst) for k, v in s.items() if k not in ("body", "init", "inc")}
            if t == "for":
                d["init"] = self.stmt(s["init"], subst, ren, end, depth)[0]
                d["inc"] = self.stmt(s["inc"], subst, ren, end, depth)[0]
            d["body"] = self.block(s["body"], subst, ren, end, depth)
            return [d]
        return [self.node(s, subst)]


def inline_program(ast: dict, visible: dict[str, dict]) -> dict:
    """macro-free program: every call of `ast`'s routines replaced by the body (recursively). `visible`: name -> macro"""
    inl = Inliner(visible)
    routines = []
    for r in ast["routines"]:
        if r.get("body") is None:
            routines.append(copy.deepcopy(r))
        else:
            routines.append(dict(copy.deepcopy({k: v for k, v in r.items() if k != "body"}), body=inl.block(r["body"], {}, None, None, 0)))
    return {"imports": [], "macros": [], "routines": routines}


# ----------------------------------------------------------------------------------------------------------------------
# family 1: every DAG shape x every definition order (plain bodies)
# ----------------------------------------------------------------------------------------------------------------------
def plain_dag_program(calls: list[list[int]], def_order: list[int], call_orders: list[list[int]] | None = None,
                      interleave: bool = False, call_all: bool = True) -> dict:
    """macro i = `macro m<i>($a) { In<i>($a); ~callee(...)...; Out<i>(); }`; the routine calls every macro nobody calls"""
    n = len(calls)
    macros = []
    for i in range(n):
        cs = list(calls[i]) if call_orders is None else list(call_orders[i])
        body: list[dict] = [op(f"In{i}", V("$a"), I(i))]
        for k, j in enumerate(cs):
            body.append(call(f"m{j}", V("$a") if k % 2 == 0 else I(10 * i + j)))
        body.append(op(f"Out{i}"))
        macros.append({"name": f"m{i}", "params": ["$a"], "body": body})
    called = {j for c in calls for j in c}
    tops = [i for i in range(n) if i not in called] if call_all else [0]
    rbody = [call(f"m{i}", I(100 + i)) for i in tops] + [{"t": "ctrl", "k": "end"}]
    p: dict = {"imports": [], "macros": [macros[i] for i in def_order], "routines": [{"kind": "def", "id": 0, "body": rbody}]}
    if interleave:
        # routine between the macro definitions
        k = len(def_order) // 2
        p["order"] = list(range(k)) + [n] + list(range(k, n))
    return p


def single_file_case(ast: dict, name: str, tags: list[str], expect: str = "ok") -> dict:
    return {"name": name, "tags": tags, "files": {"proj/main.exps": ast}, "main": "proj/main.exps", "lookup": [], "dirs": [], "expect": expect}


def dag_groups(max_n: int, rnd: random.Random, max_orders: int | None = None, sample_shapes: int | None = None) -> list[dict]:
    """one group per (shape, call order variant): {"shape", "info", "cases": [case per definition order]}"""
    groups = []
    for n in range(1, max_n + 1):
        shapes = dag_shapes(n)
        if sample_shapes is not None and len(shapes) > sample_shapes:
            shapes = rnd.sample(shapes, sample_shapes)
        for si, calls in enumerate(shapes):
            info = shape_info(calls)
            variants: list[list[list[int]] | None] = [None]
            if info["multi_callee"]:
                variants.append([list(reversed(c)) for c in calls])
            for vi, co in enumerate(variants):
                perms = list(itertools.permutations(range(n)))
                if max_orders is not None and len(perms) > max_orders:
                    perms = [perms[0]] + rnd.sample(perms[1:], max_orders - 1)
                cases = []
                for pi, perm in enumerate(perms):
                    ast = plain_dag_program(calls, list(perm), co, interleave=(pi % 5 == 3))
                    cases.append(single_file_case(ast, f"dag{n}.{si}.{vi}.{pi}", ["dag"]))
                groups.append({"shape": calls, "info": info, "cases": cases, "n": n})
    return groups


# ----------------------------------------------------------------------------------------------------------------------
# family 2: rich single-file programs
# ----------------------------------------------------------------------------------------------------------------------
def random_dag(rnd: random.Random, n: int, p: float) -> list[list[int]]:
    calls = [[j for j in range(i + 1, n) if rnd.random() < p] for i in range(n)]
    return calls


def _body_from_proggen(rnd: random.Random, cfg: Cfg, stats: dict, macro: bool) -> list[dict]:
    g = ProgGen(random.Random(rnd.getrandbits(48)), cfg)
    p = g.program()
    body = p["routines"][0]["body"]
    for k, v in g.stats.items():
        stats[k] = stats.get(k, 0) + v
    if macro and body and body[-1]["t"] == "ctrl" and body[-1]["k"] in ("end", "hold") and rnd.random() < 0.8:
        if rnd.random() < 0.5 or len(body) == 1:      # a function body needs at least one statement
            body[-1] = {"t": "ctrl", "k": "return"}
        else:
            body.pop()
    return body


def _is_il_atom(x: Any) -> bool:
    return isinstance(x, dict) and x.get("k") in ("int", "id", "var") and x.get("v") != PERF_VAR and "t" not in x and "h" not in x


def substitute_params(node: Any, rnd: random.Random, il_params: list[str], any_params: list[str], p: float, in_args: bool = False) -> Any:
    """replace atoms of a body by macro parameters: integer-like positions get il-class parameters only,
    op / call argument positions get any parameter"""
    if isinstance(node, list):
        return [substitute_params(x, rnd, il_params, any_params, p, in_args) for x in node]
    if not isinstance(node, dict):
        return node
    if "k" in node and "t" not in node and "h" not in node and "s" not in node and "c" not in node:
        pool = (il_params + any_params) if in_args else (il_params if _is_il_atom(node) else [])
        if pool and node.get("v") != PERF_VAR and rnd.random() < p:
            return V(rnd.choice(pool))
        return node
    out = {}
    for k, v in node.items():
        if k == "args":
            out[k] = substitute_params(v, rnd, il_params, any_params, p, True)
        elif k in ("string", "index", "a", "b", "name", "params"):
            out[k] = v
        else:
            out[k] = substitute_params(v, rnd, il_params, any_params, p, False)
    return out


class RichGen:
    def __init__(self, rnd: random.Random, tier: str = "quick", allow_pos_nested: bool = False):
        self.r = rnd
        self.tier = tier
        self.allow_pos_nested = allow_pos_nested
        self.stats: dict[str, int] = {}

    def hit(self, k: str, n: int = 1) -> None:
        self.stats[k] = self.stats.get(k, 0) + n

    def cfg(self, macro: bool = True) -> Cfg:
        r = self.r
        return Cfg(max_depth=r.choice([1, 2, 2, 3]), max_stmts=r.choice([2, 3, 4]), max_routines=1, coro=False,
                   p_halt=r.choice([0.05, 0.15]), pos_marks=self.pos_ok or not macro)

    def il_arg(self, own_il: list[str]) -> dict:
        r = self.r
        c = r.random()
        if own_il and c < 0.35:
            self.hit("arg_own_param")
            return V(r.choice(own_il))
        if c < 0.6:
            self.hit("arg_int")
            return I(r.choice([0, 1, 7, -2, 255, r.randint(0, 9999)]))
        if c < 0.8:
            self.hit("arg_const")
            return C(r.choice(CONSTS))
        self.hit("arg_gamevar")
        return V(r.choice(GAME_VARS))

    def any_arg(self, own_il: list[str], own_any: list[str]) -> dict:
        r = self.r
        c = r.random()
        if c < 0.4:
            return self.il_arg(own_il)
        if own_any and c < 0.55:
            self.hit("arg_own_param")
            return V(r.choice(own_any))
        if c < 0.7:
            self.hit("arg_string")
            return {"k": "str", "v": r.choice(["", "hi", "a b", "it's", 'q"q', "[c]"]), "quote": r.choice(['"', "'"])}
        if c < 0.8:
            self.hit("arg_langstring")
            langs = r.sample(LANGS, r.randint(1, 2))
            return {"k": "lang", "v": [[l, r.choice(["x", "Hello", ""])] for l in langs]}
        if c < 0.9 and self.pos_ok:
            self.hit("arg_posmark")
            return {"k": "pos", "name": r.choice(["m0", "Mark"]), "x": r.choice(["0", "12", "3.5"]), "y": r.choice(["1", "20.5"]), "quote": "'"}
        if c < 0.95:
            self.hit("arg_decimal")
            return {"k": "dec", "v": r.choice(["1.5", "-2.75", ".5"])}
        return self.il_arg(own_il)

    def make_call(self, callee: dict, own_il: list[str], own_any: list[str]) -> dict:
        args = []
        for pname, cls in zip(callee["params"], callee["_classes"]):
            args.append(self.il_arg(own_il) if cls == "il" else self.any_arg(own_il, own_any))
        if self.r.random() < 0.1:
            self.hit("too_many_args")
            args.append(self.il_arg(own_il))
        return {"t": "macrocall", "name": callee["name"], "args": args, "trailing_comma": bool(args) and self.r.random() < 0.1}

    def insert_calls(self, body: list, callees: list[dict], own_il: list[str], own_any: list[str], counts: list[int]) -> None:
        for callee, k in zip(callees, counts):
            for _ in range(k):
                bl = blocks_of(body)
                tgt = self.r.choice(bl) if self.r.random() < 0.6 else body
                if tgt is not body:
                    self.hit("call_in_block")
                tgt.insert(self.r.randint(0, len(tgt)), self.make_call(callee, own_il, own_any))

    def program(self, n: int | None = None) -> dict:
        r = self.r
        n = n if n is not None else r.choice([1, 2, 2, 3, 3, 4, 5, 6] + ([7, 9] if self.tier == "thorough" else []))
        calls = random_dag(r, n, r.choice([0.3, 0.5, 0.8]))
        info = shape_info(calls)
        nested = any(calls)
        # known finding macro_posmark_nested_hang: Position literals and nested macros of one file are combined only on request
        self.pos_ok = (not nested) or self.allow_pos_nested
        macros: list[dict] = []
        for i in range(n):
            np = r.choice([0, 1, 1, 2, 3])
            params = r.sample(PARAM_POOL, np)
            # parameters named like game variables that ProgGen bodies use ("$X", "$v2") may end up in integer-like
            # positions of this or of a called macro's body (capture by name): they only receive integer-like arguments
            classes = ["il" if p_ in GAME_VARS else r.choice(["il", "any"]) for p_ in params]
            macros.append({"name": f"mac{i}", "params": params, "_classes": classes, "body": []})
        for i in reversed(range(n)):
            m = macros[i]
            il = [p for p, c in zip(m["params"], m["_classes"]) if c == "il"]
            an = [p for p, c in zip(m["params"], m["_classes"]) if c == "any"]
            if r.random() < 0.25:
                body: list[dict] = [op(f"Body{i}", *[V(p) for p in m["params"]])]
                if r.random() < 0.5:
                    body.append({"t": "if", "branches": [{"not": False, "headers": [{"h": "neg", "not": False, "kw": "debug"}],
                                                          "body": [{"t": "ctrl", "k": "return"}]}], "else": None})
                    body.append(op(f"After{i}"))
                    self.hit("return_in_if")
            else:
                body = _body_from_proggen(r, self.cfg(), self.stats, True)
            body = substitute_params(body, r, il, an, 0.5)
            if m["params"] and r.random() < 0.7:
                body.insert(r.randint(0, len(body)), op(f"Use{i}", *[V(p) for p in m["params"]]))
            callees = [macros[j] for j in calls[i]]
            self.insert_calls(body, callees, il, an, [r.choice([1, 1, 2]) for _ in callees])
            m["body"] = body
        nr = r.choice([1, 1, 2])
        routines = []
        called = {j for c in calls for j in c}
        tops = [i for i in range(n) if i not in called]
        unused = []
        if len(tops) > 1 and r.random() < 0.3:
            unused = [tops.pop()]
            self.hit("unused_macro")
        for ri in range(nr):
            body = _body_from_proggen(r, self.cfg(False), self.stats, False)
            mine = [macros[i] for i in tops if (i % nr) == ri] + ([macros[r.randrange(n)]] if r.random() < 0.5 else [])
            self.insert_calls(body, mine, [], [], [r.choice([1, 1, 2, 3]) for _ in mine])
            routines.append({"kind": "def", "id": ri, "body": body})
        # labels of a routine must be defined in some routine: ProgGen makes every body self-contained, but two bodies
        # may define the same name -> keep only the first definition's routine-level uniqueness by renaming per routine
        for ri, rt in enumerate(routines):
            if ri:
                _rename_labels(rt["body"], f"r{ri}")
        order = list(range(n))
        r.shuffle(order)
        p: dict = {"imports": [], "macros": [macros[i] for i in order], "routines": routines}
        if r.random() < 0.3:
            # routines interleaved with the macro definitions (routines keep their relative order)
            slots = sorted(r.randint(0, n) for _ in range(nr))
            items: list[int] = []
            ri = 0
            for k in range(n + 1):
                while ri < nr and slots[ri] == k:
                    items.append(n + ri)
                    ri += 1
                if k < n:
                    items.append(k)
            p["order"] = items
        self.hit("programs")
        for k in ("diamond", "shared_callee", "multi_callee", "unequal_paths", "chain"):
            if info[k]:
                self.hit("shape_" + k)
        self.hit(f"depth_{min(info['depth'], 5)}")
        if any(m["t"] == "label" for mm in macros for bl in blocks_of(mm["body"]) for m in bl):
            self.hit("macro_with_labels")
        if any(m["t"] == "ctrl" and m["k"] == "return" for mm in macros for bl in blocks_of(mm["body"]) for m in bl):
            self.hit("macro_with_return")
        return p


def _rename_labels(body: list, suffix: str) -> None:
    for bl in blocks_of(body):
        for s in bl:
            if s["t"] in ("label", "jump", "call"):
                s["name"] = s["name"] + suffix


def strip_private(ast: dict) -> dict:
    """remove generator-private keys (`_classes`)"""
    a = copy.deepcopy(ast)
    for m in a.get("macros", []):
        m.pop("_classes", None)
    return a


def rich_case(rnd: random.Random, tier: str, stats: dict, allow_pos_nested: bool = False, idx: int = 0) -> dict:
    g = RichGen(rnd, tier, allow_pos_nested)
    ast = strip_private(g.program())
    for k, v in g.stats.items():
        stats[k] = stats.get(k, 0) + v
    return single_file_case(ast, f"rich{idx}", ["rich"])


def order_variants(case: dict, rnd: random.Random, k: int) -> list[dict]:
    """the same single-file program with other definition orders of its macros (all of them when there are <= k)"""
    ast = case["files"][case["main"]]
    n = len(ast["macros"])
    perms = list(itertools.permutations(range(n)))
    if len(perms) > k:
        perms = rnd.sample(perms[1:], k)
    else:
        perms = perms[1:]
    out = []
    for pi, perm in enumerate(perms):
        a = copy.deepcopy(ast)
        a["macros"] = [a["macros"][i] for i in perm]
        a.pop("order", None)
        c = dict(case, files={case["main"]: a}, name=f"{case['name']}.o{pi}")
        out.append(c)
    return out


# ----------------------------------------------------------------------------------------------------------------------
# family 3: macros spread over files
# ----------------------------------------------------------------------------------------------------------------------
PLAIN_DIRS = ["proj", "proj/sub", "lib", "lib/deep", "proj/sub/inner"]
LOOKUP_DIRS = ["L1", "L2", "L3"]


def rel_import(from_file: str, to_file: str, rnd: random.Random) -> str:
    rp = posixpath.relpath(to_file, posixpath.dirname(from_file))
    if not rp.startswith(".."):
        rp = "./" + rp
    elif rnd.random() < 0.2:
        rp = "./" + rp           # "./../lib/x.exps"
    return rp


def abs_import(to_file: str, rnd: random.Random) -> str:
    c = rnd.random()
    if c < 0.15:
        return ROOT + "//" + to_file                      # doubled separator
    if c < 0.3:
        d, b = posixpath.split(to_file)
        return ROOT + "/" + d + "/../" + posixpath.basename(d) + "/" + b if d and "/" not in d else ROOT + "/" + to_file
    return ROOT + "/" + to_file


def simple_macro(name: str, marker: str, params: list[str], callees: list[tuple[str, int]], rnd: random.Random, with_return: bool) -> dict:
    body: list[dict] = [op(marker, *[V(p) for p in params])]
    for cn, arity in callees:
        args = [V(rnd.choice(params)) if params and rnd.random() < 0.5 else I(rnd.randint(0, 99)) for _ in range(arity)]
        body.append(call(cn, *args))
    if with_return:
        body.append({"t": "if", "branches": [{"not": False, "headers": [{"h": "neg", "not": False, "kw": "edit"}],
                                              "body": [{"t": "ctrl", "k": "return"}]}], "else": None})
        body.append(op(marker + "_tail"))
    return {"name": name, "params": params, "body": body}


def layout_case(rnd: random.Random, idx: int, stats: dict, invalid: str | None = None) -> dict:
    """a valid multi-file layout, or (invalid = "missing" | "cycle" | "routines_in_import" | "dot_component" |
    "lookup_empty" | "dir_candidate") the same with one defect"""
    def hit(k: str) -> None:
        stats[k] = stats.get(k, 0) + 1
    nf = rnd.choice([1, 2, 2, 3, 3, 4])
    main = rnd.choice(["proj/main.exps", "proj/sub/main.exps"])
    paths: list[str] = [main]
    placement: list[str] = ["plain"]
    variants: dict[int, list[str]] = {}      # lookup-placed file -> lookup dirs holding a variant
    lookup_name: dict[int, str] = {}
    # "twins": two different files that are imported with the SAME relative spelling from files of different directories
    # (main imports ./same.exps of its own directory; a file of another directory imports ./same.exps of that directory):
    # an import means the file it names relative to the file it is written in
    twin = invalid is None and rnd.random() < 0.3
    if twin:
        nf = max(nf, 3)
        twin_dir = rnd.choice([d for d in PLAIN_DIRS if d != posixpath.dirname(main)])
    for j in range(1, nf + 1):
        if twin and j <= 3:
            placement.append("plain")
            paths.append({1: posixpath.join(posixpath.dirname(main), "same.exps"), 2: posixpath.join(twin_dir, "f2.exps"),
                          3: posixpath.join(twin_dir, "same.exps")}[j])
            continue
        if rnd.random() < 0.45 or invalid in ("dot_component", "lookup_empty", "dir_candidate") and j == 1:
            placement.append("lookup")
            nm = rnd.choice([f"f{j}.exps", f"pkg/f{j}.exps", f"pkg/deep/f{j}.exps"])
            lookup_name[j] = nm
            variants[j] = rnd.sample(LOOKUP_DIRS, rnd.choice([1, 1, 2, 3]))
            paths.append("")   # decided by the lookup list below
        else:
            placement.append("plain")
            paths.append(posixpath.join(rnd.choice(PLAIN_DIRS), f"f{j}.exps"))
    lookup_dirs = list(LOOKUP_DIRS)
    rnd.shuffle(lookup_dirs)
    used = {d for vs in variants.values() for d in vs}
    nlook = rnd.randint(1, 3)
    lookup_dirs = [d for d in lookup_dirs if d in used] + [d for d in lookup_dirs if d not in used][:max(0, nlook - len(used))]
    rnd.shuffle(lookup_dirs)
    rel_lookup = rnd.random() < 0.12 and bool(variants)
    lookup = [ROOT + "/" + d + ("/" if rnd.random() < 0.1 else "") for d in lookup_dirs]
    for j, vs in variants.items():
        first = next(d for d in lookup_dirs if d in vs)
        paths[j] = posixpath.join(first, lookup_name[j])
        if len(vs) > 1:
            hit("shadowed_lookup_file")
        if lookup_dirs.index(first) > 0:
            hit("lookup_not_first_dir")
    # import graph: file i imports some j > i; every file is imported by somebody
    imports: dict[int, list[int]] = {i: [] for i in range(nf + 1)}
    for j in range(1, nf + 1):
        importers = [i for i in range(j) if rnd.random() < 0.5] or [rnd.randrange(j)]
        for i in importers:
            imports[i].append(j)
    forced_rel: set = set()
    if twin:
        hit("twin_relative_imports")
        # main imports file 1 (its neighbour) and file 2; file 2 imports file 3 (its neighbour, named like file 1)
        for i, j in ((0, 1), (0, 2), (2, 3)):
            if j not in imports[i]:
                imports[i].append(j)
        forced_rel = {(0, 1), (2, 3)}
    for i in imports:
        rnd.shuffle(imports[i])
    nimporters = {j: sum(1 for i in imports if j in imports[i]) for j in range(1, nf + 1)}
    if any(v > 1 for v in nimporters.values()):
        hit("diamond_import")
    if any(imports[i] for i in range(1, nf + 1)):
        hit("nested_import")
    # visible macros per file (transitively)
    vis: dict[int, list[int]] = {}

    def closure(i: int) -> list[int]:
        if i not in vis:
            out: list[int] = []
            for j in imports[i]:
                for k in closure(j) + [j]:
                    if k not in out:
                        out.append(k)
            vis[i] = out
        return vis[i]
    macros: dict[int, list[dict]] = {}
    for j in reversed(range(nf + 1)):
        ms = []
        nm = rnd.choice([1, 2, 2, 3]) if j else rnd.choice([0, 1, 2])
        visible_other = [m for k in closure(j) for m in macros[k]]
        for k in reversed(range(nm)):
            params = rnd.sample(["$a", "$b", "$x"], rnd.choice([0, 1, 2]))
            callees = []
            # same-file nesting (later macro of this file) and macros of imported files
            for m in ms:
                if rnd.random() < 0.35:
                    callees.append((m["name"], len(m["params"])))
            for m in visible_other:
                if rnd.random() < 0.4:
                    callees.append((m["name"], len(m["params"])))
            ms.insert(0, simple_macro(f"f{j}_m{k}", f"F{j}M{k}", params, callees, rnd, rnd.random() < 0.2))
        rnd.shuffle(ms)
        macros[j] = ms
    files: dict[str, dict] = {}
    style_count: dict[str, int] = {}

    def import_string(i: int, j: int) -> str:
        if (i, j) in forced_rel:
            style_count["relative"] = style_count.get("relative", 0) + 1
            return "./same.exps"
        if placement[j] == "lookup":
            style_count["lookup"] = style_count.get("lookup", 0) + 1
            return lookup_name[j]
        if rnd.random() < 0.5:
            style_count["relative"] = style_count.get("relative", 0) + 1
            return rel_import(paths[i], paths[j], rnd)
        style_count["absolute"] = style_count.get("absolute", 0) + 1
        return abs_import(paths[j], rnd)
    for i in range(nf + 1):
        ast: dict = {"imports": [import_string(i, j) for j in imports[i]], "macros": macros[i], "routines": []}
        files[paths[i]] = ast
    # shadowed variants: the same macro names, different marker ops (they must NOT be read)
    for j, vs in variants.items():
        for d in vs:
            p = posixpath.join(d, lookup_name[j])
            if p not in files:
                decoy = copy.deepcopy(files[paths[j]])
                for m in decoy["macros"]:
                    m["body"] = [op("DECOY_" + d, *[V(p_) for p_ in m["params"]])]
                decoy["imports"] = []
                files[p] = decoy
    # routine of the main file: calls own macros and visible ones (also transitively visible ones)
    mains = files[main]
    callable_ = [m for m in macros[0]] + [m for k in closure(0) for m in macros[k]]
    rbody: list[dict] = []
    for m in callable_:
        if rnd.random() < 0.7 or not rbody:
            rbody.append(call(m["name"], *[I(rnd.randint(0, 50)) if rnd.random() < 0.7 else C(rnd.choice(CONSTS)) for _ in m["params"]]))
    if any(m in [mm for k in closure(0) if k not in imports[0] for mm in macros[k]] for m in callable_):
        hit("transitively_visible_macro_available")
    rbody.append({"t": "ctrl", "k": "end"})
    mains["routines"] = [{"kind": "def", "id": 0, "body": rbody}]
    users = {posixpath.dirname(paths[i]) for i in range(nf + 1) if any(placement[j] == "lookup" for j in imports[i])}
    if rel_lookup and users <= {posixpath.dirname(main)}:
        # lookup paths given relative to the importing file's directory (behaviour of the code, not documented): only when
        # every lookup-style import is written in a file of the main file's directory
        hit("relative_lookup_path")
        lookup = [posixpath.relpath(d, posixpath.dirname(main)) for d in lookup_dirs]
    for k, v in style_count.items():
        stats["import_" + k] = stats.get("import_" + k, 0) + v
    case = {"name": f"layout{idx}", "tags": ["layout"], "files": files, "main": main, "lookup": lookup,
            "dirs": [d for d in lookup_dirs], "expect": "ok"}
    hit(f"lookup_paths_{len(lookup)}")
    if invalid:
        case = break_layout(case, invalid, rnd, paths, imports, placement, lookup_name, lookup_dirs)
        hit("invalid_" + case["expect"])
    return case


def break_layout(case: dict, how: str, rnd: random.Random, paths: list[str], imports: dict, placement: list[str],
                 lookup_name: dict, lookup_dirs: list[str]) -> dict:
    case = copy.deepcopy(case)
    files = case["files"]
    case["tags"] = ["layout", "invalid"]
    nf = len(paths) - 1
    if how == "missing":
        j = rnd.randint(1, nf)
        if placement[j] == "lookup":
            for d in LOOKUP_DIRS:
                files.pop(posixpath.join(d, lookup_name[j]), None)
        else:
            files.pop(paths[j], None)
        case["expect"] = "missing"
    elif how == "cycle":
        # some imported file imports one of its (transitive) importers again, or itself
        j = rnd.randint(1, nf)
        anc = [i for i in range(j) if j in _closure(imports, i)] + [j]
        i = rnd.choice(anc)
        files[paths[j]]["imports"].append(ROOT + "/" + paths[i])
        case["expect"] = "cycle"
    elif how == "routines_in_import":
        j = rnd.randint(1, nf)
        files[paths[j]]["routines"] = [{"kind": "def", "id": 0, "body": [op("InImport"), {"t": "ctrl", "k": "end"}]}]
        case["expect"] = "routines_in_import"
    elif how == "dot_component":
        j = next(j for j in range(1, nf + 1) if placement[j] == "lookup")
        nm = lookup_name[j]
        bad = rnd.choice(["pkg/../" + nm, "x/./" + nm if "/" not in nm else nm.replace("/", "/./", 1), nm.replace("pkg/", "pkg/../pkg/") if "pkg/" in nm else "q/../" + nm])
        for i, js in imports.items():
            for k, jj in enumerate(js):
                if jj == j:
                    files[paths[i]]["imports"][k] = bad
        case["expect"] = "dot_component"
    elif how == "lookup_empty":
        case["lookup"] = []
        case["expect"] = "missing"
    elif how == "dir_candidate":
        # a DIRECTORY with the import's name in a lookup directory (L0, holding nothing else) that is searched before all others
        j = next(j for j in range(1, nf + 1) if placement[j] == "lookup")
        if case["lookup"] and not case["lookup"][0].startswith(ROOT):
            case["lookup"] = [ROOT + "/" + d for d in lookup_dirs]      # keep every lookup path absolute here
        case["lookup"] = [ROOT + "/L0"] + list(case["lookup"])
        case["dirs"] = list(case["dirs"]) + [posixpath.join("L0", lookup_name[j])]
        case["expect"] = "dir_candidate"
    else:
        raise ValueError(how)
    return case


def _closure(imports: dict, i: int) -> set:
    out: set = set()
    todo = list(imports[i])
    while todo:
        j = todo.pop()
        if j not in out:
            out.add(j)
            todo += imports[j]
    return out


# ----------------------------------------------------------------------------------------------------------------------
# direct queries to `_resolve_imported_file` (correspondence with lean/ESV/Macro/Import.lean on odd path spellings)
# ----------------------------------------------------------------------------------------------------------------------
_SEGS = ["zqa", "zqb", "zlib", "zx.exps", "zy.exps", "..", ".", "", "..zq", ".zh", "zqa", "zx.exps"]


def _rand_path(rnd: random.Random, n_max: int = 4) -> str:
    return "/".join(rnd.choice(_SEGS) for _ in range(rnd.randint(1, n_max)))


def resolve_fuzz_case(rnd: random.Random) -> dict:
    """a small tree (files and directories with names from a private alphabet) and queries with odd spellings: doubled and
    trailing separators, '.' and '..' anywhere, names starting with dots, absolute/relative lookup paths, escapes above the root"""
    files = sorted({posixpath.normpath(rnd.choice(["zqa", "zqb", "zlib", "zqa/zqb", "zlib/zqa", ""]) + "/" + rnd.choice(["zx.exps", "zy.exps"])).lstrip("/")
                    for _ in range(rnd.randint(1, 5))})
    dirs = sorted({rnd.choice(["zqa", "zqb/zqa", "zlib/zx.exps", "zqa/zqb/zlib", ".zh"]) for _ in range(rnd.randint(0, 3))})
    dirs = [d for d in dirs if d not in files and not any(d.startswith(f + "/") for f in files)]
    queries = []
    for _ in range(rnd.randint(4, 10)):
        d = ROOT + rnd.choice(["", "/", "//"]) + rnd.choice(["zqa", "zqa/zqb", "zqb/", "zlib/../zqa", "zqa//zqb", "."])
        lookup = []
        for _k in range(rnd.randint(0, 3)):
            c = rnd.random()
            if c < 0.6:
                lookup.append(ROOT + "/" + _rand_path(rnd, 2))
            elif c < 0.8:
                lookup.append(_rand_path(rnd, 2))                 # relative lookup path
            else:
                lookup.append(rnd.choice(["", ".", "..", "/", ROOT + "//zlib/"]))
        imports = []
        for _k in range(rnd.choice([1, 1, 1, 2])):
            c = rnd.random()
            body = _rand_path(rnd)
            if rnd.random() < 0.6:
                # aim at an existing file (or directory), spelled oddly
                segs = rnd.choice(files + dirs).split("/")
                out_segs: list[str] = []
                for sg in segs:
                    r2 = rnd.random()
                    if r2 < 0.15:
                        out_segs += ["."]
                    elif r2 < 0.3:
                        out_segs += ["zqq", ".."]
                    elif r2 < 0.4:
                        out_segs += [""]
                    out_segs.append(sg)
                full = "/".join(out_segs)
                if c >= 0.5 and lookup and rnd.random() < 0.7:
                    # make some lookup path a prefix directory of the target
                    k2 = rnd.randint(0, len(segs) - 1)
                    lookup[rnd.randrange(len(lookup))] = ROOT + "/" + "/".join(segs[:k2]) + rnd.choice(["", "/"])
                    full = "/".join(segs[k2:])
                    if rnd.random() < 0.2:
                        full = full.replace("/", "//", 1)
                body = full
                imports.append(rnd.choice(["./", "../", "./../", ".", ".."]) + body)
            elif c < 0.5:
                imports.append(ROOT + rnd.choice(["/", "//"]) + body)
            else:
                imports.append(body)
        queries.append({"dir": d, "lookup": lookup, "imports": imports})
    return {"files": files, "dirs": dirs, "queries": queries}


# ----------------------------------------------------------------------------------------------------------------------
# statically invalid single-file programs (must be rejected in the documented way)
# ----------------------------------------------------------------------------------------------------------------------
def error_cases(rnd: random.Random) -> list[dict]:
    out = []
    # macro cycles: direct, length 2, length 3, cycle not reachable from the routine
    for k, spec in enumerate([[[0]], [[1], [0]], [[1], [2], [0]], [[], [2], [1]], [[1, 2], [2], [0]]]):
        n = len(spec)
        ast = plain_dag_program([[] for _ in range(n)], list(range(n)))
        for i, cs in enumerate(spec):
            ast["macros"][i]["body"][1:1] = [call(f"m{j}", I(1)) for j in cs]
        ast["routines"][0]["body"] = [call("m0", I(1)), {"t": "ctrl", "k": "end"}]
        perm = list(range(n))
        rnd.shuffle(perm)
        ast["macros"] = [ast["macros"][i] for i in perm]
        out.append(single_file_case(ast, f"macro_cycle{k}", ["error"], "macro_cycle"))
    # too few arguments
    ast = {"imports": [], "macros": [{"name": "two", "params": ["$a", "$b"], "body": [op("X", V("$a"), V("$b"))]}],
           "routines": [{"kind": "def", "id": 0, "body": [call("two", I(1)), {"t": "ctrl", "k": "end"}]}]}
    out.append(single_file_case(ast, "too_few_args", ["error"], "too_few_args"))
    ast = {"imports": [], "macros": [{"name": "two", "params": ["$a", "$b"], "body": [op("X", V("$a"), V("$b"))]},
                                      {"name": "outer", "params": [], "body": [call("two")]}],
           "routines": [{"kind": "def", "id": 0, "body": [call("outer"), {"t": "ctrl", "k": "end"}]}]}
    out.append(single_file_case(ast, "too_few_args_nested", ["error"], "too_few_args"))
    return out


# ----------------------------------------------------------------------------------------------------------------------
# hand-written cases that always run first
# ----------------------------------------------------------------------------------------------------------------------
def fixed_cases() -> list[dict]:
    out = []
    lab = lambda n: {"t": "label", "name": n}          # noqa: E731
    jmp = lambda n: {"t": "jump", "name": n}           # noqa: E731
    ifdbg = lambda body: {"t": "if", "branches": [{"not": False, "headers": [{"h": "neg", "not": False, "kw": "debug"}], "body": body}], "else": None}  # noqa: E731
    # the same label name in two macros and in the routine; every expansion has its own copy
    a = {"name": "ma", "params": ["$a"], "body": [lab("x"), op("A", V("$a")), ifdbg([jmp("x")])]}
    b = {"name": "mb", "params": [], "body": [ifdbg([jmp("x")]), op("B1"), lab("x"), op("B2"), call("ma", I(5))]}
    rt = {"kind": "def", "id": 0, "body": [call("ma", I(1)), lab("x"), op("R"), call("mb"), call("ma", I(2)), ifdbg([jmp("x")]), {"t": "ctrl", "k": "end"}]}
    out.append(single_file_case({"imports": [], "macros": [a, b], "routines": [rt]}, "private_labels", ["fixed"]))
    # return leaves only the macro: nested in if / loop / switch, and in a nested macro
    inner = {"name": "inner", "params": ["$v"], "body": [
        {"t": "while", "not": False, "header": {"h": "op", "left": V("$v"), "cmp": "<", "right": I(3), "value_of": False},
         "body": [op("Loop", V("$v")), ifdbg([{"t": "ctrl", "k": "return"}]), op("LoopEnd")]}, op("AfterLoop")]}
    outer = {"name": "outer", "params": ["$w"], "body": [op("O1"), call("inner", V("$w")), op("O2"), {"t": "ctrl", "k": "return"}, op("Dead")]}
    rt = {"kind": "def", "id": 0, "body": [call("outer", V("$SCENARIO_MAIN")), op("Back"), call("inner", I(9)), op("Back2"), {"t": "ctrl", "k": "hold"}]}
    out.append(single_file_case({"imports": [], "macros": [inner, outer], "routines": [rt]}, "return_leaves_macro", ["fixed"]))
    # the specification's own example
    ae = {"name": "another_example", "params": ["$anotherVariable"], "body": [op("another_print", V("$anotherVariable"))]}
    ex = {"name": "example", "params": ["$variable1", "$variable2"], "body": [op("print", V("$variable1"), V("$variable2")), call("another_example", V("$variable1"))]}
    rt = {"kind": "def", "id": 0, "body": [call("example", V("$SCENARIO_MAIN"), I(3)), call("example", C("ANOTHER_CONSTANT"), {"k": "str", "v": "A string"}),
                                            call("another_example", {"k": "str", "v": "Another string"})]}
    out.append(single_file_case({"imports": [], "macros": [ae, ex], "routines": [rt]}, "spec_example", ["fixed"]))
    # assignment to a macro variable (spec warning box)
    asg = {"name": "example", "params": ["$var"], "body": [{"t": "assign", "form": "regular", "target": V("$var"), "index": None, "op": "=", "value": I(3), "value_of": False}]}
    rt = {"kind": "def", "id": 0, "body": [call("example", V("$SCENARIO_MAIN"))]}
    out.append(single_file_case({"imports": [], "macros": [asg], "routines": [rt]}, "spec_assign_example", ["fixed"]))
    # shadowing parameter names between caller and callee, parameter handed on, game variable captured by name
    cal = {"name": "callee", "params": ["$a", "$b"], "body": [op("C", V("$a"), V("$b"), V("$c"))]}
    car = {"name": "caller", "params": ["$b", "$c"], "body": [call("callee", V("$c"), V("$b")), call("callee", I(1), V("$a")), op("K", V("$a"), V("$b"), V("$c"))]}
    rt = {"kind": "def", "id": 0, "body": [call("caller", I(10), I(20)), call("caller", V("$a"), V("$b"))]}
    out.append(single_file_case({"imports": [], "macros": [cal, car], "routines": [rt]}, "param_shadowing", ["fixed"]))
    # switch / break / fall-through in a macro called inside a switch case and a loop of the routine
    sw = {"name": "sw", "params": ["$s"], "body": [{"t": "switch", "header": {"s": "var", "v": V("$s")}, "cases": [
        {"default": False, "header": {"c": "value", "v": I(1)}, "body": [op("One"), {"t": "ctrl", "k": "break"}]},
        {"default": False, "header": {"c": "value", "v": I(2)}, "body": [op("Two")]},
        {"default": True, "header": None, "body": [op("Dflt"), {"t": "ctrl", "k": "return"}]}]}, op("AfterSw")]}
    rt = {"kind": "def", "id": 0, "body": [{"t": "forever", "body": [
        {"t": "switch", "header": {"s": "var", "v": V("$X")}, "cases": [
            {"default": False, "header": {"c": "value", "v": I(7)}, "body": [call("sw", V("$X")), {"t": "ctrl", "k": "break"}]},
            {"default": True, "header": None, "body": [call("sw", I(2)), {"t": "ctrl", "k": "break_loop"}]}]}, op("Tick")]}, {"t": "ctrl", "k": "end"}]}
    out.append(single_file_case({"imports": [], "macros": [sw], "routines": [rt]}, "switch_in_macro", ["fixed"]))
    # known finding (b): the minimal acyclic set the resolver orders wrongly
    ast = plain_dag_program([[1, 2], [2], []], [0, 1, 2])
    out.append(single_file_case(ast, "order_witness_top_mid_leaf", ["fixed", "order_witness"]))
    return out


def posmark_hang_witness() -> dict:
    """known finding (c): minimal input"""
    P = {"k": "pos", "name": "m", "x": "1", "y": "2", "quote": "'"}
    a = {"name": "a", "params": [], "body": [op("Mark", P)]}
    b = {"name": "b", "params": [], "body": [call("a")]}
    rt = {"kind": "def", "id": 0, "body": [call("b"), {"t": "ctrl", "k": "end"}]}
    return single_file_case({"imports": [], "macros": [a, b], "routines": [rt]}, "posmark_hang_witness", ["fixed", "posmark_nested"])
