"""C10: statically invalid ExplorerScript programs.

* `to_static(ast)` — surface AST -> static AST of lean/ESV/Static/Ast.lean (JSON, see lean/Driver/Static.lean).
* `XPrinter` — the surface printer extended by the two forms only an invalid program has (a string case in an ordinary
  switch: case key "string"; statements in a message-switch case: case key "body").
* `add_macros` — macros (call forest: every macro has at most one calling macro) + calls, for valid programs.
* one mutator per statically meaningless shape of the property text (`MUTATORS`), each injecting exactly one defect
  into a valid program; `mutate(ast, rnd, shapes)` applies one or several.
* `gen_world` — small import graphs (valid, missing, cyclic, routines in an imported file, …).
"""
from __future__ import annotations

import copy
import random
from typing import Any, Callable

from . import surface
from .programs import Cfg, ProgGen, PLAIN_OPS
from .surface import PERF_VAR


# ----------------------------------------------------------------------------------------------------------------------
# printer
# ----------------------------------------------------------------------------------------------------------------------
class XPrinter(surface.Printer):
    def stmt(self, s: dict) -> None:
        t = s["t"]
        if t == "switch" and any("string" in c for c in s["cases"]):
            i0 = len(self.toks)
            self.t("switch"); self.t("(")
            self._switch_header(s["header"])
            self.t(")"); self.t("{"); self.nl(+1)
            for c in s["cases"]:
                if c.get("default"):
                    self.t("default")
                else:
                    self.t("case"); self._case_header(c["header"])
                self.t(":"); self.nl(+1)
                if "string" in c:
                    self.arg(c["string"]); self.nl()
                else:
                    for b in c["body"]:
                        self.stmt(b)
                self.toks[-1].indent_delta -= 1
            self.toks[-1].indent_delta -= 1
            self.t("}"); self.nl()
            self.add_mark(i0, ("stmt", id(s)))
            return
        if t == "msgswitch" and any("body" in c for c in s["cases"]):
            i0 = len(self.toks)
            self.t("message_SwitchTalk" if s["kind"] == "talk" else "message_SwitchMonologue")
            self.t("("); self.il(s["v"]); self.t(")"); self.t("{"); self.nl(+1)
            for c in s["cases"]:
                if c.get("default"):
                    self.t("default")
                else:
                    self.t("case"); self.il(c["v"])
                self.t(":"); self.nl(+1)
                if "body" in c:
                    for b in c["body"]:
                        self.stmt(b)
                else:
                    self.arg(c["string"]); self.nl()
                self.toks[-1].indent_delta -= 1
            self.toks[-1].indent_delta -= 1
            self.t("}"); self.nl()
            self.add_mark(i0, ("stmt", id(s)))
            return
        super().stmt(s)

    def _switch_header(self, sh: dict) -> None:
        k = sh["s"]
        if k == "var":
            self.il(sh["v"])
        elif k == "scn":
            self.t("scn"); self.t("("); self.il(sh["v"]); self.t(")"); self.t("["); self.t(surface.spell_int(sh["index"])); self.t("]")
        elif k == "random":
            self.t("random"); self.t("("); self.il(sh["v"]); self.t(")")
        elif k == "dungeon_mode":
            self.t("dungeon_mode"); self.t("("); self.il(sh["v"]); self.t(")")
        elif k == "sector":
            self.t("sector"); self.t("("); self.t(")")
        else:
            self.t(sh["name"]); self.arglist(sh["args"])

    def _case_header(self, ch: dict) -> None:
        if ch["c"] == "value":
            self.il(ch["v"])
        elif ch["c"] == "op":
            self.t(ch["cmp"])
            if ch.get("value_of"):
                self.t("value"); self.t("("); self.il(ch["v"]); self.t(")")
            else:
                self.il(ch["v"])
        elif ch["c"] == "menu":
            self.t("menu"); self.t("("); self.arg(ch["v"]); self.t(")")
        else:
            self.t("menu2"); self.t("("); self.il(ch["v"]); self.t(")")


def print_program(p: dict, rnd: random.Random | None = None, style: str = "canonical") -> str:
    pr = XPrinter()
    pr.program(p)
    return surface.layout(pr.toks, rnd, style)[0]


def tokens(p: dict) -> list[surface.Tok]:
    pr = XPrinter()
    pr.program(p)
    return pr.toks


# ----------------------------------------------------------------------------------------------------------------------
# surface AST -> static AST
# ----------------------------------------------------------------------------------------------------------------------
def _hdr(h: dict) -> Any:
    if h["h"] == "bit":
        v = h["var"]
        return ["bit", bool(h.get("not")), v["v"] if v["k"] in ("id", "var") else ""]
    return "plain"


def _stmt(s: dict) -> list:
    t = s["t"]
    if t == "op":
        return ["op", bool(s.get("ctx"))]
    if t == "assign":
        return ["op", False]
    if t in ("label", "jump", "call"):
        return [t, s["name"]]
    if t == "ctrl":
        return [{"return": "ret", "end": "end", "hold": "hold", "break": "break", "continue": "continue", "break_loop": "break_loop"}[s["k"]]]
    if t == "with":
        return ["with", _stmt(s["stmt"])]
    if t == "if":
        return ["if", [[bool(b.get("not")), [_hdr(h) for h in b["headers"]], _block(b["body"])] for b in s["branches"]],
                _block(s["else"]) if s.get("else") is not None else []]
    if t == "switch":
        return ["switch", [[bool(c.get("default")), bool(c.get("default")) or c["header"]["c"] == "value", "string" in c,
                            [] if "string" in c else _block(c["body"])] for c in s["cases"]]]
    if t == "msgswitch":
        return ["msgswitch", [[bool(c.get("default")), True, "body" not in c, _block(c["body"]) if "body" in c else []] for c in s["cases"]]]
    if t == "forever":
        return ["forever", _block(s["body"])]
    if t == "while":
        return ["while", _hdr(s["header"]), _block(s["body"])]
    if t == "for":
        return ["for", _stmt(s["init"]), _hdr(s["header"]), _stmt(s["inc"]), _block(s["body"])]
    if t == "macrocall":
        return ["macro", s["name"], len(s["args"])]
    raise ValueError(t)


def _block(ss: list[dict]) -> list:
    return [_stmt(s) for s in ss]


def to_static(p: dict, spec: Callable[[str], Any] | None = None, ssbscript: bool = False) -> dict:
    """`spec(import string)` -> import of the static AST ({"direct": key} | {"lookup": [keys]} | "invalid"), see `import_spec`"""
    return {"imports": [(spec(i) if spec else {"lookup": []}) for i in p.get("imports", [])],
            "macros": [{"name": m["name"], "vars": m["params"], "body": _block(m["body"])} for m in p.get("macros", [])],
            "routines": [{"id": None if r["kind"] == "coro" else r["id"],
                          "fixed": r["kind"] == "for" and r["target"]["k"] == "dec",
                          "body": None if r["body"] is None else _block(r["body"])} for r in p["routines"]],
            "ssbscript": ssbscript}


# ----------------------------------------------------------------------------------------------------------------------
# positions: every statement list whose statements are collected, with the lexical flags
# ----------------------------------------------------------------------------------------------------------------------
def blocks(p: dict, routines: bool = True, macros: bool = True) -> list[dict]:
    out: list[dict] = []

    def walk(ss: list, loop: bool, case: bool, where: str, top: bool) -> None:
        out.append({"ss": ss, "loop": loop, "case": case, "where": where, "top": top})
        for s in ss:
            t = s["t"]
            if t == "if":
                for b in s["branches"]:
                    walk(b["body"], loop, case, where, False)
                if s.get("else") is not None:
                    walk(s["else"], loop, case, where, False)
            elif t == "switch":
                for c in s["cases"]:
                    if "string" not in c and c["body"]:
                        walk(c["body"], loop, True, where, False)
            elif t in ("forever", "while", "for"):
                walk(s["body"], True, case, where, False)
    if routines:
        for i, r in enumerate(p["routines"]):
            if r["body"] is not None:
                walk(r["body"], False, False, f"r{i}", True)
    if macros:
        for m in p.get("macros", []):
            walk(m["body"], False, False, "m:" + m["name"], True)
    return out


def all_stmts(p: dict) -> list[dict]:
    return [s for b in blocks(p) for s in b["ss"]]


def _ins(r: random.Random, ss: list, s: dict) -> None:
    ss.insert(r.randint(0, len(ss)), s)


def _plain(r: random.Random) -> dict:
    return {"t": "op", "name": r.choice(PLAIN_OPS), "args": [{"k": "int", "v": r.randint(0, 9)}]}


def _il(r: random.Random) -> dict:
    return r.choice([{"k": "int", "v": r.randint(0, 5)}, {"k": "id", "v": "ACTOR_X"}, {"k": "var", "v": "$X"}])


def _wrap(r: random.Random, s: dict, in_with_ok: bool = True) -> dict:
    """the simple statement itself, or the same inside a with-block / an if (static context unchanged)"""
    c = r.random()
    if c < 0.6:
        return s
    if c < 0.8 and in_with_ok:
        return {"t": "with", "kind": r.choice(["actor", "object", "performer"]), "target": _il(r), "stmt": s}
    return {"t": "if", "branches": [{"not": r.random() < 0.3, "headers": [{"h": "neg", "not": False, "kw": "debug"}], "body": [s]}], "else": None}


_uid = [0]


def fresh(prefix: str) -> str:
    _uid[0] += 1
    return f"{prefix}{_uid[0]}"


# ----------------------------------------------------------------------------------------------------------------------
# macros for valid programs
# ----------------------------------------------------------------------------------------------------------------------
def macro_body(r: random.Random, depth: int = 2) -> list[dict]:
    g = ProgGen(random.Random(r.getrandbits(32)), Cfg(max_depth=depth, max_stmts=3, max_routines=1, pos_marks=False))
    g.label_pool, g.jumps, g.n_label = [], [], 0
    body = [g.stmt(0, False, False) for _ in range(r.choice([1, 2, 3]))]
    body.append(_plain(r))            # never a body of labels only
    if r.random() < 0.3:
        body.append({"t": "ctrl", "k": "return"})
    # labels are private to a macro: define what is referenced, with macro-unique names
    defined, used = ProgGen.scan_labels([{"body": body}])
    for nm in sorted(used - defined):
        body.insert(r.randint(0, len(body)), {"t": "label", "name": nm})
    return body


def rename_labels(ss: list[dict], suffix: str) -> None:
    for s in ss:
        t = s["t"]
        if t in ("label", "jump", "call"):
            s["name"] = s["name"] + suffix
        elif t == "with":
            rename_labels([s["stmt"]], suffix)
        elif t == "if":
            for b in s["branches"]:
                rename_labels(b["body"], suffix)
            if s.get("else") is not None:
                rename_labels(s["else"], suffix)
        elif t == "switch":
            for c in s["cases"]:
                rename_labels(c.get("body", []), suffix)
        elif t in ("forever", "while", "for"):
            rename_labels(s["body"], suffix)
            if t == "for":
                rename_labels([s["init"], s["inc"]], suffix)


def add_macros(p: dict, r: random.Random, n: int | None = None) -> dict:
    """adds n macros (a call forest) and calls of them in routines; returns p (modified in place)"""
    n = r.choice([1, 1, 2, 3, 4]) if n is None else n
    macros = []
    for i in range(n):
        params = [f"$p{j}" for j in range(r.choice([0, 0, 1, 2, 3]))]
        body = macro_body(r)
        rename_labels(body, f"_m{i}")
        used = [v for v in params if r.random() < 0.7]
        if used:
            body.insert(r.randint(0, len(body)), {"t": "op", "name": "Use", "args": [{"k": "var", "v": v} for v in used]})
        macros.append({"name": fresh("mac"), "params": params, "body": body})
    # forest: macro i may be called by exactly one macro with a smaller index
    for i in range(1, n):
        if r.random() < 0.6:
            caller = macros[r.randint(0, i - 1)]
            blks = blocks({"routines": [], "macros": [caller]})
            _ins(r, r.choice(blks)["ss"], call_of(r, macros[i]))
    p.setdefault("macros", [])
    p["macros"] += macros
    r.shuffle(p["macros"])
    rb = blocks(p, macros=False)
    for m in macros:
        for _ in range(r.choice([0, 1, 1, 2])):
            if rb:
                _ins(r, r.choice(rb)["ss"], call_of(r, m))
    return p


def call_of(r: random.Random, m: dict, nargs: int | None = None) -> dict:
    k = nargs if nargs is not None else len(m["params"]) + r.choice([0, 0, 1])
    return {"t": "macrocall", "name": m["name"], "args": [r.choice([{"k": "int", "v": r.randint(0, 99)}, {"k": "id", "v": "K"}, {"k": "str", "v": "s", "quote": '"'}]) for _ in range(k)]}


def base_program(r: random.Random, with_macros: bool | None = None) -> dict:
    cfg = r.choice([Cfg(max_depth=2, max_stmts=3, max_routines=2), Cfg(max_depth=3, max_stmts=3, max_routines=2),
                    Cfg(max_depth=2, max_stmts=2, max_routines=1), Cfg(max_depth=2, max_stmts=3, max_routines=2, coro=True)])
    cfg.pos_marks = False
    p = ProgGen(random.Random(r.getrandbits(48)), cfg).program()
    if with_macros is None:
        with_macros = r.random() < 0.5
    if with_macros:
        add_macros(p, r)
    return p


# ----------------------------------------------------------------------------------------------------------------------
# mutators: each returns a dict describing what was injected, or None when not applicable
# ----------------------------------------------------------------------------------------------------------------------
def m_break_outside(p: dict, r: random.Random, routine_only: bool = False) -> dict | None:
    bl = [b for b in blocks(p, macros=not routine_only) if not b["case"]]
    if not bl:
        return None
    b = r.choice(bl)
    brk = {"t": "ctrl", "k": "break"}
    if r.random() < 0.15:
        # as the init statement of a for loop: the loop is on the stack, a case is not
        s: dict = {"t": "for", "init": brk, "header": {"h": "neg", "not": False, "kw": "debug"}, "inc": {"t": "assign", "form": "clear", "target": {"k": "var", "v": "$X"}}, "body": [_plain(r)]}
    else:
        s = _wrap(r, brk)
    _ins(r, b["ss"], s)
    return {"where": b["where"], "loop": b["loop"]}


def _loop_ctrl(k: str) -> Callable[[dict, random.Random, bool], dict | None]:
    def mut(p: dict, r: random.Random, routine_only: bool = False) -> dict | None:
        bl = [b for b in blocks(p, macros=not routine_only) if not b["loop"]]
        if not bl:
            return None
        b = r.choice(bl)
        _ins(r, b["ss"], _wrap(r, {"t": "ctrl", "k": k}))
        return {"where": b["where"], "case": b["case"]}
    return mut


def m_jump_undefined(p: dict, r: random.Random, routine_only: bool = False) -> dict | None:
    bl = blocks(p, macros=False)
    if not bl:
        return None
    b = r.choice(bl)
    nm = fresh("undef")
    kind = r.choice(["jump", "jump", "call"])
    _ins(r, b["ss"], _wrap(r, {"t": kind, "name": nm}))
    v = r.random()
    if v < 0.25:
        # the label exists, but only inside a macro body (called or not): it does not serve the routine
        m = {"name": fresh("lblmac"), "params": [], "body": [_plain(r), {"t": "label", "name": nm}, _plain(r)]}
        p.setdefault("macros", []).append(m)
        if r.random() < 0.6:
            _ins(r, r.choice(blocks(p, macros=False))["ss"], call_of(r, m))
        return {"where": b["where"], "variant": "label_only_in_macro", "kind": kind}
    return {"where": b["where"], "variant": "plain", "kind": kind}


def m_jump_undefined_in_macro(p: dict, r: random.Random, routine_only: bool = False) -> dict | None:
    """a macro whose body jumps to a label it does not place; expanded from a routine, directly or through another macro"""
    nm = fresh("undefm")
    m = {"name": fresh("jmac"), "params": [], "body": [_plain(r), {"t": r.choice(["jump", "call"]), "name": nm}, _plain(r)]}
    p.setdefault("macros", []).append(m)
    callee = m
    if r.random() < 0.35:
        outer = {"name": fresh("omac"), "params": [], "body": [_plain(r), call_of(r, m)]}
        p["macros"].append(outer)
        callee = outer
    rb = blocks(p, macros=False)
    if not rb:
        return None
    b = r.choice(rb)
    _ins(r, b["ss"], call_of(r, callee))
    if r.random() < 0.4:
        # the calling routine places a label of that name: does not help, labels of an expansion are private
        _ins(r, r.choice(rb)["ss"], {"t": "label", "name": nm})
    return {"where": b["where"], "nested": callee is not m}


def _new_switch(r: random.Random, cases: list[dict]) -> dict:
    return {"t": "switch", "header": {"s": "var", "v": {"k": "var", "v": "$X"}}, "cases": cases}


def _case(r: random.Random, body: list[dict], default: bool = False) -> dict:
    return {"default": default, "header": None if default else {"c": "value", "v": {"k": "int", "v": r.randint(0, 50)}}, "body": body}


def _switches(p: dict, routine_only: bool = False) -> list[tuple[dict, dict]]:
    return [(s, b) for b in blocks(p, macros=not routine_only) for s in b["ss"] if s["t"] == "switch"]


def m_switch_ends_empty(p: dict, r: random.Random, routine_only: bool = False) -> dict | None:
    sw = [x for x in _switches(p, routine_only) if not any("string" in c for c in x[0]["cases"])]
    v = r.random()
    if sw and v < 0.5:
        s, b = r.choice(sw)
        if s["cases"] and r.random() < 0.4:
            s["cases"][-1]["body"] = []
            return {"where": b["where"], "variant": "emptied_last"}
        has_default = any(c.get("default") for c in s["cases"])
        s["cases"].append(_case(r, [], default=(not has_default and r.random() < 0.4)))
        return {"where": b["where"], "variant": "appended_empty"}
    bl = blocks(p, macros=not routine_only)
    b = r.choice(bl)
    if v < 0.7:
        cases = [_case(r, [_plain(r), {"t": "ctrl", "k": "break"}]), _case(r, [])]
        variant = "new_two_cases"
    elif v < 0.85:
        cases = [_case(r, [])]
        variant = "new_single_empty"
    else:
        # a default holding a string has no statements either
        cases = [_case(r, [_plain(r)]), {"default": True, "header": None, "body": [], "string": {"k": "str", "v": "x", "quote": '"'}}]
        variant = "new_string_default_last"
    _ins(r, b["ss"], _new_switch(r, cases))
    return {"where": b["where"], "variant": variant}


def m_two_defaults(p: dict, r: random.Random, routine_only: bool = False) -> dict | None:
    sw = [x for x in _switches(p, routine_only) if not any("string" in c for c in x[0]["cases"])]
    v = r.random()
    if sw and v < 0.45:
        s, b = r.choice(sw)
        need = 2 - sum(1 for c in s["cases"] if c.get("default"))
        for _ in range(max(need, 1)):
            s["cases"].insert(r.randint(0, len(s["cases"])), _case(r, [_plain(r), {"t": "ctrl", "k": "break"}], default=True))
        if not s["cases"][-1]["body"]:
            s["cases"][-1]["body"] = [_plain(r)]
        return {"where": b["where"], "variant": "existing_switch"}
    b = r.choice(blocks(p, macros=not routine_only))
    if v < 0.8:
        cases = [_case(r, [_plain(r)], default=True), _case(r, [_plain(r)]), _case(r, [_plain(r)], default=True)]
        r.shuffle(cases)
        _ins(r, b["ss"], _new_switch(r, cases))
        return {"where": b["where"], "variant": "new_switch"}
    ms = {"t": "msgswitch", "kind": r.choice(["talk", "monologue"]), "v": {"k": "var", "v": "$X"},
          "cases": [{"default": True, "v": None, "string": {"k": "str", "v": "a", "quote": '"'}},
                    {"default": False, "v": {"k": "int", "v": 1}, "string": {"k": "str", "v": "b", "quote": '"'}},
                    {"default": True, "v": None, "string": {"k": "str", "v": "c", "quote": '"'}}]}
    _ins(r, b["ss"], ms)
    return {"where": b["where"], "variant": "message_switch"}


def m_stmts_in_message_switch(p: dict, r: random.Random, routine_only: bool = False) -> dict | None:
    b = r.choice(blocks(p, macros=not routine_only))
    v = r.random()
    good = {"default": False, "v": {"k": "int", "v": 2}, "string": {"k": "str", "v": "ok", "quote": '"'}}
    if v < 0.5:
        bad: dict = {"default": False, "v": {"k": "int", "v": 1}, "body": [_plain(r)] + ([{"t": "ctrl", "k": "break"}] if r.random() < 0.3 else [])}
        variant = "case_with_statements"
    elif v < 0.75:
        bad = {"default": False, "v": {"k": "int", "v": 1}, "body": []}
        variant = "case_without_anything"
    else:
        bad = {"default": True, "v": None, "body": [_plain(r)]}
        variant = "default_with_statements"
    cases = [good, bad] if r.random() < 0.5 else [bad, good]
    if r.random() < 0.3:
        cases = [bad]
    _ins(r, b["ss"], {"t": "msgswitch", "kind": r.choice(["talk", "monologue"]), "v": {"k": "var", "v": "$X"}, "cases": cases})
    return {"where": b["where"], "variant": variant}


def m_label_in_with(p: dict, r: random.Random, routine_only: bool = False) -> dict | None:
    b = r.choice(blocks(p, macros=not routine_only))
    _ins(r, b["ss"], {"t": "with", "kind": r.choice(["actor", "object", "performer"]), "target": _il(r),
                      "stmt": {"t": "label", "name": fresh("wl"), "paragraph": r.random() < 0.2}})
    return {"where": b["where"]}


def m_not_on_bit(p: dict, r: random.Random, routine_only: bool = False) -> dict | None:
    bad = {"h": "bit", "not": True, "var": r.choice([{"k": "var", "v": "$X"}, {"k": "var", "v": "$SCENARIO_MAIN"}, {"k": "id", "v": "CONST_Y"}, {"k": "int", "v": 7}]), "index": r.randint(0, 9)}
    other = {"h": "neg", "not": False, "kw": "edit"}
    b = r.choice(blocks(p, macros=not routine_only))
    v = r.random()
    if v < 0.35:
        hs = [bad] if r.random() < 0.5 else r.sample([bad, other], 2)
        s: dict = {"t": "if", "branches": [{"not": r.random() < 0.3, "headers": hs, "body": [_plain(r)]}], "else": None}
        variant = "if"
    elif v < 0.55:
        s = {"t": "if", "branches": [{"not": False, "headers": [other], "body": [_plain(r)]}, {"not": r.random() < 0.3, "headers": [bad], "body": [_plain(r)]}],
             "else": [_plain(r)] if r.random() < 0.5 else None}
        variant = "elseif"
    elif v < 0.8:
        s = {"t": "while", "not": r.random() < 0.3, "header": bad, "body": [_plain(r)]}
        variant = "while"
    else:
        s = {"t": "for", "init": {"t": "assign", "form": "clear", "target": {"k": "var", "v": "$X"}}, "header": bad,
             "inc": {"t": "assign", "form": "init", "target": {"k": "var", "v": "$X"}}, "body": [_plain(r)]}
        variant = "for"
    _ins(r, b["ss"], s)
    return {"where": b["where"], "variant": variant}


def m_unknown_macro(p: dict, r: random.Random, routine_only: bool = False) -> dict | None:
    call = {"t": "macrocall", "name": fresh("nomacro"), "args": [{"k": "int", "v": 1}] * r.choice([0, 1, 2])}
    v = r.random()
    if v < 0.15 and not routine_only:
        # in a macro that nothing calls: still compiled, still rejected
        p.setdefault("macros", []).append({"name": fresh("uncalled"), "params": [], "body": [_plain(r), call]})
        return {"where": "uncalled macro", "variant": "uncalled_macro"}
    b = r.choice(blocks(p, macros=not routine_only))
    if v < 0.3:
        # behind a statement that ends the control flow: unreachable, still rejected
        b["ss"] += [{"t": "ctrl", "k": r.choice(["end", "return", "hold"])}, call]
        return {"where": b["where"], "variant": "unreachable"}
    _ins(r, b["ss"], call)
    return {"where": b["where"], "variant": "plain"}


def m_recursive_macros(p: dict, r: random.Random, routine_only: bool = False) -> dict | None:
    k = r.choice([1, 1, 2, 2, 3])
    names = [fresh("rec") for _ in range(k)]
    ms = []
    for i, nm in enumerate(names):
        ms.append({"name": nm, "params": [], "body": [_plain(r), {"t": "macrocall", "name": names[(i + 1) % k], "args": []}]})
        if r.random() < 0.3:
            # the recursive call deeper in the body
            ms[-1]["body"] = [{"t": "if", "branches": [{"not": False, "headers": [{"h": "neg", "not": False, "kw": "debug"}], "body": [ms[-1]["body"][1]]}], "else": None}, _plain(r)]
    p.setdefault("macros", [])
    for m in ms:
        p["macros"].insert(r.randint(0, len(p["macros"])), m)
    if r.random() < 0.5:
        rb = blocks(p, macros=False)
        if rb:
            _ins(r, r.choice(rb)["ss"], {"t": "macrocall", "name": names[0], "args": []})
    return {"cycle": k}


USE_PATTERNS = ["all", "none", "first_unused", "last_unused", "nested_only", "condition_only", "context_only", "assign_target_only"]


def macro_with_params(r: random.Random, n: int, pattern: str, extra: list[dict]) -> dict:
    """a macro with n parameters that uses them according to `pattern`; helper macros it needs are appended to `extra`"""
    params = [f"$q{i}" for i in range(n)]
    if pattern == "none":
        used: list[str] = []
    elif pattern == "first_unused":
        used = params[1:]
    elif pattern == "last_unused":
        used = params[:-1]
    else:
        used = list(params)
    v = lambda x: {"k": "var", "v": x}  # noqa: E731
    body: list[dict] = [_plain(r)]
    if pattern == "nested_only":
        inner = {"name": fresh("tfinner"), "params": ["$x"], "body": [{"t": "op", "name": "Use", "args": [v("$x")]}]}
        extra.append(inner)
        body += [{"t": "macrocall", "name": inner["name"], "args": [v(x)]} for x in used]
    elif pattern == "condition_only":
        body += [{"t": "if", "branches": [{"not": False, "headers": [{"h": "op", "left": v(x), "cmp": "==", "right": {"k": "int", "v": 1}, "value_of": False}],
                                             "body": [_plain(r)]}], "else": None} for x in used[:1]]
        body += [{"t": "switch", "header": {"s": "var", "v": v(x)}, "cases": [_case(r, [_plain(r)])]} for x in used[1:]]
    elif pattern == "context_only":
        body += [{"t": "with", "kind": "actor", "target": v(x), "stmt": _plain(r)} if k % 2 == 0 else
                 {"t": "op", "name": "Turn", "args": [], "ctx": {"kind": "object", "target": v(x)}} for k, x in enumerate(used)]
    elif pattern == "assign_target_only":
        body += [{"t": "assign", "form": "regular", "target": v(x), "index": None, "op": "=", "value": {"k": "int", "v": 3}, "value_of": False} for x in used]
    elif used:
        body.append({"t": "op", "name": "Use", "args": [v(x) for x in used]})
    return {"name": fresh("tfmac"), "params": params, "body": body}


def m_too_few_args(p: dict, r: random.Random, routine_only: bool = False) -> dict | None:
    """a call with fewer arguments than the macro has parameters — whether or not the macro body uses the parameter that
    gets no value (unused, used only in a nested call / a condition / a context / as assignment target); called from a
    routine, from another macro, or through a macro that is called with all its arguments"""
    n = r.choice([1, 2, 2, 3, 3])
    pattern = r.choice(USE_PATTERNS)
    extra: list[dict] = []
    m = macro_with_params(r, n, pattern, extra)
    p.setdefault("macros", [])
    for x in extra + [m]:
        p["macros"].insert(r.randint(0, len(p["macros"])), x)
    k = r.randint(0, n - 1)
    call = call_of(r, m, nargs=k)
    site = "routine"
    if not routine_only and r.random() < 0.35:
        # from another macro: directly in its body; the caller itself is called correctly from a routine, or never
        caller = {"name": fresh("tfcaller"), "params": ["$c"], "body": [_plain(r), call]}
        if k and r.random() < 0.5:
            call["args"][0] = {"k": "var", "v": "$c"}
        p["macros"].append(caller)
        site = "macro"
        if r.random() < 0.6:
            rb = blocks(p, macros=False)
            if rb:
                _ins(r, r.choice(rb)["ss"], call_of(r, caller, nargs=1))
                site = "macro_called"
        return {"where": "m:" + caller["name"], "params": n, "args": k, "pattern": pattern, "site": site}
    bl = blocks(p, macros=not routine_only)
    bl = [b for b in bl if b["where"] not in ["m:" + x["name"] for x in extra + [m]]]
    if not bl:
        return None
    b = r.choice(bl)
    _ins(r, b["ss"], call)
    return {"where": b["where"], "params": n, "args": k, "pattern": pattern, "site": "routine" if b["where"].startswith("r") else "macro"}


def m_string_case_in_switch(p: dict, r: random.Random, routine_only: bool = False) -> dict | None:
    b = r.choice(blocks(p, macros=not routine_only))
    cases = [{"default": False, "header": {"c": "value", "v": {"k": "int", "v": 1}}, "body": [], "string": {"k": "str", "v": "x", "quote": "'"}},
             _case(r, [_plain(r)])]
    _ins(r, b["ss"], _new_switch(r, cases))
    return {"where": b["where"]}


def m_inline_ctx_in_with(p: dict, r: random.Random, routine_only: bool = False) -> dict | None:
    b = r.choice(blocks(p, macros=not routine_only))
    _ins(r, b["ss"], {"t": "with", "kind": "actor", "target": _il(r),
                      "stmt": {"t": "op", "name": "Turn", "args": [], "ctx": {"kind": "object", "target": _il(r)}}})
    return {"where": b["where"]}


def m_order_probe(p: dict, r: random.Random, routine_only: bool = False) -> dict | None:
    """two defects of different classes (ValueError: too few macro arguments; SsbCompilerError: unknown macro / stray
    control statement / switch shape) in two slots of ONE compound statement: which class comes out depends on the order
    in which the handlers collect their children (positive if-blocks after the else block, string cases before any body …)"""
    m = {"name": fresh("opmac"), "params": ["$a"], "body": [{"t": "op", "name": "Use", "args": [{"k": "var", "v": "$a"}]}]}
    p.setdefault("macros", []).append(m)
    val = {"t": "macrocall", "name": m["name"], "args": []}
    ssb = r.choice([{"t": "macrocall", "name": fresh("nomacro"), "args": []}, {"t": "ctrl", "k": "break"}, {"t": "ctrl", "k": "continue"}])
    dbg = {"h": "neg", "not": False, "kw": "debug"}
    bl = [b for b in blocks(p, macros=False) if not b["case"] and not b["loop"]]
    if not bl:
        return None
    b = r.choice(bl)
    v = r.random()
    if v < 0.45:
        slots = [[_plain(r)] for _ in range(4)]                  # if, elseif, elseif, else
        i, j = r.sample(range(4), 2)
        slots[i].insert(r.randint(0, 1), val)
        slots[j].insert(r.randint(0, 1), ssb)
        s: dict = {"t": "if", "branches": [{"not": r.random() < 0.5, "headers": [dbg], "body": slots[k]} for k in range(3)], "else": slots[3]}
        variant = "if_slots"
    elif v < 0.6:
        # bad header of a positive/negative if next to a ValueError in a block: headers are collected first
        s = {"t": "if", "branches": [{"not": r.random() < 0.5, "headers": [dbg], "body": [val]},
                                     {"not": r.random() < 0.5, "headers": [{"h": "bit", "not": True, "var": {"k": "var", "v": "$X"}, "index": 1}], "body": [_plain(r)]}], "else": None}
        variant = "if_header_vs_block"
    elif v < 0.8:
        cases = [_case(r, [val]), _case(r, [_plain(r)])]
        w = r.random()
        if w < 0.35:
            cases.append({"default": False, "header": {"c": "value", "v": {"k": "int", "v": 77}}, "body": [], "string": {"k": "str", "v": "x", "quote": '"'}})
            variant = "switch_string_case_after_body"
        elif w < 0.7:
            cases.append(_case(r, []))
            variant = "switch_empty_end_after_body"
        else:
            cases.append(_case(r, [ssb if ssb["t"] == "macrocall" else {"t": "macrocall", "name": fresh("nomacro"), "args": []}]))
            r.shuffle(cases)
            variant = "switch_bodies"
        s = _new_switch(r, cases)
    else:
        body = [_plain(r)]
        inner = ssb if ssb["t"] == "macrocall" else {"t": "ctrl", "k": "break"}
        s = {"t": "for", "init": {"t": "ctrl", "k": "break"} if r.random() < 0.5 else {"t": "assign", "form": "clear", "target": {"k": "var", "v": "$X"}},
             "header": dbg, "inc": {"t": "assign", "form": "clear", "target": {"k": "var", "v": "$X"}}, "body": body}
        body.insert(r.randint(0, 1), val)
        body.insert(r.randint(0, 2), inner)
        variant = "for_slots"
    _ins(r, b["ss"], s)
    return {"where": b["where"], "variant": variant}


def m_label_only_routine(p: dict, r: random.Random, routine_only: bool = False) -> dict | None:
    """a routine made of calls of macros whose expansion holds labels only (strip_last_label crashed on the pinned tree;
    compiles to an empty routine now), and near misses: a label or an operation written in the routine itself, a macro with a `return`"""
    lm = {"name": fresh("lonly"), "params": [], "body": [{"t": "label", "name": fresh("ll")} for _ in range(r.choice([1, 1, 2]))]}
    p.setdefault("macros", []).append(lm)
    callee = lm
    variant = "direct"
    v = r.random()
    if v < 0.3:
        outer = {"name": fresh("lonly_outer"), "params": [], "body": [call_of(r, lm, 0)] + ([{"t": "label", "name": fresh("ll")}] if r.random() < 0.5 else [])}
        p["macros"].append(outer)
        callee = outer
        variant = "nested"
    body: list[dict] = [call_of(r, callee, 0) for _ in range(r.choice([1, 1, 2]))]
    w = r.random()
    if w < 0.15:
        body.append({"t": "label", "name": fresh("own")})
        variant += "+own_label(compiles)"
    elif w < 0.3:
        body.insert(r.randint(0, len(body)), _plain(r))
        variant += "+own_op(compiles)"
    elif w < 0.4:
        lm["body"].append({"t": "ctrl", "k": "return"})
        variant += "+macro_return(compiles)"
    if p["routines"] and p["routines"][0]["kind"] == "coro":
        p["routines"].append({"kind": "coro", "id": len(p["routines"]), "name": fresh("CORO_L"), "body": body})
    else:
        p["routines"].append({"kind": "def", "id": max([x["id"] for x in p["routines"]] + [-1]) + 1, "body": body})
    return {"where": f"r{len(p['routines']) - 1}", "variant": variant}


def m_bad_routine_id(p: dict, r: random.Random, routine_only: bool = False) -> dict | None:
    """a routine id that is negative or leaves a gap (ids count up from 0, a coroutine takes the previous id + 1)"""
    rs = p["routines"]
    n = len(rs)
    defs = [i for i, x in enumerate(rs) if x["kind"] != "coro"]
    v = r.random()
    if defs and v < 0.3:
        rs[defs[0]]["id"] = r.choice([-1, -2, rs[defs[0]]["id"] + 1, n + 3])
        variant = "first_def"
    elif defs and v < 0.6:
        i = defs[-1]
        rs[i]["id"] = r.choice([-1, i + 1, i + 2, 4000])
        variant = "last_def"
    else:
        rs.append({"kind": "def", "id": r.choice([-1, n + 1, n + 2, 99999]), "body": [_plain(r)]} if r.random() < 0.7 else
                  {"kind": "for", "id": r.choice([-1, n + 1]), "tkind": "actor", "target": {"k": "int", "v": 1}, "legacy": False, "body": [_plain(r)]})
        variant = "appended"
    return {"variant": variant}


def m_decimal_routine_target(p: dict, r: random.Random, routine_only: bool = False) -> dict | None:
    cand = [x for x in p["routines"] if x["kind"] != "coro"]
    if not cand:
        return None
    x = r.choice(cand)
    x["kind"] = "for"
    x.setdefault("tkind", r.choice(["actor", "object", "performer"]))
    x["legacy"] = r.random() < 0.3
    x["target"] = {"k": "dec", "v": r.choice(["1.5", ".5", "-2.25", "0.0", "12.0"])}
    return {"id": x["id"]}


# shapes named by the property text
MUTATORS: dict[str, Callable[..., dict | None]] = {
    "break_outside_case": m_break_outside,
    "continue_outside_loop": _loop_ctrl("continue"),
    "break_loop_outside_loop": _loop_ctrl("break_loop"),
    "jump_or_call_undefined_label": m_jump_undefined,
    "jump_undefined_label_in_expanded_macro": m_jump_undefined_in_macro,
    "switch_ends_in_empty_case": m_switch_ends_empty,
    "two_defaults": m_two_defaults,
    "statements_in_message_switch": m_stmts_in_message_switch,
    "label_in_with_block": m_label_in_with,
    "not_on_bit_of_ordinary_variable": m_not_on_bit,
    "unknown_macro": m_unknown_macro,
    "recursive_macros": m_recursive_macros,
    "too_few_macro_arguments": m_too_few_args,
}
# rejected by the compiler as well, but not named in the property text (tie only)
EXTRA_MUTATORS: dict[str, Callable[..., dict | None]] = {
    "string_case_in_ordinary_switch": m_string_case_in_switch,
    "inline_context_inside_with": m_inline_ctx_in_with,
    "collect_order_probe": m_order_probe,
    "routine_of_label_only_macro_calls": m_label_only_routine,
    "routine_id_negative_or_gap": m_bad_routine_id,
    "decimal_routine_target": m_decimal_routine_target,
}
ALL_MUTATORS = dict(MUTATORS, **EXTRA_MUTATORS)


def mutate(base: dict, r: random.Random, shapes: list[str]) -> tuple[dict, list[dict]] | None:
    """apply the named mutators to a copy of `base`; in a combination a too-few-arguments call goes into a routine
    (the compile order of the macros of one file is the macro resolution order, which the static model does not have)"""
    p = copy.deepcopy(base)
    infos = []
    combo = len(shapes) > 1
    for sh in shapes:
        info = ALL_MUTATORS[sh](p, r, combo and sh in ("too_few_macro_arguments",))
        if info is None:
            return None
        info["shape"] = sh
        infos.append(info)
    return p, infos


# ----------------------------------------------------------------------------------------------------------------------
# import graphs
# ----------------------------------------------------------------------------------------------------------------------
def _lib(r: random.Random, names: list[str], imports: list[str] | None = None) -> dict:
    return {"imports": imports or [], "routines": [],
            "macros": [{"name": nm, "params": [], "body": [_plain(r)] + ([_plain(r)] if r.random() < 0.5 else [])} for nm in names]}


def _main(r: random.Random, imports: list[str], calls: list[str]) -> dict:
    p = base_program(r, with_macros=False)
    p["imports"] = imports
    rb = blocks(p, macros=False)
    for nm in calls:
        _ins(r, r.choice(rb)["ss"], {"t": "macrocall", "name": nm, "args": []})
    return p


WORLD_KINDS = ["import_ok", "import_ok_diamond", "import_ok_lookup", "missing_import", "missing_import_nested", "cyclic_import_self",
               "cyclic_import_two", "cyclic_import_not_through_root", "cyclic_import_long", "routines_in_imported_file",
               "routines_in_imported_ssbscript_file", "defect_in_imported_macro", "import_of_directory", "too_few_arguments_for_imported_macro",
               "recursion_through_name_of_imported_macro"]


def gen_world(r: random.Random, kind: str) -> dict:
    """-> {"kind", "files": {name: surface AST | {"text"} | {"dir"}}, "root", "lookup", "expect_reject", "modelled"}"""
    a, b, c = fresh("ma"), fresh("mb"), fresh("mc")
    files: dict[str, Any] = {}
    lookup: list[str] = []
    expect = False
    modelled = True
    if kind == "import_ok":
        files = {"main.exps": _main(r, ["./lib.exps"], [a, b]), "lib.exps": _lib(r, [a, b])}
    elif kind == "import_ok_diamond":
        files = {"main.exps": _main(r, ["./l1.exps", "./l2.exps"], [a, b, c]), "l1.exps": _lib(r, [a], ["./l3.exps"]),
                 "l2.exps": _lib(r, [b], ["./l3.exps"]), "l3.exps": _lib(r, [c])}
        files["l1.exps"]["macros"][0]["body"].append({"t": "macrocall", "name": c, "args": []})
    elif kind == "import_ok_lookup":
        files = {"main.exps": _main(r, ["lib.exps"], [a]), "libs/lib.exps": _lib(r, [a])}
        lookup = ["libs"]
    elif kind == "missing_import":
        files = {"main.exps": _main(r, r.choice([["./nope.exps"], ["./lib.exps", "./nope.exps"], ["nolookup.exps"]]), []), "lib.exps": _lib(r, [a])}
        expect = True
    elif kind == "missing_import_nested":
        files = {"main.exps": _main(r, ["./lib.exps"], [a]), "lib.exps": _lib(r, [a], ["./nope.exps"])}
        expect = True
    elif kind == "cyclic_import_self":
        files = {"main.exps": _main(r, ["./main.exps"], [])}
        expect = True
    elif kind == "cyclic_import_two":
        files = {"main.exps": _main(r, ["./lib.exps"], [a]), "lib.exps": _lib(r, [a], ["./main.exps"])}
        expect = True
    elif kind == "cyclic_import_not_through_root":
        files = {"main.exps": _main(r, ["./l1.exps"], [a]), "l1.exps": _lib(r, [a], ["./l2.exps"]), "l2.exps": _lib(r, [b], ["./l1.exps"])}
        if r.random() < 0.5:
            files["l2.exps"]["imports"] = ["./l2.exps"]
        expect = True
    elif kind == "cyclic_import_long":
        n = r.randint(3, 6)
        names = [f"c{i}.exps" for i in range(n)]
        files = {"main.exps": _main(r, ["./" + names[0]], [])}
        back = r.choice(["main.exps"] + names)
        for i, nm in enumerate(names):
            files[nm] = _lib(r, [fresh("mz")], ["./" + (names[i + 1] if i + 1 < n else back)])
        expect = True
    elif kind == "routines_in_imported_file":
        lib = _lib(r, [a])
        lib["routines"] = [{"kind": "def", "id": 0, "body": [_plain(r)]}]
        files = {"main.exps": _main(r, ["./lib.exps"], [a]), "lib.exps": lib}
        expect = True
    elif kind == "routines_in_imported_ssbscript_file":
        files = {"main.exps": _main(r, ["./lib.exps"], []), "lib.exps": {"text": "//?: is-ssb-script: true\ndef 0 {\n    Wait(1);\n}\n", "ssbscript": True}}
        expect = True
    elif kind == "defect_in_imported_macro":
        lib = _lib(r, [a])
        sh = r.choice(["break_outside_case", "continue_outside_loop", "unknown_macro", "label_in_with_block", "two_defaults"])
        ALL_MUTATORS[sh](lib, r, False)
        files = {"main.exps": _main(r, ["./lib.exps"], [a]), "lib.exps": lib}
        expect = True
    elif kind == "too_few_arguments_for_imported_macro":
        extra: list[dict] = []
        n = r.choice([1, 2, 3])
        m = macro_with_params(r, n, r.choice(USE_PATTERNS), extra)
        lib = {"imports": [], "routines": [], "macros": extra + [m]}
        main = _main(r, ["./lib.exps"], [])
        call = call_of(r, m, nargs=r.randint(0, n - 1))
        if r.random() < 0.3:
            # through a macro of the compiled file
            main["macros"].append({"name": fresh("via"), "params": [], "body": [call]})
            call = {"t": "macrocall", "name": main["macros"][-1]["name"], "args": []}
        _ins(r, r.choice(blocks(main, macros=False))["ss"], call)
        files = {"main.exps": main, "lib.exps": lib}
        expect = True
    elif kind == "recursion_through_name_of_imported_macro":
        # the imported file defines a (harmless) macro `a`; the compiled file defines its own `a` inside a call cycle
        # (a -> a, or a -> b -> a): recursive macros are rejected whatever else carries the same name
        main = _main(r, ["./lib.exps"], [])
        k = r.choice([1, 2, 2, 3])
        names = [a] + [fresh("cyc") for _ in range(k - 1)]
        for i, nm in enumerate(names):
            call = {"t": "macrocall", "name": names[(i + 1) % k], "args": []}
            body = [_plain(r), call]
            if r.random() < 0.4:
                body = [{"t": "if", "branches": [{"not": False, "headers": [{"h": "neg", "not": False, "kw": "debug"}], "body": [call]}], "else": None}, _plain(r)]
            main["macros"].append({"name": nm, "params": [], "body": body})
        r.shuffle(main["macros"])
        if r.random() < 0.6:
            _ins(r, r.choice(blocks(main, macros=False))["ss"], {"t": "macrocall", "name": r.choice(names), "args": []})
        files = {"main.exps": main, "lib.exps": _lib(r, [a])}
        expect = True
        modelled = False     # (a macro name defined in two files is outside the world model)
    elif kind == "import_of_directory":
        files = {"main.exps": _main(r, [r.choice([".", "./", "./sub", ""])], []), "sub": {"dir": True}}
        expect = True
    else:
        raise ValueError(kind)
    return {"kind": kind, "files": files, "root": "main.exps", "lookup": lookup, "expect_reject": expect, "modelled": modelled}


def world_texts(w: dict) -> dict:
    out = {}
    for nm, f in w["files"].items():
        if isinstance(f, dict) and "text" in f:
            out[nm] = f["text"]
        elif isinstance(f, dict) and f.get("dir"):
            out[nm] = {"dir": True}
        else:
            out[nm] = print_program(f)
    return out


ROOT = "@ROOT@"          # stands for the directory the world is written to (impl_c10.compile_world substitutes it)
_VROOT = "/W"


def import_spec(importer: str, imp: str, lookup: list[str]) -> Any:
    """the path arithmetic of `_resolve_imported_file` on world keys (posix paths relative to the world's directory; a path
    outside of it keeps its absolute form and is never a file of the world): which path(s) an import statement names"""
    import posixpath
    d = posixpath.join(_VROOT, posixpath.dirname(importer))

    def key(path: str) -> str:
        n = posixpath.normpath(path)
        return n[len(_VROOT) + 1:] if n.startswith(_VROOT + "/") else n
    imp = imp.replace(ROOT, _VROOT)
    if imp.startswith(".") or imp.startswith("/"):
        return {"direct": key(posixpath.join(d, imp))}
    parts = imp.split("/")
    if "." in parts or ".." in parts:
        return "invalid"
    return {"lookup": [key(posixpath.join(d, lp.replace(ROOT, _VROOT), imp)) for lp in lookup]}


LOOKUP_CFGS = [[], [], ["libs"], ["libs", "libs2"], [ROOT + "/libs"], ["nodir", "libs"], ["libs2", "libs"], ["libs", ROOT + "/libs2"]]
FOUND_STYLES = ["rel", "rel_sub", "rel_dotdot", "abs", "lookup", "lookup", "lookup_pkg"]
MISSING_STYLES = ["rel", "rel_dotdot", "abs", "abs_outside", "lookup", "lookup", "lookup", "lookup_pkg", "lookup_invalid", "directory", "lookup_directory", "empty"]


def gen_import_world(r: random.Random) -> dict:
    """import lists of 1-4 statements in the compiled file and (transitively) in imported files: every statement is found or
    missing, of every style (./, ../, absolute, lookup path with 0/1/2 lookup paths, relative and absolute lookup paths), a
    missing statement at every position, after found statements of every style.  Expected: rejected iff some statement of the
    closure is missing (the generator knows which ones it made missing; the resolver of the static model is not consulted)."""
    import posixpath
    lookup = list(r.choice(LOOKUP_CFGS))
    files: dict[str, Any] = {}
    info: list[dict] = []
    any_missing = [False]

    def one_import(importer: str, found: bool, depth: int) -> tuple[str, str | None, str]:
        """-> (import string, macro of the imported file, style)"""
        n = fresh("f")
        if found:
            style = r.choice(FOUND_STYLES)
            if style.startswith("lookup") and not lookup:
                style = r.choice(["rel", "rel_sub", "abs"])
            if style == "rel":
                imp = f"./{n}.exps"
            elif style == "rel_sub":
                imp = f"./sub{r.randint(0, 2)}/{n}.exps"
            elif style == "rel_dotdot":
                imp = f"../{n}.exps" if posixpath.dirname(importer) else f"./d{r.randint(0, 3)}/../{n}.exps"
            elif style == "abs":
                imp = f"{ROOT}/" + r.choice(["", "absdir/"]) + f"{n}.exps"
            else:
                imp = (f"pkg{r.randint(0, 1)}/" if style == "lookup_pkg" else "") + f"{n}.exps"
            sp = import_spec(importer, imp, lookup)
            if "direct" in sp:
                path = sp["direct"]
            else:
                j = r.randrange(len(sp["lookup"]))
                path = sp["lookup"][j]
                style += f"@{j}of{len(sp['lookup'])}"
                if j + 1 < len(sp["lookup"]) and r.random() < 0.5:
                    # the same name further down the lookup list: shadowed, its macro is not available
                    files[sp["lookup"][j + 1]] = _lib(r, [fresh("shadowed")])
            macro = fresh("mi")
            lib = _lib(r, [macro])
            files[path] = lib
            if depth < 2 and r.random() < 0.35:
                fill_imports(path, lib, depth + 1, r.choice([1, 1, 2]), 0.3)
            return imp, macro, style
        style = r.choice(MISSING_STYLES)
        any_missing[0] = True
        if style == "rel":
            imp = f"./{n}.exps"
        elif style == "rel_dotdot":
            imp = f"../{n}.exps"
        elif style == "abs":
            imp = f"{ROOT}/{n}.exps"
        elif style == "abs_outside":
            imp = f"/nonexistent_c10/{n}.exps"
        elif style == "lookup":
            imp = f"{n}.exps"
        elif style == "lookup_pkg":
            imp = f"pkg{r.randint(0, 1)}/{n}.exps"
        elif style == "lookup_invalid":
            imp = r.choice([f"libs/../{n}.exps", f"./{n}.exps"[2:] + "/./x", f"a/../{n}.exps"])
        elif style == "directory":
            files[import_spec(importer, f"./{n}", lookup)["direct"]] = {"dir": True}
            imp = f"./{n}"
        elif style == "lookup_directory":
            sp = import_spec(importer, n, lookup)
            for c in sp["lookup"][:1]:
                files[c] = {"dir": True}
            imp = n
        else:
            imp = ""
        return imp, None, style

    def fill_imports(importer: str, ast: dict, depth: int, n: int, p_missing: float) -> list[str]:
        miss_at = r.randrange(n) if r.random() < p_missing else None
        macros = []
        prev = None
        for k in range(n):
            found = k != miss_at and not (miss_at is not None and r.random() < 0.15)
            imp, macro, style = one_import(importer, found, depth)
            ast["imports"].append(imp)
            if macro:
                macros.append(macro)
            else:
                info.append({"depth": depth, "pos": "only" if n == 1 else "first" if k == 0 else "last" if k == n - 1 else "middle",
                             "style": style, "after": prev, "lookups": len(lookup)})
            prev = style if found else "missing"
        for m in macros:
            if ast["macros"] and r.random() < 0.5:
                ast["macros"][0]["body"].append({"t": "macrocall", "name": m, "args": []})
        return macros

    main = _main(r, [], [])
    files["main.exps"] = main
    n = r.choice([1, 2, 2, 3, 3, 4])
    macros = fill_imports("main.exps", main, 0, n, 0.6)
    rb = blocks(main, macros=False)
    for m in macros:
        _ins(r, r.choice(rb)["ss"], {"t": "macrocall", "name": m, "args": []})
    # main.exps must stay the first key for readability; directories that collide with files are dropped
    return {"kind": "import_list", "files": files, "root": "main.exps", "lookup": lookup, "expect_reject": any_missing[0],
            "modelled": True, "info": info}


def world_static(w: dict) -> dict:
    world = []
    for nm, f in w["files"].items():
        if isinstance(f, dict) and f.get("dir"):
            continue
        if isinstance(f, dict) and "text" in f:
            world.append([nm, {"imports": [], "macros": [], "routines": [{"id": 0, "fixed": False, "body": [["op", False]]}], "ssbscript": bool(f.get("ssbscript"))}])
        else:
            world.append([nm, to_static(f, (lambda imp, nm=nm: import_spec(nm, imp, w["lookup"])))])
    return {"world": world, "root": w["root"]}
