"""C10 part B: strings for the exploration of "never another exception type".

Every case is {"text", "kind"}; `kind` names the generator (evidence histogram), it is not used by the oracle.
Families:
  token level   — valid generated programs (token list of the surface printer) with tokens deleted / duplicated /
                  swapped / replaced / inserted, then laid out again (canonical, dense or random layout)
  char level    — unbalanced quotes, braces, comments; single characters deleted / inserted; truncated files
  degenerate    — routines holding only a label / only `alias previous`, empty bodies, empty files, macros only
  headers       — def ids out of order / negative / with gaps / duplicated / huge-ish / in other bases, coroutines
                  mixed with defs, `for` targets of every literal kind and word
  numbers       — very long integer literals, odd decimals
  meta          — `//?:` attribute lines in all positions, files of attribute lines only, is-ssb-script set on
                  ExplorerScript text and not set on SsbScript text
  ssbscript     — SsbScript sources (harness/gen/ssbs_ast.py: ids out of order, unknown `for` words, jump markers
                  not last, undefined labels, alias) behind the attribute, intact and corrupted, inline contexts
  unicode       — random Unicode text, non-ASCII identifiers, control characters, lone surrogates are avoided (not str-encodable)
  nesting       — if / forever / switch / while / for nests up to 200 deep (RecursionError would be a finding)
"""
from __future__ import annotations

import random
import re
from typing import Any

from . import surface, ssbs_ast
from . import invalid

KEYWORDS = ["not", "jump", "call", "import", "macro", "if", "elseif", "else", "forever", "with", "switch", "return", "end", "hold",
            "continue", "break", "break_loop", "value", "debug", "edit", "variation", "random", "sector", "dungeon_mode", "menu2", "menu",
            "case", "default", "clear", "reset", "init", "scn", "dungeon_result", "adventure_log", "message_SwitchTalk",
            "message_SwitchMonologue", "while", "for", "coro", "def", "for_actor", "for_object", "for_performer", "alias", "previous",
            "Position", "FALSE", "TRUE", "actor", "object", "performer"]
PUNCT = ["(", ")", "{", "}", "[", "]", "<", ">", ",", ";", ":", "=", "==", "<=", ">=", "!=", "&", "^", "&<<", "-=", "+=", "*=", "/=", "||",
         "@", "§", "~", "$", "+", "-", ".", "\\", "!", "#", "%", "?", "`", "|"]
LITERALS = ["0", "1", "-1", "007", "0x1F", "0b101", "0o17", "1.5", ".5", "-.5", "3.", "1e5", "99999999999999999999", "'s'", '"d"', "''", '""',
            "'''m'''", '"""m"""', "'", '"', "'''", '"""', "$v", "$", "~m", "~", "IDENT", "_x", "x1", "ünï", "π", "日本", "​", "\x00", "\x0c", "\r"]
VOCAB = KEYWORDS + PUNCT + LITERALS
STMT_WORDS = ["return", "end", "hold", "continue", "break", "break_loop"]
CMP_WORDS = ["==", "<=", ">=", "!=", "<", ">", "&", "^", "&<<", "FALSE", "TRUE", "=", "-=", "+=", "*=", "/="]
HDR_WORDS = ["debug", "edit", "variation", "not", "default", "case", "forever", "else", "actor", "object", "performer", "jump", "call", "clear", "init", "@", "§"]

TOKEN_RE = re.compile(r"'''.*?'''|\"\"\".*?\"\"\"|'(?:\\.|[^'\\\n])*'|\"(?:\\.|[^\"\\\n])*\"|//[^\n]*|/\*.*?\*/|[A-Za-z_$~][A-Za-z0-9_]*|-?[0-9][0-9A-Za-z_.]*|\s+|.", re.S)


def split_tokens(text: str) -> list[str]:
    return TOKEN_RE.findall(text)


def _tok(text: str, like: surface.Tok | None = None) -> surface.Tok:
    t = surface.Tok(text)
    if like is not None:
        t.nl_after = like.nl_after
        t.indent_delta = like.indent_delta
    return t


def corrupt_token_list(toks: list[surface.Tok], r: random.Random) -> tuple[list[surface.Tok], str]:
    toks = list(toks)
    n = len(toks)
    if n == 0:
        return [_tok(r.choice(VOCAB))], "tok_insert"
    op = r.choice(["delete", "delete", "duplicate", "swap", "swap_adjacent", "replace", "replace", "insert", "insert", "delete_run", "move",
                   "retype", "retype", "retype"])
    if op == "retype":
        # a token of the same lexical class: the text mostly still parses and reaches the compile handlers
        idx = list(range(n))
        r.shuffle(idx)
        for i in idx[:40]:
            t = toks[i].text
            if t in STMT_WORDS:
                toks[i] = _tok(r.choice(STMT_WORDS), toks[i])
            elif re.fullmatch(r"-?[0-9]+", t):
                toks[i] = _tok(r.choice(["-1", "0", "1", "2", "255", "-0", "007", "0x10", "0b1", "65536", "1.5", ".5", "-2.25", "99999", "K", "$X"]), toks[i])
            elif re.fullmatch(r"[A-Za-z_][A-Za-z0-9_]*", t) and t not in KEYWORDS:
                toks[i] = _tok(r.choice(["Wait", "Jump", "Call", "Return", "End", "Hold", "Branch", "BranchBit", "Switch", "Case", "CaseText", "lives", "object", "performer",
                                         "Null", "flag_Set", "message_SwitchTalk", "x", "K", "actor", "Destroy", r.choice(toks).text]), toks[i])
            elif t.startswith("$"):
                toks[i] = _tok(r.choice(["$PERFORMANCE_PROGRESS_LIST", "$X", "$p0", "K", "5"]), toks[i])
            elif t.startswith("~"):
                toks[i] = _tok(r.choice(["~m", "~mac1", t + "x"] + [x.text for x in toks if x.text.startswith("~")]), toks[i])
            elif t in CMP_WORDS:
                toks[i] = _tok(r.choice(CMP_WORDS), toks[i])
            elif t in HDR_WORDS:
                toks[i] = _tok(r.choice(HDR_WORDS), toks[i])
            else:
                continue
            return toks, "tok_retype"
        op = "replace"
    if op == "delete":
        for _ in range(r.choice([1, 1, 1, 2, 3])):
            if toks:
                del toks[r.randrange(len(toks))]
    elif op == "delete_run":
        i = r.randrange(n)
        del toks[i:i + r.randint(2, 8)]
    elif op == "duplicate":
        i = r.randrange(n)
        toks.insert(i, _tok(toks[i].text, toks[i]))
    elif op == "swap":
        i, j = r.randrange(n), r.randrange(n)
        toks[i], toks[j] = toks[j], toks[i]
    elif op == "swap_adjacent":
        i = r.randrange(max(1, n - 1))
        if i + 1 < n:
            toks[i], toks[i + 1] = toks[i + 1], toks[i]
    elif op == "replace":
        i = r.randrange(n)
        toks[i] = _tok(r.choice(VOCAB) if r.random() < 0.8 else r.choice(toks).text, toks[i])
    elif op == "insert":
        for _ in range(r.choice([1, 1, 2])):
            toks.insert(r.randint(0, len(toks)), _tok(r.choice(VOCAB) if r.random() < 0.8 else r.choice(toks).text))
    else:
        i = r.randrange(n)
        t = toks.pop(i)
        toks.insert(r.randint(0, len(toks)), t)
    return toks, "tok_" + op


def render(toks: list[surface.Tok], r: random.Random) -> str:
    style = r.choice(["canonical", "canonical", "dense", "random"])
    try:
        return surface.layout(toks, r, style)[0]
    except Exception:
        return " ".join(t.text for t in toks)


def corrupt_chars(text: str, r: random.Random) -> tuple[str, str]:
    if not text:
        return r.choice(VOCAB), "char_insert"
    op = r.choice(["truncate", "truncate", "delete_char", "insert_char", "quote", "quote", "brace", "comment", "comment", "replace_char", "line_delete", "line_dup", "nul", "crlf"])
    i = r.randrange(len(text))
    if op == "truncate":
        return text[:i], "char_truncate"
    if op == "delete_char":
        return text[:i] + text[i + 1:], "char_delete"
    if op == "insert_char":
        return text[:i] + r.choice(list("'\"{}()[]<>;:,@~$\\/*#.-0 \n\t") + ["ä", " ", "﻿"]) + text[i:], "char_insert"
    if op == "replace_char":
        return text[:i] + r.choice(list("'\"{}()[]<>;:,@~$\\/*")) + text[i + 1:], "char_replace"
    if op == "quote":
        qs = [m.start() for m in re.finditer(r"['\"]", text)]
        if qs and r.random() < 0.6:
            j = r.choice(qs)
            return text[:j] + text[j + 1:], "quote_removed"
        return text[:i] + r.choice(["'", '"', "'''", '"""', "\\'", '\\"', "'\\"]) + text[i:], "quote_inserted"
    if op == "brace":
        bs = [m.start() for m in re.finditer(r"[{}()\[\]<>]", text)]
        if bs and r.random() < 0.6:
            j = r.choice(bs)
            return text[:j] + text[j + 1:], "brace_removed"
        return text[:i] + r.choice(list("{}()[]<>")) + text[i:], "brace_inserted"
    if op == "comment":
        return text[:i] + r.choice(["/*", "*/", "//", "/**/", "/* x", "*/ */", "\\\n", "\\"]) + text[i:], "comment_marker_inserted"
    if op == "nul":
        return text[:i] + r.choice(["\x00", "\x0c", "\x0b", "\x1a", "\x7f", "￾"]) + text[i:], "control_char_inserted"
    if op == "crlf":
        return text.replace("\n", r.choice(["\r\n", "\r", " "])), "newlines_replaced"
    lines = text.split("\n")
    j = r.randrange(len(lines))
    if op == "line_delete":
        del lines[j]
        return "\n".join(lines), "line_deleted"
    lines.insert(j, lines[j])
    return "\n".join(lines), "line_duplicated"


BODY = ["Wait(1);", "a();", "@x;", "jump @x;", "call @x;", "return;", "end;", "hold;", "$X = 1;", "alias previous;", "§p;", "~m();", "break;"]


def degenerate(r: random.Random) -> list[dict]:
    out = []
    fixed = ["", " ", "\n", "\n\n\n", "\t", ";", "{}", "//", "// c", "/* c */", "/*", "/**/ /**/", "﻿", "﻿def 0 { a(); }",
             "def 0 { @x; }", "def 0 { §x; }", "def 0 { @x; @y; }", "def 0 { @x; } def 1 { @y; }", "def 0 { alias previous; }",
             "def 0 { a(); } def 1 { alias previous; }", "def 0 { alias previous; } def 1 { alias previous; }", "def 0 {}", "def 0 { }",
             "coro A {}", "coro A { @x; }", "coro A { alias previous; }", "macro m() {}", "macro m() { @x; }", "macro m() { alias previous; }",
             "macro m() { a(); }", "macro m() { a(); } macro n() { ~m(); }", "macro m() { @x; } def 0 { ~m(); }",
             "macro m() { @x; } def 0 { ~m(); ~m(); }", "macro k() { @y; } macro m() { ~k(); } def 0 { ~m(); }",
             "macro m() { @x; } def 0 { a(); } def 1 { ~m(); }", "macro m() { @x; } def 0 { ~m(); @y; }", "macro m() { @x; jump @x; } def 0 { ~m(); }",
             "macro m() { return; } def 0 { ~m(); }", "macro m() { @x; return; } def 0 { ~m(); }", "macro m() { jump @x; @x; } def 0 { ~m(); }",
             "import \"x\";", "import 'x.exps';", "import \"\";", "import;", "import \"a\" import \"b\";", "def 0 { jump @x; @x; }", "def 0 { @x; jump @x; }",
             "def 0 { call @x; @x; }", "def 0 { if (debug) { jump @x; } @x; }", "def 0 { forever { } }", "def 0 { forever { break_loop; } }",
             "def 0 { while (debug) { } }", "def 0 { for (@a; debug; @b;) { } }", "def 0 { switch ($x) { } }", "def 0 { switch ($x) { default: } }",
             "def 0 { message_SwitchTalk($x) { } }", "def 0 { if (debug) { } else { } }", "def 0 { with (actor 1) { return; } }",
             "def 0 { with (actor 1) { hold; } @x; }", "def 0 { a(); }\n" * 3]
    for t in fixed:
        out.append({"text": t, "kind": "degenerate_fixed"})
    for _ in range(12):
        k = r.randint(0, 3)
        body = " ".join(r.choice(BODY) for _ in range(k))
        hdr = r.choice(["def 0", "coro C", "def 0 for actor 1", "macro m()", "macro m($a)", "def 0 for_actor(1)"])
        out.append({"text": f"{hdr} {{ {body} }}" + (" def 1 { a(); }" if r.random() < 0.3 else ""), "kind": "degenerate_random"})
    return out


CTX_WORDS = ["banana", "Actor", "actors", "x", "lives", "ACTOR", "performer2", "obj", "_", "actor_", "K"]
# one statement per rejection site of the compile handlers that a parseable text can reach (SsbCompilerError / ValueError each)
SITE_STMTS = [
    "with ({w} 1) {{ foo(); }}", "with ({w} K) {{ $x = 1; }}", "with ({w} 1) {{ return; }}", "foo<{w} 1>();", "foo<{w} $v>(1, 'a');",
    "with (actor 1) {{ foo<{w} 2>(); }}", "with ({w} 1) {{ foo<actor 2>(); }}", "with (actor 1) {{ @lbl_{w}; }}", "with ({w} 1) {{ @lbl_{w}; }}",
    "switch (scn($x)[2]) {{ case 1: a(); }}", "switch (scn($x)[-1]) {{ case 1: a(); }}", "if (foo_{w}()) {{ a(); }}", "if (foo<actor 1>()) {{ a(); }}",
    "while (foo_{w}(1)) {{ a(); }}", "for ($i = 0; foo_{w}(); $i += 1;) {{ a(); }}", "if (not $x[1]) {{ a(); }}", "while (not K[0]) {{ a(); }}",
    "a(Position<'m', 1.25, 2>);", "a(Position<'m', 1, 2.75>);", "switch ($x) {{ case 1: 's' }}", "message_SwitchTalk($x) {{ case menu('a'): 's' }}",
    "message_SwitchMonologue($x) {{ case 1: a(); }}", "switch ($x) {{ default: a(); default: b(); }}", "switch ($x) {{ case 1: a(); case 2: }}",
    "break;", "continue;", "break_loop;", "~nomacro_{w}();", "~tf_{w}();", "jump @nolabel_{w};", "call @nolabel_{w};",
]
PLACEMENTS = ["{s}", "if (debug) {{ {s} }}", "if (debug) {{ a(); }} else {{ {s} }}", "switch ($y) {{ case 1: {s} }}", "forever {{ {s} break_loop; }}",
              "if (not edit) {{ b(); }} elseif (debug) {{ {s} }}", "for ($j = 0; debug; $j += 1;) {{ {s} }}"]


def semantic_sites(r: random.Random) -> list[dict]:
    """every parseable statement that a compile handler rejects, with odd context words, placed directly in a routine
    (inside compile's exception-unwrapping try), nested in blocks, and in a macro body (outside of it)"""
    out = []
    for i, st in enumerate(SITE_STMTS):
        w = CTX_WORDS[i % len(CTX_WORDS)] if r.random() < 0.6 else r.choice(CTX_WORDS)
        stmt = st.format(w=w)
        tf = f"macro tf_{w}($a) {{ Use($a); }} " if "~tf_" in stmt else ""
        for pl in [PLACEMENTS[0], r.choice(PLACEMENTS[1:]), r.choice(PLACEMENTS[1:])]:
            body = pl.format(s=stmt)
            out.append({"text": f"{tf}def 0 {{ {body} }}", "kind": "site_in_routine"})
            out.append({"text": f"{tf}def 0 {{ a(); }} def 1 for actor 2 {{ b(); {body} end; }}", "kind": "site_in_second_routine"})
            out.append({"text": f"{tf}macro sm() {{ {body} }} def 0 {{ ~sm(); }}", "kind": "site_in_macro"})
            out.append({"text": f"{tf}coro C {{ {body} }}", "kind": "site_in_coroutine"})
    for w in CTX_WORDS:
        out.append({"text": f"def 0 for {w} 1 {{ a(); }}", "kind": "site_routine_target_word"})
        out.append({"text": f"def 0 {{ a(); }} def 1 for {w} K {{ b(); }}", "kind": "site_routine_target_word"})
    return out


def headers(r: random.Random) -> list[dict]:
    out = []

    def rt(h: str, b: str = "a();") -> str:
        return f"{h} {{ {b} }}"
    orders = [[1, 0], [0, 2], [2, 1, 0], [0, 0], [0, 1, 1], [3], [-1], [0, -1], [-1, 0], [-2, -1], [1, -1], [5, 2, 9], [0, 1, 2, 1], [10, 0],
              [0x10], [7, 7, 7], [-3], [0, 1, -2], [2, -2]]
    for ids in orders:
        out.append({"text": " ".join(rt(f"def {i}", f"a{k}();") for k, i in enumerate(ids)), "kind": "def_ids_" + ("neg" if min(ids) < 0 else "order")})
    sp = ["0x2", "0b10", "0o3", "00", "-0", "007", "0X1f", "1_0", "1.0", "+1", "1e1", "0x", "--1", "- 1"]
    for s in sp:
        out.append({"text": rt(f"def {s}"), "kind": "def_id_spelling"})
    for big in ["4096", "65536", "100000"]:
        out.append({"text": rt(f"def {big}"), "kind": "def_id_large"})
    mixes = ["coro A { a(); } def 0 { b(); }", "def 0 { b(); } coro A { a(); }", "def 1 { b(); } coro A { a(); } def 0 { c(); }",
             "coro A { a(); } coro A { b(); }", "def 3 { a(); } coro B { b(); } coro C { c(); }", "coro A { a(); } def 5 { b(); } coro B { c(); }",
             "def -1 { a(); } coro A { b(); }", "coro A { a(); } def -1 { b(); }", "coro 1 { a(); }", "coro def { a(); }", "coro A B { a(); }"]
    for m in mixes:
        out.append({"text": m, "kind": "coro_def_mix"})
    targets = ["1", "-1", "1.5", ".5", "-0.0", "ACTOR", "$var", "0x10", "'s'", "", "1 2", "(1)", "(1.5)", "(A", "A)", "((1))", "~m", "@x", "Position<'a',1,1>", "99999999999999999999"]
    words = ["actor", "object", "performer", "monster", "Actor", "for", "def", "1", ""]
    for t in targets:
        w = r.choice(words[:3]) if r.random() < 0.7 else r.choice(words)
        out.append({"text": rt(f"def 0 for {w} {t}"), "kind": "for_target"})
        if r.random() < 0.5:
            out.append({"text": rt(f"def 0 {r.choice(['for_actor', 'for_object', 'for_performer'])}{r.choice(['(', ' ', ' ('])}{t}{r.choice([')', ''])}"), "kind": "for_target_legacy"})
    for w in words:
        out.append({"text": rt(f"def 0 for {w} 1"), "kind": "for_word"})
    for i in [-1, -2]:
        out.append({"text": rt(f"def {i} for actor 1"), "kind": "def_ids_neg"})
        out.append({"text": rt("def 0") + " " + rt(f"def {i} for object X"), "kind": "def_ids_neg"})
    return out


def numbers(r: random.Random) -> list[dict]:
    out = []
    for n in [20, 100, 1000, 4300, 4301, 5000, 20000]:
        d = "9" * n
        out.append({"text": f"def 0 {{ a({d}); }}", "kind": "huge_int_arg"})
        out.append({"text": f"def 0 {{ a(-{d}); }}", "kind": "huge_int_arg"})
    for n in [20, 5000]:
        out.append({"text": f"def 0 {{ a(0x{'f' * n}); }}", "kind": "huge_int_arg"})
        out.append({"text": f"def 0 {{ a({'1' * n}.5); }}", "kind": "huge_decimal"})
        out.append({"text": f"def 0 {{ a(0.{'1' * n}); }}", "kind": "huge_decimal"})
        out.append({"text": f"def 0 {{ $x[{'7' * n}] = 1; }}", "kind": "huge_index"})
        out.append({"text": f"def 0 {{ a(Position<'m', {'3' * n}, {'4' * n}.5>); }}", "kind": "huge_position"})
        out.append({"text": f"def 0 {{ if (scn($x) == [{'1' * n}, 2]) {{ a(); }} }}", "kind": "huge_scn"})
        out.append({"text": f"def 0 {{ switch (scn($x)[{'1' * n}]) {{ case 1: a(); }} }}", "kind": "huge_scn"})
    odd = ["1.", ".", "-.", "1.5.5", "1..5", "0.5e3", "-", "--5", "+5", "5-", "0x", "0b2", "0o9", "00x1", "1_000", "١٢٣", "１２", "1.50000", "-0.50", "00.5", ".50"]
    for o in odd:
        out.append({"text": f"def 0 {{ a({o}); }}", "kind": "odd_number"})
        out.append({"text": f"def 0 {{ a(Position<'m', {o}, 1>); }}", "kind": "odd_position_arg"})
    return out


ES_SAMPLE = "def 0 {\n    Wait(1);\n    if (debug) {\n        a();\n    }\n}\n"
SSBS_SAMPLE = "def 0 {\n    Wait(1);\n    @l0;\n    Branch(1, @l0);\n}\n"


def meta(r: random.Random, es_texts: list[str], ssbs_texts: list[str]) -> list[dict]:
    out = []
    attr_lines = ["//?: is-ssb-script: true", "//?: is-ssb-script: 1", "//?: is-ssb-script: false", "//?: is-ssb-script: TRUE", "//?: is-ssb-script:true",
                  "//?:is-ssb-script: true", "//?: is-ssb-script : true", "//?: is-ssb-script: true#", "//?: is-ssb-script", "//?: is-ssb-script:",
                  "//?:", "//?: :", "//?: a: b", "//?: a: b: c", "//?:    ", "  //?: is-ssb-script: true", "\t//?: x: y", "//?", "// ?: a: b", "//?: ünï: ü",
                  "//?: is-ssb-script: true //?: is-ssb-script: false", "//?: \x00: \x00"]
    # files of attribute lines only (no line follows the block)
    for l in attr_lines:
        for tail in ["", "\n", "\n\n", "\n" + l, "\n" + l + "\n"]:
            out.append({"text": l + tail, "kind": "meta_only"})
    out.append({"text": "\n".join(attr_lines), "kind": "meta_only"})
    out.append({"text": "\n".join(attr_lines) + "\n", "kind": "meta_only"})
    for body, bk in [(r.choice(es_texts or [ES_SAMPLE]), "es"), (ES_SAMPLE, "es"), (r.choice(ssbs_texts or [SSBS_SAMPLE]), "ssbs"), (SSBS_SAMPLE, "ssbs")]:
        lines = body.split("\n")
        for l in attr_lines:
            out.append({"text": l + "\n" + body, "kind": f"meta_first_{bk}"})
            j = r.randint(1, max(1, len(lines) - 1))
            out.append({"text": "\n".join(lines[:j] + [l] + lines[j:]), "kind": f"meta_middle_{bk}"})
            out.append({"text": body + l, "kind": f"meta_last_{bk}"})
        out.append({"text": "\n" + attr_lines[0] + "\n" + body, "kind": f"meta_after_blank_{bk}"})
        out.append({"text": attr_lines[12] + "\n" + attr_lines[0] + "\n" + body, "kind": f"meta_second_{bk}"})
        out.append({"text": attr_lines[0] + "\n" + attr_lines[2] + "\n" + body, "kind": f"meta_twice_{bk}"})
        out.append({"text": attr_lines[0] + "\r\n" + body.replace("\n", "\r\n"), "kind": f"meta_crlf_{bk}"})
        out.append({"text": attr_lines[0] + "\r" + body, "kind": f"meta_cr_{bk}"})
        out.append({"text": attr_lines[0] + " " + body, "kind": f"meta_linesep_{bk}"})
    return out


SSBS_BAD = [
    "def 0 for { a(); }", "def 0 for actor", "def -1 for actor 1 { a(); }", "def 0 { a({english}); }", "def 0 for actor 'x' { a(); }",
    "def 0 { a<actor 1>(); }", "def 0 { a<actor 1>(1, 2); }", "def 0 for monster 1 { a(); }", "def 0 for actor { a(); }", "def 0 for { a(); }",
    "def 0 for actor 1.5 { a(); }", "def 0 for actor X { a(); }", "def 0 for_actor(X) { a(); }", "def 0 for_actor X { a(); }", "def 0 for_monster(1) { a(); }",
    "def 0 { Jump(@a, 1); @a; b(); }", "def 0 { Jump(@a, @b); @a; @b; c(); }", "def 0 { Jump(@nowhere); }", "def 0 { a(@x); }", "def 0 { @x; }",
    "def 0 { @x; } def 1 { a(@x); }", "def 0 { a(@x); } def 1 { @x; }", "def 0 { a(@x); } def 1 { @x; b(); }", "def 1 { a(); } def 0 { b(); }", "def -1 { a(); }",
    "def 0 { a(); } def -1 { b(); }", "coro A { a(); } def 0 { b(); }", "def 3 { a(); }", "def 0 { alias previous; }", "def 0 { a(); } def 1 { alias previous; }",
    "def 0 { alias previous; a(); }", "def 0 { }", "def { a(); }", "def 0 a(); }", "def 0 { a() }", "def 0 { a(; }", "def 0 { a(1,,2); }", "def 0 { a(1 2); }",
    "def 0 { a(Position<'m', 1.25, 2>); }", "def 0 { a(Position<'m', 1>); }", "def 0 { a(Position<m, 1, 2>); }", "def 0 { a({english='x'}); }",
    "def 0 { a({english=}); }", "def 0 { a({=\"x\"}); }", "def 0 { a({}); }", "def 0 { a('''x); }", "def 0 { a(\"x); }", "def 0 { if (debug) { a(); } }",
    "def 0 { jump @x; }", "def 0 { ~m(); }", "macro m() { a(); }", "import \"x\";", "def 0 { a(1.); }", "def 0 { a(@); }", "def 0 { @; }", "def 0 { @@x; }",
    "def 0 { a(@1); }", "def 0 { a(@def); }", "coro { a(); }", "coro 0 { a(); }", "def 99999 { a(); }", "def 0 for actor 1 2 { a(); }", "def 0 for actor (1 { a(); }",
    "def 0 for actor 1) { a(); }", "def 0 for (1) { a(); }", "def 0 for_actor { a(); }", "def for actor 1 { a(); }", "def 0 0 { a(); }", "def 0 for 1 { a(); }",
    "def 0 { a($v, K, 1, -1, 1.5, 'x', \"y\", {english=\"e\"}, Position<'m', 1, 2.5>, @l); @l; b(); }",
]


def ssbscript(r: random.Random, n_random: int) -> tuple[list[dict], list[str]]:
    out = []
    valid_texts = []
    hdr = "//?: is-ssb-script: true\n"
    for t in SSBS_BAD:
        out.append({"text": hdr + t, "kind": "ssbs_fixed"})
        out.append({"text": t, "kind": "ssbs_text_without_attribute"})
    for _ in range(n_random):
        ast = ssbs_ast.gen_ast(r)
        try:
            t = ssbs_ast.print_ast(ast, r)
        except Exception:
            continue
        valid_texts.append(t)
        out.append({"text": hdr + t, "kind": "ssbs_generated"})
        for _ in range(3):
            c = r.random()
            if c < 0.5:
                toks = split_tokens(t)
                sig = [i for i, x in enumerate(toks) if not x.isspace()]
                if not sig:
                    continue
                op = r.choice(["delete", "dup", "swap", "replace", "insert"])
                i = r.choice(sig)
                if op == "delete":
                    del toks[i]
                elif op == "dup":
                    toks.insert(i, toks[i])
                elif op == "swap":
                    j = r.choice(sig)
                    toks[i], toks[j] = toks[j], toks[i]
                elif op == "replace":
                    toks[i] = r.choice(VOCAB)
                else:
                    toks.insert(i, r.choice(VOCAB) + " ")
                out.append({"text": hdr + "".join(toks), "kind": "ssbs_tok_" + op})
            else:
                t2, k = corrupt_chars(t, r)
                out.append({"text": hdr + t2, "kind": "ssbs_" + k})
    return out, valid_texts


def unicode_texts(r: random.Random, n: int) -> list[dict]:
    out = []
    pools = [
        [chr(c) for c in range(32, 127)],
        [chr(c) for c in range(0, 32)] + [chr(127)],
        [chr(c) for c in range(0xA0, 0x250)],
        [" ", " ", "﻿", "​", " ", "　", "\u0085", "\U0001F600", "\U00010000", "￿", "�", "日", "本", "π", "ß", "İ", "ǅ"],
        list("{}()[]<>;:,@~$\\/*'\"#=&|^!+-. \n\t") + KEYWORDS,
    ]
    for _ in range(n):
        pool = r.choice(pools) + (r.choice(pools) if r.random() < 0.5 else [])
        k = r.choice([1, 2, 3, 5, 10, 40, 200])
        out.append({"text": "".join(r.choice(pool) for _ in range(k)), "kind": "random_unicode"})
    idents = ["ünï", "π", "日本", "á", "x​", "İ", "_ä", "ª", "Ⅰ", "a-b", "a.b", "a::b", "1a", "$", "$1", "$$a", "~", "~1", "a$", "if", "def", "Position"]
    for i in idents:
        out.append({"text": f"def 0 {{ {i}(); }}", "kind": "odd_identifier_op"})
        out.append({"text": f"def 0 {{ a({i}); }}", "kind": "odd_identifier_arg"})
        out.append({"text": f"def 0 {{ @{i}; jump @{i}; }}", "kind": "odd_identifier_label"})
        out.append({"text": f"coro {i} {{ a(); }}", "kind": "odd_identifier_coro"})
        out.append({"text": f"macro {i}() {{ a(); }} def 0 {{ ~{i}(); }}", "kind": "odd_identifier_macro"})
        out.append({"text": f"def 0 {{ a({{{i}=\"x\"}}); }}", "kind": "odd_identifier_lang"})
    strs = ["'\\'", "'a\\'", "'\\\\'", "'\n'", "'a\rb'", "'a\x0cb'", "'''a'''", "''''a''''", "'''a''", "\"\"\"\"\"\"", "'\\x'", "'\\", "' '", "'\x00'", "'" + "x" * 20000 + "'"]
    for s in strs:
        out.append({"text": f"def 0 {{ a({s}); }}", "kind": "odd_string"})
        out.append({"text": f"import {s};", "kind": "odd_import_string"})
    return out


def nesting(r: random.Random) -> list[dict]:
    out = []

    def nest(open_: str, close: str, depth: int, inner: str = "a();") -> str:
        return "def 0 { " + open_ * depth + inner + close * depth + " }"
    for d in [5, 20, 50, 100, 150, 200]:
        out.append({"text": nest("if (debug) { ", " }", d), "kind": f"nest_if_{d}"})
        out.append({"text": nest("forever { ", " }", d, "break_loop;"), "kind": f"nest_forever_{d}"})
        out.append({"text": nest("while ($x == 1) { ", " }", d), "kind": f"nest_while_{d}"})
        out.append({"text": nest("switch ($x) { case 1: ", " }", d), "kind": f"nest_switch_{d}"})
        out.append({"text": nest("for ($i = 0; $i < 3; $i += 1;) { ", " }", d), "kind": f"nest_for_{d}"})
        out.append({"text": nest("if (debug) { a(); } else { ", " }", d), "kind": f"nest_else_{d}"})
        out.append({"text": "def 0 { if (debug) { a(); } " + "elseif (edit) { b(); } " * d + "}", "kind": f"chain_elseif_{d}"})
        out.append({"text": "def 0 { if (" + " || ".join(["debug"] * (d + 1)) + ") { a(); } }", "kind": f"chain_or_{d}"})
        out.append({"text": "def 0 { switch ($x) { " + " ".join(f"case {i}: a();" for i in range(d)) + " } }", "kind": f"chain_case_{d}"})
        out.append({"text": "def 0 { " + "a(); " * (d * 10) + "}", "kind": f"chain_stmt_{d * 10}"})
        out.append({"text": "def 0 { a(" + ", ".join(["1"] * (d * 5)) + "); }", "kind": f"chain_args_{d * 5}"})
        out.append({"text": " ".join(f"macro m{i}() {{ " + (f"~m{i + 1}();" if i + 1 < d else "a();") + " }" for i in range(d)) + " def 0 { ~m0(); }", "kind": f"macro_chain_{d}"})
        out.append({"text": "def 0 { " + "(" * d + "a" + ")" * d + "; }", "kind": f"nest_paren_{d}"})
        out.append({"text": "def 0 { a(" + "{" * d + "}" * d + "); }", "kind": f"nest_brace_{d}"})
    return out


def token_level(asts: list[dict], r: random.Random, n: int) -> list[dict]:
    out = []
    tok_lists = [invalid.tokens(a) for a in asts]
    for i in range(n):
        toks = tok_lists[i % len(tok_lists)]
        c = r.random()
        if c < 0.6:
            t2, kind = corrupt_token_list(toks, r)
            if r.random() < 0.25:
                t2, k2 = corrupt_token_list(t2, r)
                kind += "+" + k2.replace("tok_", "")
            out.append({"text": render(t2, r), "kind": kind})
        else:
            text = render(list(toks), r)
            t2, kind = corrupt_chars(text, r)
            if r.random() < 0.2:
                t2, k2 = corrupt_chars(t2, r)
                kind += "+" + k2
            out.append({"text": t2, "kind": kind})
    return out


def shrink_candidates(text: str, level: int) -> list[str]:
    """delta debugging candidates: level 0 = drop a line, 1 = drop a token, 2 = drop a character"""
    if level == 0:
        parts: list[str] = text.split("\n")
        join = "\n"
    elif level == 1:
        parts = split_tokens(text)
        join = ""
    else:
        parts = list(text)
        join = ""
    if len(parts) <= 1:
        return []
    out = []
    n = len(parts)
    chunk = max(1, n // 2)
    seen = set()
    while chunk >= 1:
        for i in range(0, n, chunk):
            cand = join.join(parts[:i] + parts[i + chunk:])
            if cand != text and cand not in seen:
                seen.add(cand)
                out.append(cand)
        if chunk == 1:
            break
        chunk //= 2
    return out
