"""Surface AST of ExplorerScript (Python dicts), its printer (token stream + layout engine recording source
positions) and its lowering to the core AST understood by the Lean semantics (lean/ESV/Src).

The lowering table (`lower_*`) is this project's reading of docs/language_spec.rst ("EoS Compiler" admonitions)
for opcode names; parameter orders are those the game's opcodes take (they are also what the decompiler reads
back).  It is written independently of the compiler's handlers.
"""
from __future__ import annotations

import random
from typing import Any

PERF_VAR = "$PERFORMANCE_PROGRESS_LIST"

OPERATORS = {"FALSE": 0, "TRUE": 1, "==": 2, ">": 3, "<": 4, ">=": 5, "<=": 6, "!=": 7, "&": 8, "^": 9, "&<<": 10}
CALC_OPERATORS = {"=": 0, "-=": 1, "+=": 2, "*=": 3, "/=": 4}
CTX_OPS = {"actor": "lives", "object": "object", "performer": "performer"}
SCN_BRANCH = {"==": "BranchScenarioNow", ">=": "BranchScenarioNowAfter", "<=": "BranchScenarioNowBefore",
              ">": "BranchScenarioAfter", "<": "BranchScenarioBefore"}


# ----------------------------------------------------------------------------------------------------------------------
# literal values (spec side)
# ----------------------------------------------------------------------------------------------------------------------
def fixed_value(spelling: str) -> str:
    """normal form of a DECIMAL literal: leading zeros of the whole part dropped, sign kept (also for -0), fraction verbatim"""
    neg = spelling.startswith("-")
    body = spelling[1:] if neg else spelling
    whole, _, frac = body.partition(".")
    whole = whole.lstrip("0") or "0"
    return ("-" if neg else "") + whole + "." + frac


def il_param(il: dict) -> Any:
    k = il["k"]
    if k == "int":
        return il["v"]
    if k == "dec":
        return {"fx": fixed_value(il["v"])}
    if k in ("id", "var"):
        return {"c": il["v"]}
    raise ValueError(k)


def pos_arg(sp: str) -> tuple[int, int]:
    """'12' -> (12, 0); '12.5' -> (12, 2); '.5' -> (0, 2); '3.0' -> (3, 0)"""
    if "." in sp:
        whole, frac = sp.split(".")
        rel = int(whole) if whole not in ("", "-") else 0
        f = frac.rstrip("0")
        return rel, (2 if f == "5" else 0)
    return int(sp, 0), 0


def arg_param(a: dict) -> Any:
    k = a["k"]
    if k in ("int", "dec", "id", "var"):
        return il_param(a)
    if k == "str":
        return {"s": a["v"]}
    if k == "lang":
        return {"ls": [[l, s] for l, s in a["v"]]}
    if k == "pos":
        xr, xo = pos_arg(a["x"])
        yr, yo = pos_arg(a["y"])
        return {"pm": [a["name"], xo, yo, xr, yr]}
    raise ValueError(k)


# ----------------------------------------------------------------------------------------------------------------------
# lowering to the core AST (JSON arrays, see lean/Driver/Beh.lean)
# ----------------------------------------------------------------------------------------------------------------------
def lower_header(h: dict) -> list:
    """if-header -> [opname, params] (the test event, without target)"""
    t = h["h"]
    if t == "op":
        left, right = il_param(h["left"]), il_param(h["right"])
        if h.get("value_of"):
            return ["BranchVariable", [left, OPERATORS[h["cmp"]], right]]
        if h["cmp"] == "==":
            return ["Branch", [left, right]]
        return ["BranchValue", [left, OPERATORS[h["cmp"]], right]]
    if t == "bit":
        var = il_param(h["var"])
        if isinstance(var, dict) and var.get("c") == PERF_VAR:
            return ["BranchPerformance", [h["index"], 0 if h.get("not") else 1]]
        return ["BranchBit", [var, h["index"]]]
    if t == "neg":
        return [{"debug": "BranchDebug", "edit": "BranchEdit", "variation": "BranchVariation"}[h["kw"]], [0 if h.get("not") else 1]]
    if t == "scn":
        return [SCN_BRANCH[h["cmp"]], [il_param(h["var"]), h["a"], h["b"]]]
    if t == "operation":
        return [h["name"], [arg_param(a) for a in h["args"]]]
    raise ValueError(t)


def lower_switch_header(s: dict) -> list:
    t = s["s"]
    if t == "var":
        return ["Switch", [il_param(s["v"])]]
    if t == "scn":
        return ["SwitchScenario" if s["index"] == 0 else "SwitchScenarioLevel", [il_param(s["v"])]]
    if t == "random":
        return ["SwitchRandom", [il_param(s["v"])]]
    if t == "dungeon_mode":
        return ["SwitchDungeonMode", [il_param(s["v"])]]
    if t == "sector":
        return ["SwitchSector", []]
    if t == "operation":
        return [s["name"], [arg_param(a) for a in s["args"]]]
    raise ValueError(t)


def lower_case_header(c: dict, switch_op: str) -> list:
    t = c["c"]
    if t == "value":
        return ["Case", [il_param(c["v"])]]
    if t == "op":
        if c.get("value_of"):
            return ["CaseVariable", [OPERATORS[c["cmp"]], il_param(c["v"])]]
        # the game pairs SwitchScenario with CaseScenario
        return ["CaseScenario" if switch_op == "SwitchScenario" else "CaseValue", [OPERATORS[c["cmp"]], il_param(c["v"])]]
    if t == "menu":
        return ["CaseMenu", [arg_param(c["v"])]]
    if t == "menu2":
        return ["CaseMenu2", [il_param(c["v"])]]
    raise ValueError(t)


def lower_assign(s: dict) -> list:
    f = s["form"]
    if f == "regular":
        tgt, val = il_param(s["target"]), il_param(s["value"])
        if s.get("index") is not None:
            if isinstance(tgt, dict) and tgt.get("c") == PERF_VAR:
                return ["op", "flag_SetPerformance", [s["index"], val]]
            return ["op", "flag_CalcBit", [tgt, s["index"], val]]
        if s.get("value_of"):
            return ["op", "flag_CalcVariable", [tgt, CALC_OPERATORS[s["op"]], val]]
        if s["op"] == "=":
            return ["op", "flag_Set", [tgt, val]]
        return ["op", "flag_CalcValue", [tgt, CALC_OPERATORS[s["op"]], val]]
    if f == "clear":
        return ["op", "flag_Clear", [il_param(s["target"])]]
    if f == "init":
        return ["op", "flag_Initial", [il_param(s["target"])]]
    if f == "reset":
        if s.get("target") is None:
            return ["op", "flag_ResetDungeonResult", []]
        return ["op", "flag_ResetScenario", [il_param(s["target"])]]
    if f == "adv_log":
        return ["op", "flag_SetAdventureLog", [il_param(s["value"])]]
    if f == "dungeon_mode":
        return ["op", "flag_SetDungeonMode", [il_param(s["target"]), il_param(s["value"])]]
    if f == "scn":
        return ["op", "flag_SetScenario", [il_param(s["target"]), s["a"], s["b"]]]
    raise ValueError(f)


def lower_stmt(s: dict) -> list[list]:
    """one surface statement -> list of core statements (message switches and inline contexts expand)"""
    t = s["t"]
    if t == "op":
        core = ["op", s["name"], [arg_param(a) for a in s["args"]]]
        if s.get("ctx"):
            return [["ctx", CTX_OPS[s["ctx"]["kind"]], [il_param(s["ctx"]["target"])], core]]
        return [core]
    if t in ("label", "jump", "call"):
        return [[t, s["name"]]]
    if t == "ctrl":
        return [[{"return": "ret", "end": "end", "hold": "hold", "break": "break", "continue": "continue", "break_loop": "break_loop"}[s["k"]]]]
    if t == "assign":
        return [lower_assign(s)]
    if t == "with":
        inner = lower_stmt(s["stmt"])
        assert len(inner) == 1
        return [["ctx", CTX_OPS[s["kind"]], [il_param(s["target"])], inner[0]]]
    if t == "if":
        brs = [[bool(b.get("not")), [lower_header(h) for h in b["headers"]], lower_block(b["body"])] for b in s["branches"]]
        return [["if", brs, None if s.get("else") is None else lower_block(s["else"])]]
    if t == "switch":
        hdr = lower_switch_header(s["header"])
        cases = [[bool(c.get("default")), None if c.get("default") else lower_case_header(c["header"], hdr[0]), lower_block(c["body"])] for c in s["cases"]]
        return [["switch", hdr, cases]]
    if t == "msgswitch":
        out = [["op", "message_SwitchTalk" if s["kind"] == "talk" else "message_SwitchMonologue", [il_param(s["v"])]]]
        for c in s["cases"]:
            if not c.get("default"):
                out.append(["op", "CaseText", [il_param(c["v"]), arg_param(c["string"])]])
        for c in s["cases"]:
            if c.get("default"):
                out.append(["op", "DefaultText", [arg_param(c["string"])]])
        return out
    if t == "forever":
        return [["forever", lower_block(s["body"])]]
    if t == "while":
        return [["while", bool(s.get("not")), lower_header(s["header"]), lower_block(s["body"])]]
    if t == "for":
        i, n = lower_stmt(s["init"]), lower_stmt(s["inc"])
        assert len(i) == 1 and len(n) == 1
        return [["for", i[0], lower_header(s["header"]), n[0], lower_block(s["body"])]]
    if t == "macrocall":
        return [["macro", s["name"], [arg_param(a) for a in s["args"]]]]
    raise ValueError(t)


def lower_block(stmts: list[dict]) -> list[list]:
    out: list[list] = []
    for s in stmts:
        out += lower_stmt(s)
    return out


def lower_program(p: dict, extra_macros: list[dict] | None = None) -> dict:
    macros = [{"name": m["name"], "vars": m["params"], "body": lower_block(m["body"])} for m in (extra_macros or []) + p.get("macros", [])]
    n = 0
    ids: list[int] = []
    cur = -1
    for r in p["routines"]:
        cur = cur + 1 if r["kind"] == "coro" else r["id"]
        ids.append(cur)
    size = max(ids) + 1 if ids else 0
    routines: list[Any] = [None] * size
    for r, i in zip(p["routines"], ids):
        routines[i] = None if r["body"] is None else lower_block(r["body"])
    return {"macros": macros, "routines": routines}


def routine_table(p: dict) -> dict:
    """expected routine infos / coroutine names, indexed by routine id (documented behaviour)"""
    cur = -1
    rows: dict[int, dict] = {}
    for r in p["routines"]:
        cur = cur + 1 if r["kind"] == "coro" else r["id"]
        if r["kind"] == "coro":
            rows[cur] = {"type": "COROUTINE", "linked_to": 0, "linked_to_name": None, "coro": r["name"]}
        elif r["kind"] == "def":
            rows[cur] = {"type": "GENERIC", "linked_to": 0, "linked_to_name": None, "coro": None}
        else:
            tgt = r["target"]
            typ = {"actor": "ACTOR", "object": "OBJECT", "performer": "PERFORMER"}[r["tkind"]]
            if tgt["k"] == "int":
                rows[cur] = {"type": typ, "linked_to": tgt["v"], "linked_to_name": None, "coro": None}
            else:
                rows[cur] = {"type": typ, "linked_to": -1, "linked_to_name": tgt["v"], "coro": None}
    return rows


# ----------------------------------------------------------------------------------------------------------------------
# printer: AST -> token stream -> text with positions
# ----------------------------------------------------------------------------------------------------------------------
class Tok:
    __slots__ = ("text", "marks", "nl_after", "indent_delta", "glue")

    def __init__(self, text: str, marks: list | None = None):
        self.text = text
        self.marks = marks or []   # list of (key, "start"|"end")
        self.nl_after = False      # canonical layout: newline after this token
        self.indent_delta = 0      # canonical layout: applied after this token
        self.glue = False          # no separator allowed before this token (never used for ES tokens)


def spell_int(v: int, style: dict | None = None) -> str:
    base = (style or {}).get("base", 10)
    if base == 10:
        return str(v)
    sign = "-" if v < 0 else ""
    a = abs(v)
    if base == 16:
        body = "0x" + format(a, "x")
        if (style or {}).get("upper"):
            body = "0X" + format(a, "X")
    elif base == 8:
        body = "0o" + format(a, "o")
    else:
        body = "0b" + format(a, "b")
    return sign + body


def spell_string(v: str, quote: str = '"') -> str:
    """single-line literal spelling (reader: \\" -> ", \\' -> ', \\n -> newline); backslashes are not escapable"""
    return quote + v.replace(quote, "\\" + quote).replace("\n", "\\n") + quote


OTHER_LINESEPS = "\r\x0b\x0c\x1c\x1d\x1e\x85\u2028\u2029"


class Respell:
    """Alternative spellings that denote the same value (property C16).  Every choice comes from `rnd`; `dims` selects
    which kinds of spelling are varied: int (base, digit case, zeros), dec (leading zeros of the whole part), str (quote
    style, triple-quoted forms), label (@ / §), header (for_actor(X) / for actor X, optional parentheses), comma (trailing
    commas), pos (quote and number spellings inside Position<...>)."""
    ALL = ("int", "dec", "str", "label", "header", "comma", "pos")

    def __init__(self, rnd: random.Random, dims: Any = None):
        self.r = rnd
        self.dims = set(self.ALL if dims is None else dims)

    def on(self, d: str) -> bool:
        return d in self.dims

    def int(self, v: int) -> str:
        c = self.r.random()
        if v == 0 and c < 0.3:
            return self.r.choice(["0", "00", "000", "-0", "-00"])
        if c < 0.35:
            return str(v)
        k = self.r.choice("xXoObB")
        digits = format(abs(v), k.lower())
        if k in "xX":
            digits = "".join(ch.upper() if self.r.random() < 0.5 else ch for ch in digits)
        return ("-" if v < 0 else "") + "0" + k + "0" * self.r.choice([0, 0, 0, 1, 3]) + digits

    def dec(self, sp: str) -> str:
        neg = sp.startswith("-")
        whole, frac = sp.lstrip("-").split(".")
        w = whole.lstrip("0")
        if w == "":
            w = self.r.choice(["", "0", "00", "0000"])
        else:
            w = "0" * self.r.choice([0, 0, 1, 2, 5]) + w
        return ("-" if neg else "") + w + "." + frac

    def string_forms(self, v: str, single_only: bool = False) -> list[str]:
        forms = [spell_string(v, "'"), spell_string(v, '"')]
        if "\\" not in v and ("'" in v or '"' in v):
            # redundant escapes: the quote character that does NOT delimit the literal may be escaped too
            both = v.replace("'", "\\'").replace('"', '\\"').replace("\n", "\\n")
            forms += ["'" + both + "'", '"' + both + '"']
        if single_only or "\\" in v or any(ch in v for ch in OTHER_LINESEPS):
            return forms
        lines = v.split("\n")
        for q in ("'", '"'):
            d = q * 3
            if d in v:
                continue
            if "\n" not in v and q not in v:
                forms.append(d + v + d)
            # the repository's own triple-quoted layout at indentation k; reads back as v when some line of v does not
            # start with a blank (C04 GuardM, indent > 0)
            if any(not l.startswith(" ") for l in lines):
                pre = " " * (4 * self.r.choice([1, 2]))
                forms.append(d + "\n" + "\n".join(pre + "    " + l for l in lines) + "\n" + pre + d)
        return forms

    def string(self, v: str, single_only: bool = False) -> str:
        return self.r.choice(self.string_forms(v, single_only))

    def pos_arg(self, sp: str) -> str:
        rel, off = pos_arg(sp)
        neg = sp.startswith("-")
        if off == 2:
            a = abs(rel)
            whole = self.r.choice(["", "0", "00"]) if a == 0 else "0" * self.r.choice([0, 0, 1, 2]) + str(a)
            # '-.5' is rejected by the compiler (int('-')), keep a digit after a minus sign
            if neg and whole == "":
                whole = "0"
            return ("-" if neg else "") + whole + ".5" + "0" * self.r.choice([0, 0, 1, 3])
        c = self.r.random()
        if c < 0.5:
            return self.int(rel)
        a = abs(rel)
        whole = self.r.choice(["", "0"]) if a == 0 and not neg else "0" * self.r.choice([0, 0, 2]) + str(a)
        return ("-" if rel < 0 else "") + whole + "." + "0" * self.r.choice([1, 1, 2, 4])


class Printer:
    """Builds the token list. `opts` may carry per-literal spelling choices keyed by id(node).  With `respell` every literal
    / header / label / argument list is printed in a randomly chosen equivalent spelling instead of the hinted one."""

    def __init__(self, opts: dict | None = None, respell: Respell | None = None):
        self.toks: list[Tok] = []
        self.opts = opts or {}
        self.respell = respell

    def rs(self, dim: str) -> Respell | None:
        return self.respell if self.respell is not None and self.respell.on(dim) else None

    def num(self, v: int, style: dict | None = None, sp: str | None = None) -> str:
        r = self.rs("int")
        return r.int(v) if r else (sp or spell_int(v, style))

    def comma(self, hinted: bool) -> bool:
        r = self.rs("comma")
        return (r.r.random() < 0.5) if r else hinted

    # -- token helpers
    def t(self, text: str, marks: list | None = None) -> Tok:
        tok = Tok(text, marks)
        self.toks.append(tok)
        return tok

    def nl(self, delta: int = 0) -> None:
        if self.toks:
            self.toks[-1].nl_after = True
            self.toks[-1].indent_delta += delta

    def mark_next(self, key: Any) -> int:
        """remember index so that the next emitted token gets a start mark for `key`"""
        return len(self.toks)

    def add_mark(self, idx: int, key: Any, kind: str = "start") -> None:
        self.toks[idx].marks.append((key, kind))

    # -- atoms
    def il(self, il: dict) -> None:
        k = il["k"]
        if k == "int":
            self.t(self.num(il["v"], il.get("style"), il.get("sp")))
        elif k == "dec":
            r = self.rs("dec")
            self.t(r.dec(il["v"]) if r else il["v"])
        else:
            self.t(il["v"])

    def string_value(self, s: str, spec: dict | None = None) -> None:
        spec = spec or {}
        r = self.rs("str")
        if r:
            self.t(r.string(s))
        elif spec.get("sp"):
            self.t(spec["sp"])
        else:
            self.t(spell_string(s, spec.get("quote", '"')))

    def arg(self, a: dict) -> None:
        k = a["k"]
        if k in ("int", "dec", "id", "var"):
            self.il(a)
        elif k == "str":
            self.string_value(a["v"], a)
        elif k == "lang":
            self.t("{")
            for i, (lang, s) in enumerate(a["v"]):
                self.t(lang)
                self.t("=")
                self.string_value(s, (a.get("specs") or {}).get(lang))
                if i < len(a["v"]) - 1 or self.comma(bool(a.get("trailing_comma"))):
                    self.t(",")
            self.t("}")
        elif k == "pos":
            i0 = len(self.toks)
            self.t("Position")
            self.add_mark(i0, ("pos", id(a)), "start")
            self.t("<")
            r = self.rs("pos")
            self.t(r.string(a["name"], single_only=True) if r else spell_string(a["name"], a.get("quote", "'")))
            self.t(",")
            self.t(r.pos_arg(a["x"]) if r else a["x"])
            self.t(",")
            self.t(r.pos_arg(a["y"]) if r else a["y"])
            self.t(">")
            self.add_mark(len(self.toks) - 1, ("pos", id(a)), "end")
        else:
            raise ValueError(k)

    def arglist(self, args: list[dict], trailing_comma: bool = False) -> None:
        self.t("(")
        trailing_comma = self.comma(trailing_comma)
        for i, a in enumerate(args):
            self.arg(a)
            if i < len(args) - 1 or (trailing_comma and args):
                self.t(",")
        self.t(")")

    # -- headers
    def header(self, h: dict) -> None:
        i0 = len(self.toks)
        t = h["h"]
        if t == "op":
            self.il(h["left"])
            self.t(h["cmp"])
            if h.get("value_of"):
                self.t("value"); self.t("("); self.il(h["right"]); self.t(")")
            else:
                self.il(h["right"])
        elif t == "bit":
            if h.get("not"):
                self.t("not")
            self.il(h["var"]); self.t("["); self.t(self.num(h["index"])); self.t("]")
        elif t == "neg":
            if h.get("not"):
                self.t("not")
            self.t(h["kw"])
        elif t == "scn":
            self.t("scn"); self.t("("); self.il(h["var"]); self.t(")"); self.t(h["cmp"])
            self.t("["); self.t(self.num(h["a"])); self.t(","); self.t(self.num(h["b"])); self.t("]")
        elif t == "operation":
            self.t(h["name"]); self.arglist(h["args"])
        self.add_mark(i0, ("hdr", id(h)))

    def simple(self, s: dict, semi: bool = True) -> None:
        i0 = len(self.toks)
        t = s["t"]
        if t == "op":
            self.t(s["name"])
            if s.get("ctx"):
                self.t("<"); self.t(s["ctx"]["kind"]); self.il(s["ctx"]["target"]); self.t(">")
            self.arglist(s["args"], s.get("trailing_comma", False))
        elif t == "label":
            r = self.rs("label")
            self.t("§" if (r.r.random() < 0.5 if r else s.get("paragraph")) else "@")
            self.toks[-1].text += ""  # label marker and name are separate tokens in the grammar
            self.t(s["name"])
        elif t == "jump":
            self.t("jump"); self.t("@"); self.t(s["name"])
        elif t == "call":
            self.t("call"); self.t("@"); self.t(s["name"])
        elif t == "ctrl":
            self.t(s["k"])
        elif t == "assign":
            f = s["form"]
            if f == "regular":
                self.il(s["target"])
                if s.get("index") is not None:
                    self.t("["); self.t(self.num(s["index"])); self.t("]")
                self.t(s["op"])
                if s.get("value_of"):
                    self.t("value"); self.t("("); self.il(s["value"]); self.t(")")
                else:
                    self.il(s["value"])
            elif f == "clear":
                self.t("clear"); self.il(s["target"])
            elif f == "init":
                self.t("init"); self.il(s["target"])
            elif f == "reset":
                self.t("reset")
                if s.get("target") is None:
                    self.t("dungeon_result")
                else:
                    self.t("scn"); self.t("("); self.il(s["target"]); self.t(")")
            elif f == "adv_log":
                self.t("adventure_log"); self.t("="); self.il(s["value"])
            elif f == "dungeon_mode":
                self.t("dungeon_mode"); self.t("("); self.il(s["target"]); self.t(")"); self.t("="); self.il(s["value"])
            elif f == "scn":
                self.il(s["target"]); self.t("="); self.t("scn"); self.t("["); self.t(self.num(s["a"])); self.t(","); self.t(self.num(s["b"])); self.t("]")
        else:
            raise ValueError(t)
        self.add_mark(i0, ("stmt", id(s)))
        if semi:
            self.t(";")

    def block(self, stmts: list[dict]) -> None:
        self.t("{"); self.nl(+1)
        for s in stmts:
            self.stmt(s)
        if self.toks:
            self.toks[-1].indent_delta -= 1
        self.t("}")

    def stmt(self, s: dict) -> None:
        t = s["t"]
        i0 = len(self.toks)
        if t in ("op", "label", "jump", "call", "ctrl", "assign"):
            self.simple(s); self.nl()
            return
        if t == "with":
            self.t("with"); self.t("("); self.t(s["kind"]); self.il(s["target"]); self.t(")")
            self.t("{"); self.nl(+1)
            self.simple(s["stmt"]); self.nl(-1)
            self.t("}"); self.nl()
        elif t == "if":
            for bi, b in enumerate(s["branches"]):
                ib = len(self.toks)
                self.t("if" if bi == 0 else "elseif")
                if b.get("not"):
                    self.t("not")
                self.t("(")
                for hi, h in enumerate(b["headers"]):
                    if hi:
                        self.t("||")
                    self.header(h)
                self.t(")")
                self.add_mark(ib, ("branch", id(b)))
                self.block(b["body"])
            if s.get("else") is not None:
                self.t("else")
                self.block(s["else"])
            self.nl()
        elif t == "switch":
            self.t("switch"); self.t("(")
            ih = len(self.toks)
            sh = s["header"]
            k = sh["s"]
            if k == "var":
                self.il(sh["v"])
            elif k == "scn":
                self.t("scn"); self.t("("); self.il(sh["v"]); self.t(")"); self.t("["); self.t(self.num(sh["index"])); self.t("]")
            elif k == "random":
                self.t("random"); self.t("("); self.il(sh["v"]); self.t(")")
            elif k == "dungeon_mode":
                self.t("dungeon_mode"); self.t("("); self.il(sh["v"]); self.t(")")
            elif k == "sector":
                self.t("sector"); self.t("("); self.t(")")
            elif k == "operation":
                self.t(sh["name"]); self.arglist(sh["args"])
            self.add_mark(ih, ("swhdr", id(sh)))
            self.t(")"); self.t("{"); self.nl(+1)
            for c in s["cases"]:
                ic = len(self.toks)
                if c.get("default"):
                    self.t("default")
                else:
                    self.t("case")
                    ich = len(self.toks)
                    ch = c["header"]
                    if ch["c"] == "value":
                        self.il(ch["v"])
                    elif ch["c"] == "op":
                        self.t(ch["cmp"])
                        if ch.get("value_of"):
                            self.t("value"); self.t("("); self.il(ch["v"]); self.t(")")
                        else:
                            self.il(ch["v"])
                    elif ch["c"] == "menu":
                        self.t("menu"); self.t("("); self.arg(ch["v"]); self.t(")")
                    elif ch["c"] == "menu2":
                        self.t("menu2"); self.t("("); self.il(ch["v"]); self.t(")")
                    self.add_mark(ich, ("casehdr", id(ch)))
                self.add_mark(ic, ("case", id(c)))
                self.t(":"); self.nl(+1)
                for b in c["body"]:
                    self.stmt(b)
                self.toks[-1].indent_delta -= 1
            self.toks[-1].indent_delta -= 1
            self.t("}"); self.nl()
        elif t == "msgswitch":
            self.t("message_SwitchTalk" if s["kind"] == "talk" else "message_SwitchMonologue")
            self.t("("); self.il(s["v"]); self.t(")"); self.t("{"); self.nl(+1)
            for c in s["cases"]:
                ic = len(self.toks)
                if c.get("default"):
                    self.t("default")
                else:
                    self.t("case"); self.il(c["v"])
                self.add_mark(ic, ("case", id(c)))
                self.t(":"); self.nl(+1)
                self.arg(c["string"]); self.nl(-1)
            self.toks[-1].indent_delta -= 1
            self.t("}"); self.nl()
        elif t == "forever":
            self.t("forever"); self.block(s["body"]); self.nl()
        elif t == "while":
            self.t("while")
            if s.get("not"):
                self.t("not")
            self.t("("); self.header(s["header"]); self.t(")"); self.block(s["body"]); self.nl()
        elif t == "for":
            self.t("for"); self.t("(")
            self.simple(s["init"]); self.header(s["header"]); self.t(";"); self.simple(s["inc"])
            self.t(")"); self.block(s["body"]); self.nl()
        elif t == "macrocall":
            self.t("~" + s["name"]); self.arglist(s["args"], s.get("trailing_comma", False)); self.t(";"); self.nl()
        else:
            raise ValueError(t)
        self.add_mark(i0, ("stmt", id(s)))

    def routine(self, r: dict) -> None:
        i0 = len(self.toks)
        if r["kind"] == "coro":
            self.t("coro"); self.t(r["name"])
        else:
            self.t("def"); self.t(self.num(r["id"], None, r.get("id_sp")))
            if r["kind"] == "for":
                rh = self.rs("header")
                legacy = (rh.r.random() < 0.5) if rh else bool(r.get("legacy"))
                # the grammar has  OPEN_PAREN? integer_like CLOSE_PAREN?  after either spelling of the target
                parens = (rh.r.random() < 0.5) if rh else legacy
                if legacy:
                    self.t("for_" + r["tkind"])
                else:
                    self.t("for"); self.t(r["tkind"])
                if parens:
                    self.t("(")
                self.il(r["target"])
                if parens:
                    self.t(")")
        self.add_mark(i0, ("routine", id(r)))
        if r["body"] is None:
            self.t("{"); self.nl(+1); self.t("alias"); self.t("previous"); self.t(";"); self.nl(-1); self.t("}"); self.nl()
        else:
            self.block(r["body"]); self.nl()

    def macro(self, m: dict) -> None:
        self.t("macro"); self.t(m["name"]); self.t("(")
        for i, v in enumerate(m["params"]):
            if i:
                self.t(",")
            self.t(v)
        self.t(")")
        self.block(m["body"]); self.nl()

    def program(self, p: dict) -> None:
        for imp in p.get("imports", []):
            r = self.rs("str")
            self.t("import"); self.t(r.string(imp, single_only=True) if r else spell_string(imp)); self.t(";"); self.nl()
        order = p.get("order")
        items: list[tuple[str, dict]] = [("m", m) for m in p.get("macros", [])] + [("r", r) for r in p["routines"]]
        if order:
            items = [items[i] for i in order]
        for kind, it in items:
            if kind == "m":
                self.macro(it)
            else:
                self.routine(it)


IDENT_CH = set("abcdefghijklmnopqrstuvwxyzABCDEFGHIJKLMNOPQRSTUVWXYZ0123456789_$~.")


def needs_sep(a: str, b: str) -> bool:
    """must two adjacent token texts be separated so that the lexer does not merge them?"""
    if not a or not b:
        return False
    x, y = a[-1], b[0]
    if x in IDENT_CH and y in IDENT_CH:
        return True
    if x == "-" and (y.isdigit() or y == "."):
        return True
    pair = x + y
    if pair in ("==", "<=", ">=", "!=", "-=", "+=", "*=", "/=", "||", "//", "/*", "&<", "<<"):
        return True
    if a in ("&", "&<") and b.startswith("<"):
        return True
    if x in "<>=!&^+-*/|" and y in "<>=!&^+-*/|":
        return True
    if x.isdigit() and y == ".":
        return True
    if x in "'\"" and y == x:
        return True   # '' followed by a quote would open a triple-quoted string (never adjacent in the grammar)
    return False


RICH_UNITS = [" ", "  ", "\t", "\n", "\r\n", "\n\n   ", " \r", "/**/", "/***/", "/*/ */", "/* a\n * b\n */", "/* ' \" ''' \"\"\" */", "/* // */",
              "/* é😀 */", "/* e\u0301 か\u3099 \u1100\u1161 */", "/* \ufb01 \u2126 \u212b \u00bd \uac00 */", "// cafe\u0301 \ufb01\n", "// x\n", "//\n", "// ' \" /* \r\n", "// é😀 */\n", "\\\n", "\\ \t\n", "\\\r\n", "\\\r", "\\ \n\n  ", "\\\x0c"]
RICH_TAILS = ["", "", "\n", "  ", "// eof without newline", "/* unterminated", "/*", "\t/* é\n *", "\\\n"]


def layout(toks: list[Tok], rnd: random.Random | None = None, style: str = "canonical", rich: bool = False) -> tuple[str, dict]:
    """place tokens; returns (text, positions) with positions[key] = {"start": (line, col), "end": (line, col)} (0-based).
    `rich` (random style only): half of the separators are sequences of 1-3 units from a larger pool (multi-line block comments,
    comments with quotes / comment openers / non-ASCII text, every line-joining form, \\r as a blank), there may be a separator
    before the first token, and the text may end in a comment that runs to the end of the input."""
    out: list[str] = []
    line, col = 0, 0
    pos: dict = {}
    indent = 0

    def emit(s: str) -> None:
        nonlocal line, col
        out.append(s)
        n = s.count("\n")
        if n:
            line += n
            col = len(s) - s.rfind("\n") - 1
        else:
            col += len(s)

    def random_sep(required: bool) -> str:
        assert rnd is not None
        if rich and rnd.random() < 0.5:
            if not required and rnd.random() < 0.3:
                return ""
            return "".join(rnd.choice(RICH_UNITS) for _ in range(rnd.choice([1, 1, 2, 3])))
        c = rnd.random()
        if c < 0.45:
            return " " if required or rnd.random() < 0.6 else ""
        if c < 0.6:
            return "\n" + " " * rnd.randint(0, 6)
        if c < 0.7:
            return " /* " + rnd.choice(["c" + str(rnd.randint(0, 9)), "TODO: x", "FIXME: a, b", "NOTE x", "key = [1, 2]", "[b]bold[/b]", "Position<'m', 1, 2>"]) + " */ "
        if c < 0.78:
            return " // " + rnd.choice(["note ", "note x", "note '", "note \"", "note /*", "TODO: fix", "XXX: [hero, 3]", "a = b;"]) + "\n" + " " * rnd.randint(0, 4)
        if c < 0.84:
            return "\t"
        if c < 0.9:
            return "/**/"
        if c < 0.95:
            return " \\\n "
        return "  \n\n  "

    prev = ""
    rich_random = rich and style == "random" and rnd is not None
    if rich_random and rnd.random() < 0.5:
        emit("".join(rnd.choice(RICH_UNITS) for _ in range(rnd.choice([1, 2]))))
    for i, tk in enumerate(toks):
        if i > 0:
            req = needs_sep(prev, tk.text)
            if style == "canonical":
                p = toks[i - 1]
                if p.nl_after:
                    indent = max(0, indent + p.indent_delta)
                    # a closing brace dedents itself
                    emit("\n" + "    " * indent)
                else:
                    indent = max(0, indent + p.indent_delta)
                    if req or (prev not in ("(", "[", "<", "@", "§") and tk.text not in (")", "]", ",", ";", "(", "[", ">", ":") and prev != "~"):
                        emit(" ")
            elif style == "dense":
                emit(" " if req else "")
            else:
                s = random_sep(req)
                if req and s == "":
                    s = " "
                emit(s)
        for key, kind in tk.marks:
            if kind == "start":
                pos.setdefault(key, {})["start"] = (line, col)
        start_line, start_col = line, col
        emit(tk.text)
        for key, kind in tk.marks:
            if kind == "end":
                # position of the LAST token's start (the closing '>' of a Position literal)
                pos.setdefault(key, {})["end"] = (start_line, start_col)
        prev = tk.text
    emit(rnd.choice(RICH_TAILS) if rich_random else "\n")
    return "".join(out), pos


def print_program(p: dict, rnd: random.Random | None = None, style: str = "canonical") -> tuple[str, dict]:
    pr = Printer()
    pr.program(p)
    return layout(pr.toks, rnd, style)
