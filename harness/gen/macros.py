"""Generator of ExplorerScript programs with macros (surface AST, harness/gen/surface.py format) and of statically
invalid variants of generated programs.

Macro sets are acyclic and live in the program's own file: macro i may call macros of smaller index (chains, diamonds,
shared callees, depth > 2); the definition order written to the file is a random permutation.  Bodies contain every
statement form of gen/programs.py plus macro calls, uses of the macro's variables as arguments / header operands,
labels with jumps and calls (names may coincide between macros and with routine labels: the compiler keeps one label
table for all macros of a file and fresh labels per expansion), `return` (leaves the expansion), `end`, `hold`.
Calls appear in routines (any nesting depth) and in other macros, with all argument kinds, with the caller's own
variables passed on, and with surplus arguments (ignored by the compiler).

Position<…> literals are kept out of macro bodies and of calls made from macro bodies: a macro with a position mark
that is expanded inside another macro makes the real compiler loop forever (finding A16 of DESIGN.md, C05/C08/C10).
"""
from __future__ import annotations

import copy
import random
from typing import Any, Callable

from .programs import Cfg, ProgGen, CONSTS


class MGen(ProgGen):
    """ProgGen whose plain statements may be macro calls and whose operands may be macro variables"""

    def __init__(self, rnd: random.Random, cfg: Cfg, callable_macros: list[dict], own_vars: list[str], p_call: float):
        super().__init__(rnd, cfg)
        self.callable = callable_macros
        self.vars = own_vars
        self.p_call = p_call
        self.in_macro = bool(own_vars) or False

    def il(self, kinds: str = "icv") -> dict:
        if self.vars and ("v" in kinds or "c" in kinds) and self.r.random() < 0.35:
            return {"k": "var", "v": self.r.choice(self.vars)}
        return super().il(kinds)

    def call_arg(self) -> dict:
        if self.vars and self.r.random() < 0.4:
            return {"k": "var", "v": self.r.choice(self.vars)}
        a = self.arg()
        return a

    def macro_call(self) -> dict:
        m = self.r.choice(self.callable)
        n = len(m["params"])
        c = self.r.random()
        if c < 0.1:
            n += self.r.randint(1, 2)          # surplus arguments are ignored
        self.hit("macrocall")
        return {"t": "macrocall", "name": m["name"], "args": [self.call_arg() for _ in range(n)]}

    def plain(self) -> dict:
        if self.callable and self.r.random() < self.p_call:
            return self.macro_call()
        return super().plain()


def _fix_labels(g: ProgGen, body: list[dict]) -> None:
    defined, used = ProgGen.scan_labels([{"body": body}])
    for nm in sorted(used - defined):
        tgt = g.pick_block(body)
        tgt.insert(g.r.randint(0, len(tgt)), {"t": "label", "name": nm})


MACRO_EXPANSION_LIMIT = 250      # statements one expansion may contribute (nested expansions included)
PROGRAM_EXPANSION_LIMIT = 1500   # statements all expansions of a program may contribute


def _own_size(body: list[dict]) -> int:
    return sum(len(b) for b in _blocks_of(body))


def _calls_in(body: list[dict]) -> list[tuple[list, int]]:
    return [(blk, i) for blk in _blocks_of(body) for i, s in enumerate(blk) if s["t"] == "macrocall"]


def _expanded_size(body: list[dict], sizes: dict[str, int]) -> int:
    return _own_size(body) + sum(sizes.get(blk[i]["name"], 0) for blk, i in _calls_in(body))


def _limit_calls(rnd: random.Random, body: list[dict], sizes: dict[str, int], limit: int) -> None:
    """nested expansions grow exponentially with the depth of the call DAG: drop calls until the bound holds (the real
    compiler copes with huge expansions; the list-based Lean model is quadratic in the number of labels)"""
    while _expanded_size(body, sizes) > limit:
        calls = _calls_in(body)
        if not calls:
            return
        blk, i = rnd.choice(calls)
        blk[i] = {"t": "op", "name": "x", "args": []}


def gen_macro(rnd: random.Random, idx: int, earlier: list[dict], cfg: Cfg) -> dict:
    nvars = rnd.choice([0, 1, 1, 2, 3])
    params = [f"$p{idx}_{k}" if rnd.random() < 0.7 else f"$a{k}" for k in range(nvars)]
    if len(set(params)) != len(params):
        params = [f"$p{idx}_{k}" for k in range(nvars)]
    mc = copy.copy(cfg)
    mc.pos_marks = False
    mc.p_halt = 0.15
    g = MGen(rnd, mc, earlier, params, p_call=0.3 if earlier else 0.0)
    n = rnd.choice([1, 1, 2, 3, 4, mc.max_stmts])
    body = [g.stmt(0, False, False) for _ in range(n)]
    if rnd.random() < 0.25:
        body.append({"t": "ctrl", "k": "return"})
    elif rnd.random() < 0.15:
        nm = g.new_label()
        body.append({"t": "label", "name": nm})
    _fix_labels(g, body)
    sizes = {m["name"]: m["_esize"] for m in earlier}
    _limit_calls(rnd, body, sizes, MACRO_EXPANSION_LIMIT)
    return {"name": f"m{idx}", "params": params, "body": body, "_stats": g.stats, "_esize": _expanded_size(body, sizes)}


def _blocks_of(body: list[dict]) -> list[list[dict]]:
    out = [body]
    for s in body:
        t = s["t"]
        if t == "if":
            for b in s["branches"]:
                out += _blocks_of(b["body"])
            if s.get("else") is not None:
                out += _blocks_of(s["else"])
        elif t == "switch":
            for c in s["cases"]:
                if c["body"]:
                    out += _blocks_of(c["body"])
        elif t in ("forever", "while", "for"):
            out += _blocks_of(s["body"])
    return out


def program_with_macros(rnd: random.Random, cfg: Cfg) -> tuple[dict, dict]:
    """-> (surface AST, generator statistics)"""
    nm = rnd.choice([1, 1, 2, 3, 4, 5])
    macros: list[dict] = []
    stats: dict[str, int] = {}
    for i in range(nm):
        m = gen_macro(random.Random(rnd.getrandbits(48)), i, list(macros), cfg)
        for k, v in m.pop("_stats").items():
            stats[k] = stats.get(k, 0) + v
        macros.append(m)
    g = MGen(random.Random(rnd.getrandbits(48)), cfg, macros, [], p_call=0.35)
    p = g.program()
    for k, v in g.stats.items():
        stats[k] = stats.get(k, 0) + v
    # make sure at least one call exists in a routine
    bodies = [r["body"] for r in p["routines"] if r["body"] is not None]
    if bodies and not any(s["t"] == "macrocall" for b in bodies for blk in _blocks_of(b) for s in blk):
        blk = rnd.choice(_blocks_of(rnd.choice(bodies)))
        blk.insert(rnd.randint(0, len(blk)), g.macro_call())
    sizes = {m["name"]: m.pop("_esize") for m in macros}
    while sum(_expanded_size(b, sizes) for b in bodies) > PROGRAM_EXPANSION_LIMIT:
        calls = [c for b in bodies for c in _calls_in(b)]
        if not calls:
            break
        blk, i = rnd.choice(calls)
        blk[i] = {"t": "op", "name": "x", "args": []}
    order = list(range(nm))
    rnd.shuffle(order)
    p["macros"] = [macros[i] for i in order]
    stats["macros"] = nm
    return p, stats


# ----------------------------------------------------------------------------------------------------------------------
# statically invalid variants (the compiler must reject them; the model must reject them with the same exception class)
# ----------------------------------------------------------------------------------------------------------------------
def _routine_blocks(p: dict) -> list[list[dict]]:
    out: list[list[dict]] = []
    for r in p["routines"]:
        if r["body"] is not None:
            out += _blocks_of(r["body"])
    return out


def _top_blocks(p: dict) -> list[list[dict]]:
    return [r["body"] for r in p["routines"] if r["body"] is not None]


def _find(p: dict, t: str) -> list[dict]:
    out = []
    for blk in _routine_blocks(p) + [b for m in p.get("macros", []) for b in _blocks_of(m["body"])]:
        out += [s for s in blk if s["t"] == t]
    return out


def mut_ctrl_outside(p: dict, rnd: random.Random) -> bool:
    tops = _top_blocks(p)
    if not tops:
        return False
    b = rnd.choice(tops)
    b.insert(rnd.randint(0, len(b)), {"t": "ctrl", "k": rnd.choice(["break", "continue", "break_loop"])})
    return True


def mut_unknown_macro(p: dict, rnd: random.Random) -> bool:
    blks = _routine_blocks(p)
    if not blks:
        return False
    b = rnd.choice(blks)
    b.insert(rnd.randint(0, len(b)), {"t": "macrocall", "name": "nosuch", "args": []})
    return True


def mut_empty_last_case(p: dict, rnd: random.Random) -> bool:
    sw = [s for s in _find(p, "switch") if s["cases"]]
    if not sw:
        return False
    rnd.choice(sw)["cases"][-1]["body"] = []
    return True


def mut_undefined_label(p: dict, rnd: random.Random) -> bool:
    blks = _routine_blocks(p)
    if not blks:
        return False
    b = rnd.choice(blks)
    b.insert(rnd.randint(0, len(b)), {"t": rnd.choice(["jump", "call"]), "name": "undefined_label"})
    return True


def mut_few_args(p: dict, rnd: random.Random) -> bool:
    arity = {m["name"]: len(m["params"]) for m in p.get("macros", [])}
    calls = [c for c in _find(p, "macrocall") if arity.get(c["name"], 0) > 0 and len(c["args"]) >= arity[c["name"]]]
    if not calls:
        return False
    c = rnd.choice(calls)
    c["args"] = c["args"][:rnd.randint(0, arity[c["name"]] - 1)]
    return True


def mut_two_defaults(p: dict, rnd: random.Random) -> bool:
    sw = _find(p, "switch")
    if not sw:
        return False
    s = rnd.choice(sw)
    for _ in range(2 - sum(1 for c in s["cases"] if c.get("default"))):
        s["cases"].insert(rnd.randint(0, len(s["cases"])), {"default": True, "header": None, "body": [{"t": "op", "name": "x", "args": []}]})
    return True


def mut_label_in_with(p: dict, rnd: random.Random) -> bool:
    blks = _routine_blocks(p)
    if not blks:
        return False
    b = rnd.choice(blks)
    b.insert(rnd.randint(0, len(b)), {"t": "with", "kind": "actor", "target": {"k": "int", "v": 1}, "stmt": {"t": "label", "name": "in_with"}})
    return True


def mut_inline_in_with(p: dict, rnd: random.Random) -> bool:
    blks = _routine_blocks(p)
    if not blks:
        return False
    b = rnd.choice(blks)
    b.insert(rnd.randint(0, len(b)), {"t": "with", "kind": "object", "target": {"k": "int", "v": 1},
                                      "stmt": {"t": "op", "name": "x", "args": [], "ctx": {"kind": "actor", "target": {"k": "int", "v": 2}}}})
    return True


def mut_bad_header_op(p: dict, rnd: random.Random) -> bool:
    cands = _find(p, "if") + _find(p, "while") + _find(p, "for")
    if not cands:
        return False
    s = rnd.choice(cands)
    h = {"h": "operation", "name": rnd.choice(["NoBranch", "Jump", "Case", "Switch"]), "args": []}
    if s["t"] == "if":
        rnd.choice(s["branches"])["headers"][0] = h
    else:
        s["header"] = h
    return True


def mut_routine_order(p: dict, rnd: random.Random) -> bool:
    rs = [r for r in p["routines"] if r["kind"] != "coro"]
    if len(rs) < 2 or len(rs) != len(p["routines"]):
        return False
    i, j = rnd.sample(range(len(rs)), 2)
    rs[i]["id"], rs[j]["id"] = rs[j]["id"], rs[i]["id"]
    return True


def mut_routine_gap(p: dict, rnd: random.Random) -> bool:
    rs = p["routines"]
    if any(r["kind"] == "coro" for r in rs):
        return False
    rs[-1]["id"] += rnd.randint(1, 2)
    return True


def mut_routine_dup(p: dict, rnd: random.Random) -> bool:
    rs = p["routines"]
    if len(rs) < 2 or any(r["kind"] == "coro" for r in rs):
        return False
    rs[-1]["id"] = rs[-2]["id"]
    return True


def mut_label_only_macro_body(p: dict, rnd: random.Random) -> bool:
    """a routine whose only statement expands to labels only (strip_last_label runs the routine empty)"""
    ms = p.setdefault("macros", [])
    ms.append({"name": "lblonly", "params": [], "body": [{"t": "label", "name": "only"}]})
    rs = [r for r in p["routines"] if r["body"] is not None]
    if not rs:
        return False
    rnd.choice(rs)["body"] = [{"t": "macrocall", "name": "lblonly", "args": []}]
    return True


MUTATIONS: list[tuple[str, Callable[[dict, random.Random], bool]]] = [
    ("ctrl_outside", mut_ctrl_outside), ("unknown_macro", mut_unknown_macro), ("empty_last_case", mut_empty_last_case),
    ("undefined_label", mut_undefined_label), ("few_args", mut_few_args), ("two_defaults", mut_two_defaults),
    ("label_in_with", mut_label_in_with), ("inline_in_with", mut_inline_in_with), ("bad_header_op", mut_bad_header_op),
    ("routine_order", mut_routine_order), ("routine_gap", mut_routine_gap), ("routine_dup", mut_routine_dup),
    ("label_only_macro_body", mut_label_only_macro_body),
]


def invalid_variant(p: dict, rnd: random.Random) -> tuple[dict, str] | None:
    """one or two mutations applied to a copy of p; None when none applies"""
    q = copy.deepcopy(p)
    names = []
    for _ in range(rnd.choice([1, 1, 1, 2])):
        name, f = rnd.choice(MUTATIONS)
        try:
            if f(q, rnd):
                names.append(name)
        except Exception:
            pass
    if not names:
        return None
    return q, "+".join(names)
