"""Random SSB routine sets "as a binary reader delivers them" (JSON format: harness/ssbjson.py).

gen_set       well-formed sets: 1-5 routines of all kinds incl. empty (alias) routines, offsets strictly increasing
              with random gaps, every jump-carrying opcode of the current OPS_WITH_JUMP_TO_MEM_OFFSET table with its
              arity (jump parameter last), plain ops / ctx ops / Return / End / Hold, unreachable ops, jumps within
              and across routines (first op of a later routine, backwards, to itself), all parameter kinds with mild
              strings (the literal layer is C04's business).
illformed     one well-formedness clause broken (used for model-vs-implementation correspondence only)
exhaustive    all sets with <= max_ops ops in <= 2 routines over a small opcode alphabet
"""
from __future__ import annotations

import copy
import itertools
import random
from typing import Any, Iterator

KEYWORDS = {"coro", "def", "for_actor", "for_object", "for_performer", "alias", "for", "previous", "Position"}

PLAIN_OPS = ["Null", "Return", "End", "Hold", "Destroy", "JumpCommon", "CallCommon", "lives", "object", "performer",
             "Switch", "SwitchScenario", "message_SwitchTalk", "CaseText", "DefaultText", "message_Talk",
             "back_SetGround", "se_Play", "WaitExecuteLives", "camera_SetMyself", "flag_Set", "x", "_y9", "OP2",
             "aliasx", "defx", "Position_", "ProcessSpecial", "main_EnterAdventure"]
LANGS = ["english", "french", "german", "italian", "spanish"]
CONSTS = ["CONST_A", "TRUE", "FALSE", "$SCENARIO_MAIN", "$x", "ACTOR_PLAYER", "LEVEL_S01P01A", "a", "_u", "X9",
          "label_0", "DIR_DOWN"]
STRS = ["", "a", "Hello world", "Hi [hero]!", "x=1, y=2;", "@label_0", "// no comment", "tab\there", "ünï ö",
        "a { b } c", "1.5", "/* c */", "it's", 'say "x"', "line1\nline2", " lead", "trail ", "(p)", "§x", "#",
        # multi-line shapes inside C04's round-trip guard: empty inner lines (paragraph breaks), indented continuation lines
        "para1\n\npara2", "a\n  indented\nb", "x\n\n\ny", "first\n second\n\nthird",
        # a line of a literal that reads like a source-file attribute
        "x\n//?: is-ssb-script: true\ny"]
PM_NAMES = ["m", "Pos 1", "", "ünï", "a,b", "<x>"]
FIXED = ["1.5", "0.0", "-0.25", "12.50", "3.125", "-7.0", "100.001", "0.5"]
CORO_NAMES = ["CORO_A", "EVENT_M01", "walk_around", "X1", "_c", "END_TALK"]
TARGET_NAMES = ["ACTOR_PLAYER", "OBJ_X", "npc_1", "$VAR", "_t", "A"]
KINDS = ["GENERIC", "ACTOR", "OBJECT", "PERFORMER", "COROUTINE"]


def jump_table() -> dict[str, int]:
    """which op carries a jump target at which parameter index: the PINNED specification table (lean/ESV/Beh/Spec.lean via
    harness/spec_tables.py), never the table of the /repo under test — the oracle must not follow an edited table; that
    /repo's table equals the pinned one is the Lean tie ESV.TableTie"""
    from harness import spec_tables
    return dict(spec_tables.OPS_WITH_JUMP)


def repo_jump_table() -> dict[str, int]:
    from explorerscript.ssb_converting.ssb_special_ops import OPS_WITH_JUMP_TO_MEM_OFFSET
    return dict(OPS_WITH_JUMP_TO_MEM_OFFSET)


def gen_int(r: random.Random) -> int:
    c = r.random()
    if c < 0.6:
        return r.randint(0, 20)
    if c < 0.75:
        return r.randint(-9, -1)
    if c < 0.9:
        return r.randint(21, 70000)
    return r.choice([2 ** 31 - 1, -2 ** 31, 2 ** 40, -10 ** 12, 65535, 256])


def gen_param(r: random.Random) -> Any:
    c = r.random()
    if c < 0.45:
        return gen_int(r)
    if c < 0.55:
        return {"fx": r.choice(FIXED)}
    if c < 0.7:
        return {"c": r.choice(CONSTS)}
    if c < 0.82:
        return {"s": r.choice(STRS)}
    if c < 0.92:
        langs = r.sample(LANGS, r.randint(1, 3))
        return {"ls": [[l, r.choice(STRS)] for l in langs]}
    # (-1 is an ordinary tile, and the value the SsbScript listener uses internally as "not set yet")
    rel = r.choice([0, 1, 5, 23, 100, r.randint(0, 60), -3, -1, -1])
    return {"pm": [r.choice(PM_NAMES), r.choice([0, 2]), r.choice([0, 2]), rel, r.choice([0, 7, r.randint(0, 60), -12, -1])]}


def gen_info(r: random.Random, kind: str) -> tuple[dict, Any]:
    if kind in ("GENERIC", "COROUTINE"):
        return {"type": kind, "linked_to": 0, "linked_to_name": None}, (r.choice(CORO_NAMES) if kind == "COROUTINE" else None)
    if r.random() < 0.35:
        return {"type": kind, "linked_to": -1, "linked_to_name": r.choice(TARGET_NAMES)}, None
    return {"type": kind, "linked_to": r.choice([0, 1, 5, -1, -5, 77, r.randint(0, 400)]), "linked_to_name": None}, None


def pick_target(r: random.Random, layout: list[list[int]], ri: int, oi: int) -> tuple[int, str]:
    """(target offset, mode)"""
    allo = [o for rt in layout for o in rt]
    me = layout[ri][oi]
    modes = ["self", "next", "prev", "any", "any", "first_of_other", "first_of_later", "last", "same_fwd", "same_back", "first"]
    for _ in range(8):
        m = r.choice(modes)
        if m == "self":
            return me, m
        if m == "any":
            return r.choice(allo), m
        if m == "last":
            return allo[-1], m
        if m == "first":
            return allo[0], m
        k = allo.index(me)
        if m == "next" and k + 1 < len(allo):
            return allo[k + 1], m
        if m == "prev" and k > 0:
            return allo[k - 1], m
        if m == "first_of_other":
            c = [rt[0] for j, rt in enumerate(layout) if j != ri and rt]
            if c:
                return r.choice(c), m
        if m == "first_of_later":
            c = [rt[0] for j, rt in enumerate(layout) if j > ri and rt]
            if c:
                return c[0], m
        if m == "same_fwd" and oi + 1 < len(layout[ri]):
            return r.choice(layout[ri][oi + 1:]), m
        if m == "same_back" and oi > 0:
            return r.choice(layout[ri][:oi]), m
    return me, "self"


def gen_layout(r: random.Random, n_routines: int, max_ops: int) -> list[list[int]]:
    off = r.choice([0, 0, 1, r.randint(0, 50), r.randint(100, 5000), -r.randint(1, 30)])
    layout = []
    for _ in range(n_routines):
        n = 0 if r.random() < 0.22 else r.randint(1, max_ops)
        rt = []
        for _ in range(n):
            rt.append(off)
            off += r.choice([1, 1, 1, 2, 3, r.randint(1, 9)])
        layout.append(rt)
    return layout


def gen_set(r: random.Random, stats: dict | None = None) -> dict:
    jt = jump_table()
    jnames = list(jt)
    n_routines = r.choice([1, 1, 2, 2, 3, 3, 4, 5])
    max_ops = r.choice([2, 4, 6, 6, 12])
    layout = gen_layout(r, n_routines, max_ops)
    p_jump = r.choice([0.15, 0.4, 0.7])
    coro_only = r.random() < 0.15
    infos, coros, ops = [], [], []
    for ri, rt in enumerate(layout):
        kind = "COROUTINE" if coro_only else r.choice(KINDS)
        info, cn = gen_info(r, kind)
        infos.append(info)
        coros.append(cn)
        rops = []
        for oi, off in enumerate(rt):
            if r.random() < p_jump:
                name = r.choice(jnames)
                tgt, mode = pick_target(r, layout, ri, oi)
                params = [gen_param(r) for _ in range(jt[name])] + [tgt]
                if stats is not None:
                    stats["jump_" + mode] = stats.get("jump_" + mode, 0) + 1
                    tr = [j for j, x in enumerate(layout) if tgt in x][0]
                    key = "jump_cross_routine" if tr != ri else "jump_same_routine"
                    stats[key] = stats.get(key, 0) + 1
            else:
                name = r.choice(PLAIN_OPS)
                params = [gen_param(r) for _ in range(r.choice([0, 0, 1, 1, 2, 3, 4]))]
                if name in ("JumpCommon", "CallCommon") and r.random() < 0.7:
                    # a coroutine id: an integer that is / is not the offset of an op of the set (it is no jump target)
                    allo = [o for x in layout for o in x]
                    params = [r.choice(allo) if allo and r.random() < 0.5 else r.choice([0, 1, 7, 33, 400, 70001])]
            rops.append({"off": off, "name": name, "params": params})
        ops.append(rops)
    if stats is not None:
        stats["routines"] = stats.get("routines", 0) + n_routines
        stats["empty_routines"] = stats.get("empty_routines", 0) + sum(1 for x in layout if not x)
        stats["ops"] = stats.get("ops", 0) + sum(len(x) for x in layout)
        for i in infos:
            stats["kind_" + i["type"]] = stats.get("kind_" + i["type"], 0) + 1
    return {"infos": infos, "coros": coros, "ops": ops}


ILLFORMED_TAGS = ["jump_not_last", "jump_param_missing", "jump_param_short", "jump_param_not_int", "target_in_gap",
                  "target_past_eof", "target_before_first", "offsets_swapped", "offset_duplicate", "generic_linked",
                  "name_and_number", "empty_name", "coroutine_unnamed", "invalid_kind", "fewer_infos", "fewer_ops",
                  "coro_name_on_generic"]


def illformed(r: random.Random, base: dict) -> tuple[dict, str]:
    """break one clause of the well-formedness predicate; falls back to another tag when not applicable"""
    jt = jump_table()
    for _ in range(20):
        s = copy.deepcopy(base)
        tag = r.choice(ILLFORMED_TAGS)
        flat = [o for rt in s["ops"] for o in rt]
        jops = [o for o in flat if o["name"] in jt]
        offs = [o["off"] for o in flat]
        if tag == "jump_not_last" and jops:
            r.choice(jops)["params"].append(gen_param(r))
        elif tag == "jump_param_missing" and jops:
            r.choice(jops)["params"].pop()
        elif tag == "jump_param_short" and [o for o in jops if jt[o["name"]] >= 1]:
            o = r.choice([o for o in jops if jt[o["name"]] >= 1])
            o["params"] = o["params"][: jt[o["name"]] - 1]
        elif tag == "jump_param_not_int" and jops:
            r.choice(jops)["params"][-1] = r.choice([{"c": "X"}, {"s": "1"}, {"fx": "1.0"}])
        elif tag == "target_in_gap" and jops:
            gaps = [x for x in range(min(offs), max(offs)) if x not in offs]
            if not gaps:
                continue
            r.choice(jops)["params"][-1] = r.choice(gaps)
        elif tag == "target_past_eof" and jops:
            r.choice(jops)["params"][-1] = max(offs) + r.randint(1, 5)
        elif tag == "target_before_first" and jops:
            r.choice(jops)["params"][-1] = min(offs) - r.randint(1, 5)
        elif tag == "offsets_swapped" and len(flat) >= 2:
            a, b = r.sample(range(len(flat)), 2)
            flat[a]["off"], flat[b]["off"] = flat[b]["off"], flat[a]["off"]
        elif tag == "offset_duplicate" and len(flat) >= 2:
            a, b = r.sample(range(len(flat)), 2)
            flat[a]["off"] = flat[b]["off"]
        elif tag == "generic_linked":
            c = [i for i in s["infos"] if i["type"] in ("GENERIC", "COROUTINE")]
            if not c:
                continue
            r.choice(c)["linked_to"] = r.choice([1, -1, 7])
        elif tag == "name_and_number":
            c = [i for i in s["infos"] if i["type"] in ("ACTOR", "OBJECT", "PERFORMER")]
            if not c:
                continue
            i = r.choice(c)
            i["linked_to"], i["linked_to_name"] = r.choice([0, 4, 12]), r.choice(TARGET_NAMES)
        elif tag == "empty_name":
            c = [i for i in s["infos"] if i["type"] in ("ACTOR", "OBJECT", "PERFORMER")]
            if not c:
                continue
            r.choice(c)["linked_to_name"] = ""
        elif tag == "coroutine_unnamed":
            c = [k for k, i in enumerate(s["infos"]) if i["type"] == "COROUTINE"]
            if not c:
                continue
            s["coros"][r.choice(c)] = None
        elif tag == "invalid_kind":
            r.choice(s["infos"])["type"] = "INVALID"
        elif tag == "fewer_infos" and len(s["infos"]) >= 2:
            s["infos"].pop()
        elif tag == "fewer_ops" and len(s["ops"]) >= 2:
            s["ops"].pop()
        elif tag == "coro_name_on_generic":
            c = [k for k, i in enumerate(s["infos"]) if i["type"] != "COROUTINE"]
            if not c:
                continue
            s["coros"][r.choice(c)] = r.choice(CORO_NAMES)
        else:
            continue
        return s, tag
    return copy.deepcopy(base), "unchanged"


def exhaustive(max_ops: int, alphabet: list[str], two_routines_only_at_max: bool = False) -> Iterator[dict]:
    """every set with n <= max_ops ops at offsets 3,5,7,.. split over one routine or two routines (all split points,
    i.e. including an empty first or second routine), every opcode assignment over `alphabet`, every target choice"""
    jt = jump_table()
    for n in range(0, max_ops + 1):
        offs = [3 + 2 * i for i in range(n)]
        choices: list[tuple[str, Any]] = []
        for a in alphabet:
            if a in jt:
                choices += [(a, t) for t in offs]
            else:
                choices.append((a, None))
        shapes: list[list[int]] = [[n]] + [[k, n - k] for k in range(n + 1)]
        if two_routines_only_at_max and n == max_ops:
            shapes = shapes[1:]
        for assign in itertools.product(choices, repeat=n):
            flat = []
            for off, (name, t) in zip(offs, assign):
                params: list = [7] * jt[name] + [t] if name in jt else ([] if name == "Return" else [1])
                flat.append({"off": off, "name": name, "params": params})
            for shape in shapes:
                ops, k = [], 0
                for ln in shape:
                    ops.append(copy.deepcopy(flat[k:k + ln]))
                    k += ln
                kinds = ["GENERIC", "ACTOR"][: len(shape)]
                yield {"infos": [{"type": kd, "linked_to": 0 if kd == "GENERIC" else 4, "linked_to_name": None} for kd in kinds],
                       "coros": [None] * len(shape), "ops": ops}
