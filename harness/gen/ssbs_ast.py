"""Random SsbScript statement ASTs (format: harness/astdump_ssbs.py) and a printer to SsbScript text.
Shapes the SsbScript decompiler never prints: routine ids out of order / repeated (accepted), with gaps at the start or
later / negative / huge (SsbCompilerError since the `fix:` commit on `_enlarge_routine_info`), `coro` after `def`,
unknown `for` words, legacy `for_actor (N)` syntax, labels at the end of a routine or file, several labels before one op, repeated label names, jump markers that are not the last argument,
jumps to labels that are never defined."""
from __future__ import annotations

import random
from typing import Any

from . import ssb as G

LABELS = ["a", "b", "label_0", "label_1", "L1", "_x"]
WORDS = ["actor", "object", "performer", "for_actor", "for_object", "for_performer", "monster", "Actor"]


def gen_args(r: random.Random, pool: list[str]) -> list:
    n = r.choice([0, 0, 1, 1, 2, 3])
    args: list = [G.gen_param(r) for _ in range(n)]
    c = r.random()
    if c < 0.45:
        args.append({"j": r.choice(pool)})
    elif c < 0.6:
        args.insert(r.randint(0, len(args)), {"j": r.choice(pool)})
        if r.random() < 0.3:
            args.append({"j": r.choice(pool)})
    return args


def gen_ast(r: random.Random) -> list:
    n = r.choice([0, 1, 1, 2, 2, 3, 4])
    mode = r.choice(["seq", "seq", "repeat", "repeat", "random", "gap", "neg", "lategap"])
    bad_at = r.randint(1, max(1, n - 1))  # lategap: the routine whose id skips / is negative / is huge
    out = []
    # jump markers mostly name labels that will be defined somewhere in the file (before or after the jump)
    defined = r.sample(LABELS, r.randint(1, 4))
    pool = defined * 6 + LABELS if r.random() < 0.8 else LABELS
    for i in range(n):
        c = r.random()
        if mode == "seq":
            rid = i
        elif mode == "random":
            rid = r.randint(0, 4)
        elif mode == "gap":
            rid = i * 2 + 1
        elif mode == "lategap":
            rid = i if i != bad_at else r.choice([i + 1, i + 1, i + 2, -1, 1000, 99999999999])
        elif mode == "repeat":
            rid = r.randint(0, i)  # mostly valid: an earlier id again, or the next one
        else:
            rid = r.choice([-1, -1, 0, 1, -2])
        if c < 0.2:
            hdr: dict = {"k": "coro", "name": r.choice(G.CORO_NAMES)}
        elif c < 0.55:
            hdr = {"k": "def", "id": rid}
        else:
            hdr = {"k": "for", "id": rid, "word": r.choice(WORDS[:6] if r.random() < 0.9 else WORDS),
                   "target": r.choice([0, 5, -1, -7, 300]) if r.random() < 0.6 else r.choice(G.TARGET_NAMES)}
        if r.random() < 0.2:
            body: Any = None
        else:
            body = []
            for _ in range(r.randint(1, 6)):
                if r.random() < 0.35:
                    body.append({"l": r.choice(defined if r.random() < 0.9 else LABELS)})
                else:
                    body.append({"op": r.choice(G.PLAIN_OPS + ["Jump", "Branch", "Call", "Case"]), "args": gen_args(r, pool)})
        out.append({"hdr": hdr, "body": body})
    # labels that get an offset: a later op exists anywhere in the rest of the file
    stream = [s for rt in out if rt["body"] for s in rt["body"]]
    last_op = max([i for i, s in enumerate(stream) if "op" in s], default=-1)
    resolved = sorted({s["l"] for i, s in enumerate(stream) if "l" in s and i < last_op})
    if resolved and r.random() < 0.75:
        for s in stream:
            if "op" in s:
                for a in s["args"]:
                    if isinstance(a, dict) and "j" in a and r.random() < 0.9:
                        a["j"] = r.choice(resolved)
    return out


def print_param(p: Any, indent: int) -> str:
    from harness import ssbjson
    if isinstance(p, dict) and "j" in p:
        return "@" + p["j"]
    v = ssbjson.param_from_json(p)
    if hasattr(v, "indent"):
        v.indent = indent
    return str(v)


def print_ast(ast: list, r: random.Random | None = None) -> str:
    """layout is varied a little when `r` is given (legacy syntax keeps its own token)"""
    L: list[str] = []
    for rt in ast:
        h = rt["hdr"]
        if h["k"] == "def":
            head = f"def {h['id']}"
        elif h["k"] == "coro":
            head = f"coro {h['name']}"
        else:
            tgt = str(h["target"])
            if r is not None and r.random() < 0.3:
                tgt = f"({tgt})"
            if h["word"].startswith("for_"):
                head = f"def {h['id']} {h['word']} {tgt}"
            else:
                head = f"def {h['id']} for {h['word']} {tgt}"
        L.append(head + " {")
        if rt["body"] is None:
            L.append("    alias previous;")
        else:
            for s in rt["body"]:
                if "l" in s:
                    L.append(f"    {'§' if (r is not None and r.random() < 0.3) else '@'}{s['l']};")
                else:
                    args = ", ".join(print_param(a, 1) for a in s["args"])
                    if r is not None and s["args"] and r.random() < 0.2:
                        args += ","
                    L.append(f"    {s['op']}({args});")
        L.append("}")
        if r is None or r.random() < 0.7:
            L.append("")
    return "\n".join(L) + "\n"
