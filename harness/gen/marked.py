"""Marked programs (C08): every op-producing node of a generated program is made recognisable from the CONTENT of
the op it produces, so that an oracle can tell which source node an emitted op belongs to without modelling the
compiler's op numbering.

Marks (fresh integer tags >= TAG0, larger than every integer the base generator draws; fresh names `$V<tag>`):
  plain operation            first argument = tag (inside a macro followed by the call-path parameters $p1 $p2 $p3)
  inline context / with      context target = tag
  assignment                 value (or target / scenario level) = tag
  if / elseif / while / for  each header operand: right operand / bit index / scenario level / first argument = tag
  switch header              operand = `$V<tag>` or tag;  case header: value = tag / menu text "s<tag>"
  message switch             operand `$V<tag>`, case value tag, default text "d<tag>"
  macro call                 first argument = tag (the call SITE); inside a macro the caller's path is passed on:
                             ~m(site, $p1, $p2)  so that ops of a macro body carry (node tag, innermost site, …, outermost site)
  return / end / hold, `debug`/`edit`/`variation` headers, `sector()` switches, `reset dungeon_result` carry no operand:
  they are identified when their signature is unique, else they are checked against the set of candidates.
"""
from __future__ import annotations

import random
from typing import Any

from . import surface
from .programs import Cfg, ProgGen, PLAIN_OPS

TAG0 = 100000
PATH_PARAMS = ["$p1", "$p2", "$p3"]
MAX_DEPTH = 3  # macro nesting depth the path parameters can tell apart


class MPrinter(surface.Printer):
    """Printer that also marks the first and the last token of every non-empty argument list
    (key ("argl", id(args)); "end" is the START of the last token, like the parser's ctx.stop)."""

    def arglist(self, args: list[dict], trailing_comma: bool = False) -> None:
        self.t("(")
        i0 = len(self.toks)
        for i, a in enumerate(args):
            self.arg(a)
            if i < len(args) - 1 or (trailing_comma and args):
                self.t(",")
        if args:
            self.add_mark(i0, ("argl", id(args)), "start")
            self.add_mark(len(self.toks) - 1, ("argl", id(args)), "end")
        self.t(")")


def print_file(ast: dict, style: str, seed: int) -> tuple[str, dict]:
    pr = MPrinter()
    pr.program(ast)
    return surface.layout(pr.toks, random.Random(seed), style)


class Marker:
    def __init__(self, rnd: random.Random):
        self.r = rnd
        self.n = TAG0

    def tag(self) -> int:
        self.n += 1
        return self.n

    def ti(self) -> dict:
        return {"k": "int", "v": self.tag()}

    def tv(self) -> dict:
        return {"k": "var", "v": f"$V{self.tag()}"}

    def tc(self) -> dict:
        return {"k": "id", "v": f"K{self.tag()}"}

    def path_args(self) -> list[dict]:
        return [{"k": "var", "v": p} for p in PATH_PARAMS]

    # ---- headers
    def header(self, h: dict, in_macro: bool) -> None:
        t = h["h"]
        if t == "op":
            h["right"] = (self.tv() if self.r.random() < 0.5 else self.tc()) if h.get("value_of") else self.ti()
            if in_macro and self.r.random() < 0.6:
                h["left"] = {"k": "var", "v": "$p1"}
        elif t == "bit":
            h["index"] = self.tag()
        elif t == "scn":
            h["a"] = self.tag()
        elif t == "operation":
            h["args"] = [self.ti()] + (self.path_args() if in_macro else []) + h["args"]

    def switch_header(self, sh: dict, in_macro: bool) -> None:
        k = sh["s"]
        if k in ("var", "scn"):
            sh["v"] = self.tv() if self.r.random() < 0.7 else self.tc()
        elif k in ("random", "dungeon_mode"):
            sh["v"] = self.ti()
        elif k == "operation":
            sh["args"] = [self.ti()] + (self.path_args() if in_macro else []) + sh["args"]

    def case_header(self, ch: dict) -> None:
        k = ch["c"]
        if k == "value":
            ch["v"] = self.ti()
        elif k == "op":
            ch["v"] = (self.tv() if self.r.random() < 0.5 else self.tc()) if ch.get("value_of") else self.ti()
        elif k == "menu":
            ch["v"] = {"k": "str", "v": f"s{self.tag()}", "quote": '"'}
        elif k == "menu2":
            ch["v"] = self.ti()

    # ---- statements
    def simple(self, s: dict, in_macro: bool) -> None:
        t = s["t"]
        if t == "op":
            s["args"] = [self.ti()] + (self.path_args() if in_macro else []) + s["args"]
            if s.get("ctx"):
                s["ctx"]["target"] = self.ti()
        elif t == "assign":
            f = s["form"]
            if f == "regular":
                s["value"] = (self.tv() if self.r.random() < 0.5 else self.tc()) if s.get("value_of") else self.ti()
                if in_macro and s.get("index") is None and self.r.random() < 0.5:
                    s["target"] = {"k": "var", "v": "$p1"}
            elif f in ("clear", "init"):
                s["target"] = self.tv()
            elif f == "reset":
                if s.get("target") is not None:
                    s["target"] = self.tv()
            elif f in ("adv_log", "dungeon_mode"):
                s["value"] = self.ti()
            elif f == "scn":
                s["a"] = self.tag()

    def block(self, stmts: list[dict], in_macro: bool) -> None:
        for s in stmts:
            self.stmt(s, in_macro)

    def stmt(self, s: dict, in_macro: bool) -> None:
        t = s["t"]
        if t in ("op", "assign"):
            self.simple(s, in_macro)
        elif t == "with":
            s["target"] = self.ti()
            self.simple(s["stmt"], in_macro)
        elif t == "if":
            for b in s["branches"]:
                for h in b["headers"]:
                    self.header(h, in_macro)
                self.block(b["body"], in_macro)
            if s.get("else") is not None:
                self.block(s["else"], in_macro)
        elif t == "switch":
            self.switch_header(s["header"], in_macro)
            for c in s["cases"]:
                if not c.get("default"):
                    self.case_header(c["header"])
                self.block(c["body"], in_macro)
        elif t == "msgswitch":
            s["v"] = self.tv()
            for c in s["cases"]:
                if c.get("default"):
                    c["string"] = {"k": "str", "v": f"d{self.tag()}", "quote": '"'}
                else:
                    c["v"] = self.ti()
        elif t == "forever":
            self.block(s["body"], in_macro)
        elif t == "while":
            self.header(s["header"], in_macro)
            self.block(s["body"], in_macro)
        elif t == "for":
            self.simple(s["init"], in_macro)
            self.header(s["header"], in_macro)
            self.simple(s["inc"], in_macro)
            self.block(s["body"], in_macro)
        elif t == "macrocall":
            # the site tag and the caller's path are set when the call is created (make_call)
            pass


def make_call(mk: Marker, name: str, in_macro: bool, extra: list[dict]) -> dict:
    """~name(site, <caller path shifted by one>, extra…)"""
    if in_macro:
        path = [{"k": "var", "v": "$p1"}, {"k": "var", "v": "$p2"}]
    else:
        path = [{"k": "int", "v": 0}, {"k": "int", "v": 0}]
    return {"t": "macrocall", "name": name, "args": [mk.ti()] + path + extra, "trailing_comma": mk.r.random() < 0.1}


def strip_pos(stmts: list[dict]) -> None:
    """remove Position<…> arguments (in place) from every argument list of a statement list"""
    def args(a: list[dict]) -> None:
        a[:] = [x for x in a if x.get("k") != "pos"]
    for blk in all_blocks(stmts):
        for s in blk:
            for t in ([s, s.get("stmt")] if s["t"] == "with" else [s]):
                if t is not None and "args" in t:
                    args(t["args"])
            if s["t"] == "if":
                for b in s["branches"]:
                    for h in b["headers"]:
                        if h["h"] == "operation":
                            args(h["args"])
            if s["t"] in ("while", "for") and s["header"]["h"] == "operation":
                args(s["header"]["args"])
            if s["t"] == "switch" and s["header"]["s"] == "operation":
                args(s["header"]["args"])


def all_blocks(stmts: list[dict]) -> list[list[dict]]:
    out: list[list[dict]] = []

    def walk(ss: list[dict]) -> None:
        out.append(ss)
        for s in ss:
            t = s["t"]
            if t == "if":
                for b in s["branches"]:
                    walk(b["body"])
                if s.get("else") is not None:
                    walk(s["else"])
            elif t == "switch":
                for c in s["cases"]:
                    walk(c["body"])
            elif t in ("forever", "while", "for"):
                walk(s["body"])
    walk(stmts)
    return out


def has_pos(stmts: list[dict]) -> bool:
    import json
    return '"k": "pos"' in json.dumps(stmts)


class MacroBodyGen:
    """bodies of macros: the statement forms of ProgGen without named labels (labels of a macro are added separately),
    `return` allowed anywhere"""

    def __init__(self, rnd: random.Random, cfg: Cfg):
        self.r = rnd
        c = Cfg(**{k: getattr(cfg, k) for k in vars(cfg)})
        c.labels = False
        self.g = ProgGen(rnd, c)

    def body(self, first: str | None = None) -> list[dict]:
        g = self.g
        n = self.r.choice([1, 1, 2, 2, 3, 4])
        body = g.trim_dead([g.stmt(0, False, False) for _ in range(n)])
        if not body:
            body = [g.plain()]
        if getattr(g.cfg, "hdr_pos", 0) and g.cfg.pos_marks and g.cfg.loops and self.r.random() < 0.25:
            # a loop of the macro whose condition is an operation that carries a Position literal
            pos = {"k": "pos", "name": self.r.choice(["m0", "Mark", "p_1", ""]), "x": self.r.choice(["0", "12", "3.5", "0.5"]),
                   "y": self.r.choice(["1", "20.5", "4"]), "quote": self.r.choice(["'", '"'])}
            hdr = {"h": "operation", "name": "BranchExecuteSub", "args": [pos]}
            loop = ({"t": "while", "not": self.r.random() < 0.3, "header": hdr, "body": [g.plain()]} if self.r.random() < 0.6 else
                    {"t": "for", "init": g.assign(), "header": hdr, "inc": g.assign(), "body": [g.plain()]})
            g.hit("macro_loop_condition_pos")
            body.insert(self.r.randint(0, len(body)), loop)
        return body
