"""Implementation adapter for the front phases of the ExplorerScript decompiler (run inside workers):
label resolution (OpsLabelJumpToResolver / process_op_for_jump) and the base control-flow graph
(SsbGraphMinimizer.__init__), dumped in the JSON form of lean/Driver/Decomp.lean (`decomp.front`)."""
from __future__ import annotations

import random
from typing import Any

from . import rsjson


def _item(op: Any, special: Any) -> dict:
    if isinstance(op, special.SsbLabel):
        return {"k": "label", "id": op.id}
    if isinstance(op, special.SsbForeignLabel):
        return {"k": "foreign", "id": op.label.id}
    if isinstance(op, special.SsbLabelJump):
        r = op.maybe_root
        if r is None:
            # a multi-if (group_branches): the root is unset, the root ops are in the MultiIfStart marker, the original one first
            r = next(m for m in op.markers if isinstance(m, special.MultiIfStart)).original_ssb_ifs_ops[0]
        return {"k": "ljump", "off": r.offset, "name": r.op_code.name, "params": [rsjson.param_to_json(p) for p in r.params],
                "label": op.label.id, "call": any(isinstance(m, special.CallJump) for m in op.markers)}
    return {"k": "op", "off": op.offset, "name": op.op_code.name, "params": [rsjson.param_to_json(p) for p in op.params]}


def front(arg: dict) -> dict:
    """arg: {"rs": routine set json} -> labels, interleaved routines, base graphs of the real code.
    An exception gives {"error": class, "stage": "resolve"|"graph"} (plus what was computed before it)."""
    from explorerscript.ssb_converting import ssb_special_ops as special
    from explorerscript.ssb_converting.decompiler.label_jump_to_resolver import OpsLabelJumpToResolver
    from explorerscript.ssb_converting.decompiler.graph_building.graph_minimizer import SsbGraphMinimizer
    _infos, ops, _coros = rsjson.rs_from_json(arg["rs"])
    try:
        resolver = OpsLabelJumpToResolver(ops)
        rtns = list(resolver)
    except BaseException as e:  # noqa
        return {"error": type(e).__name__, "stage": "resolve"}
    out: dict = {
        "labels": [[off, l.id, l.routine_id, bool(l.referenced_from_other_routine)] for off, l in resolver.labels.items()],
        "rtns": [[_item(o, special) for o in r] for r in rtns],
    }
    has_calls = any(any(isinstance(op, special.SsbLabelJump) and any(isinstance(x, special.CallJump) for x in op.markers) for op in rtn) for rtn in rtns)
    out["has_calls"] = has_calls
    try:
        grapher = SsbGraphMinimizer(rtns, not has_calls)
    except BaseException as e:  # noqa
        out["error"] = type(e).__name__
        out["stage"] = "graph"
        return out
    gs = []
    for g in grapher.get_graphs():
        gs.append({"vs": [_item(v["op"], special) for v in g.vs],
                   "es": [[e.source, e.target, e["flow_level"], bool(e["loop"])] for e in g.es]})
    out["graphs"] = gs
    # first rewriting phase
    try:
        grapher.optimize_paths()
        out["opt"] = [{"vs": [_item(v["op"], special) for v in g.vs],
                       "es": [[e.source, e.target, e["flow_level"], bool(e["loop"])] for e in g.es]} for g in grapher.get_graphs()]
    except BaseException as e:  # noqa
        out["opt"] = {"error": type(e).__name__}
        return out
    out["opt_names"] = [[_vname(v) for v in g.vs] for g in grapher.get_graphs()]
    # second rewriting phase: build_branches, with the answers of the heuristic search it calls recorded from outside
    answers, bb = build_branches_recorded(grapher)
    out["answers"] = answers
    if "error" in bb:
        out["bb"] = bb
        return out
    out["bb"] = [_bgraph(g, special) for g in grapher.get_graphs()]
    # third and fourth rewriting phase: group_branches, invert_branches (deterministic, modelled without an oracle)
    err = run_guarded(grapher, "group_branches")
    if err:
        out["gb"] = err
        return out
    out["gb"] = [_bgraph(g, special) for g in grapher.get_graphs()]
    err = run_guarded(grapher, "invert_branches")
    if err:
        out["ib"] = err
        return out
    out["ib"] = [_bgraph(g, special) for g in grapher.get_graphs()]
    # fifth and sixth rewriting phase: build_and_group_switch_cases (search answers recorded), group_switch_cases
    sw_answers, err = search_recorded(grapher, "build_and_group_switch_cases")
    out["sw_answers"] = sw_answers
    if err:
        out["sc"] = err
        return out
    out["sc"] = [_sgraph(g, special) for g in grapher.get_graphs()]
    err = run_guarded(grapher, "group_switch_cases")
    if err:
        out["gs"] = err
        return out
    out["gs"] = [_sgraph(g, special) for g in grapher.get_graphs()]
    # seventh to ninth rewriting phase: build_switch_fallthroughs (the set of labels it marks is an ORACLE of the model, read off
    # the graphs before / after), build_loops (the successful loop constructions are an ORACLE, recorded from outside),
    # remove_label_markers (deterministic, modelled without an oracle)
    before = [_lgraph(g, special) for g in grapher.get_graphs()]
    err = run_guarded(grapher, "build_switch_fallthroughs")
    if err:
        out["ft_marked"] = [[] for _ in before]
        out["fl"] = err
        return out
    out["fl"] = [_lgraph(g, special) for g in grapher.get_graphs()]
    # (a label that is marked twice appears twice; the count itself is read by nothing: dumped as the flag "ft")
    out["ft_marked"] = [[i for i, (x, y) in enumerate(zip(b["vs"], a["vs"])) for _ in range(y["ftn"] - x["ftn"])] for b, a in zip(before, out["fl"])]
    _strip_ftn(out["fl"])
    lp_records, err = loops_recorded(grapher)
    out["lp_records"] = lp_records
    if err:
        out["bl"] = err
        return out
    out["bl"] = _strip_ftn([_lgraph(g, special) for g in grapher.get_graphs()])
    err = run_guarded(grapher, "remove_label_markers")
    if err:
        out["rl"] = err
        return out
    out["rl"] = _strip_ftn([_lgraph(g, special) for g in grapher.get_graphs()])
    # last step of convert(): the write handlers on these very graphs (harness/impl_writer.py, harness/decomp_writer.py)
    from . import impl_writer
    out["wr"] = impl_writer.write_on(arg, grapher)
    return out


def _strip_ftn(gs: list) -> list:
    for g in gs:
        for v in g["vs"]:
            v.pop("ftn", None)
    return gs


def _lgraph(g: Any, special: Any) -> dict:
    """a graph from build_switch_fallthroughs on: _sgraph plus, per vertex, "ft" (a SwitchFalltrough marker; "ftn" how many),
    "fs" / "fe" (ForeverStart id / ForeverEnd ids), "fb" / "fc" (ForeverBreak / ForeverContinue id of a label jump), "fw"
    (force_write of a label), "syn" (a vertex build_loops inserted: SsbLabelJump(root, None) with a ForeverBreak / ForeverContinue
    marker - dumped as its root: kind "op", "label" or "foreign")"""
    vs = []
    for v in g.vs:
        op = v["op"]
        extra = {"ft": False, "ftn": 0, "fs": None, "fe": [], "fb": None, "fc": None, "fw": False, "syn": False}
        if isinstance(op, special.SsbLabelJump) and op.label is None and len(op.markers) == 1 and isinstance(op.markers[0], (special.ForeverBreak, special.ForeverContinue)):
            r = op.maybe_root
            if r is None:
                d = {"k": "?rootless"}
            elif isinstance(r, special.SsbLabelJump):
                d = {"k": "?nested"}
            else:
                d = _item(r, special)
                if op.op_code.name != f"ES_JUMP<{r.op_code.name}>" or op.offset != r.offset:
                    d = {"k": "?opname " + op.op_code.name}
            d.update({"n": _vname(v), "ifs": None, "ife": [], "mops": [], "not": False, "multi": False, "sws": None, "swe": []})
            extra["syn"] = True
            extra["fb" if isinstance(op.markers[0], special.ForeverBreak) else "fc"] = op.markers[0].loop_id
            if v["name"] is not None:
                d["n"] = "?named " + str(v["name"])
        elif isinstance(op, special.SsbLabelJump) and op.label is None:
            d = _sgraph_vertex(v, special)
        elif isinstance(op, special.SsbLabel):
            known = (special.IfEnd, special.SwitchEnd, special.SwitchFalltrough, special.ForeverStart, special.ForeverEnd)
            keep = [m for m in op.markers if isinstance(m, special.IfEnd) or not isinstance(m, known)]
            d = _bvertex(v, special, markers=keep)
            d["sws"] = None
            d["swe"] = [m.switch_id for m in op.markers if isinstance(m, special.SwitchEnd)]
            extra["ftn"] = sum(1 for m in op.markers if isinstance(m, special.SwitchFalltrough))
            extra["ft"] = extra["ftn"] > 0
            fs = [m.loop_id for m in op.markers if isinstance(m, special.ForeverStart)]
            extra["fs"] = fs[0] if len(fs) == 1 else (None if not fs else "?" + str(fs))
            extra["fe"] = [m.loop_id for m in op.markers if isinstance(m, special.ForeverEnd)]
            extra["fw"] = bool(op.force_write)
        elif isinstance(op, special.SsbLabelJump):
            # a label jump: at most one marker of the loop kinds (add_marker refuses a second marker)
            loopm = [m for m in op.markers if isinstance(m, (special.ForeverBreak, special.ForeverContinue, special.ForeverStart, special.ForeverEnd))]
            saved = op.markers
            op.markers = [m for m in saved if m not in loopm]
            try:
                d = _bvertex(v, special)
            finally:
                op.markers = saved
            d["sws"] = None
            d["swe"] = []
            for m in loopm:
                if isinstance(m, special.ForeverBreak):
                    extra["fb"] = m.loop_id if extra["fb"] is None else "?twice"
                elif isinstance(m, special.ForeverContinue):
                    extra["fc"] = m.loop_id if extra["fc"] is None else "?twice"
                elif isinstance(m, special.ForeverStart):
                    extra["fs"] = m.loop_id if extra["fs"] is None else "?twice"
                else:
                    extra["fe"].append(m.loop_id)
        else:
            d = _bvertex(v, special)
            d["sws"] = None
            d["swe"] = []
        d.update(extra)
        vs.append(d)
    return {"vs": vs, "es": _sgraph_edges(g)}


def loops_recorded(grapher: Any) -> tuple[list, dict]:
    """runs the real build_loops(); its DECISION part (where a loop is built, with which break / continue edges) is an ORACLE of
    the model: recorded per graph from outside, as the list of SUCCESSFUL constructions [v, break edge ids, continue edge ids] in
    the order the code uses them - the return value of _build_loops__try_loop counts when it says True and every following
    is_reachable_when_removing (one per edge) says False.  Returns (records per graph, {} or {"error": class[, "decision": k]});
    "decision": the exception left the decision part while graph k was processed (no rewriting was going on: a rewriting starts
    when a construction is accepted and ends with its g.delete_vertices(...); the graph in work is known from g.bfsiter)."""
    from explorerscript.ssb_converting.decompiler.graph_building import graph_minimizer as gm
    graphs = list(grapher.get_graphs())
    records: list[list] = [[] for _ in graphs]
    st: dict = {"pending": None, "left": 0, "rewriting": False, "graph": None}
    orig_try = gm.SsbGraphMinimizer._build_loops__try_loop
    orig_reach = gm.is_reachable_when_removing

    def commit() -> None:
        k, rec = st["pending"]
        records[k].append(rec)
        st["pending"] = None
        st["rewriting"] = True

    def try_loop(self: Any, start: Any) -> Any:
        st["pending"] = None
        res = orig_try(self, start)
        can, bps, cps = res
        if can:
            k = next(i for i, gg in enumerate(graphs) if gg is start.graph)
            st["pending"] = (k, [start.index, [e.index for e in bps], [e.index for e in cps]])
            st["left"] = len(bps) + len(cps)
            if st["left"] == 0:
                commit()
        return res

    def reach(g: Any, *a: Any, **kw: Any) -> Any:
        r = orig_reach(g, *a, **kw)
        if st["pending"] is not None:
            if r:
                st["pending"] = None
            else:
                st["left"] -= 1
                if st["left"] == 0:
                    commit()
        return r

    def patch(k: int, g: Any) -> None:
        obfs, odel = g.bfsiter, g.delete_vertices

        def bfsiter(*a: Any, **kw: Any) -> Any:
            st["graph"] = k
            return obfs(*a, **kw)

        def delete_vertices(*a: Any, **kw: Any) -> Any:
            r = odel(*a, **kw)
            st["rewriting"] = False
            return r

        g.bfsiter, g.delete_vertices = bfsiter, delete_vertices

    gm.SsbGraphMinimizer._build_loops__try_loop = try_loop
    gm.is_reachable_when_removing = reach
    for k, g in enumerate(graphs):
        patch(k, g)
    try:
        grapher.build_loops()
    except BaseException as e:  # noqa
        r: dict = {"error": type(e).__name__}
        if not st["rewriting"] and st["graph"] is not None:
            r["decision"] = st["graph"]
        return records, r
    finally:
        gm.SsbGraphMinimizer._build_loops__try_loop = orig_try
        gm.is_reachable_when_removing = orig_reach
        for g in graphs:
            del g.bfsiter, g.delete_vertices
    return records, {}


class Hang(Exception):
    """the while loop of group_branches has run more rounds for one vertex than the graph has vertices + 1: from then on it
    repeats itself for ever (the chain of else-successors is in a cycle that avoids the vertex); the model answers "Hang"."""


def run_guarded(grapher: Any, phase: str) -> dict:
    """runs the real phase; {} or {"error": class}.  The loop condition of group_branches is counted from outside."""
    from explorerscript.ssb_converting.decompiler.graph_building import graph_minimizer as gm
    orig = gm.SsbGraphMinimizer.__dict__["_group_branches__is_if_group_possible"]
    state: dict = {"key": None, "n": 0}

    def counted(base_edge: Any, v_to_check: Any) -> bool:
        key = (id(v_to_check.graph), base_edge.source)
        if state["key"] != key:
            state["key"], state["n"] = key, 0
        state["n"] += 1
        if state["n"] > v_to_check.graph.vcount() + 1:
            raise Hang()
        return orig.__func__(base_edge, v_to_check)

    gm.SsbGraphMinimizer._group_branches__is_if_group_possible = staticmethod(counted)
    try:
        getattr(grapher, phase)()
    except BaseException as e:  # noqa
        return {"error": type(e).__name__}
    finally:
        gm.SsbGraphMinimizer._group_branches__is_if_group_possible = orig
    return {}


def _vname(v: Any) -> Any:
    """the igraph vertex attribute "name": "v<i>" -> i, anything else ("FLR<from…>") -> None"""
    n = v["name"]
    if isinstance(n, str) and n[:1] == "v" and n[1:].isdigit():
        return int(n[1:])
    return None


def _bvertex(v: Any, special: Any, markers: Any = None) -> dict:
    d = _item(v["op"], special)
    op = v["op"]
    d["n"] = _vname(v)
    ifs, ife = None, []
    d["mops"], d["not"], d["multi"] = [], False, False
    if isinstance(op, special.SsbLabelJump):
        for m in op.markers:
            if isinstance(m, special.IfStart):
                ifs = m.if_id
                d["not"] = bool(m.is_not)
                if isinstance(m, special.MultiIfStart):
                    d["mops"] = [{"off": o.offset, "name": o.op_code.name, "params": [rsjson.param_to_json(p) for p in o.params]}
                                 for o in m.original_ssb_ifs_ops[1:]]
            elif not isinstance(m, special.CallJump):
                ifs = "?" + type(m).__name__
        # the three facts that make a Python object a multi-if must agree: marker class, root unset, opcode renamed
        facts = {any(isinstance(m, special.MultiIfStart) for m in op.markers), op.maybe_root is None, op.op_code.name == "ES_OR_MULTI_IF"}
        d["multi"] = facts.pop() if len(facts) == 1 else "?inconsistent"
        if d["multi"] is False and op.op_code.name != f"ES_JUMP<{op.root.op_code.name}>":
            d["multi"] = "?opname " + op.op_code.name
    elif isinstance(op, special.SsbLabel):
        for m in (op.markers if markers is None else markers):
            ife.append(m.if_id if isinstance(m, special.IfEnd) else "?" + type(m).__name__)
    d["ifs"] = ifs
    d["ife"] = ife
    return d


def _bgraph(g: Any, special: Any) -> dict:
    return {"vs": [_bvertex(v, special) for v in g.vs],
            "es": [[e.source, e.target, e["flow_level"], bool(e["loop"]), bool(e["is_else"])] for e in g.es]}


def _mop(o: Any) -> dict:
    return {"off": o.offset, "name": o.op_code.name, "params": [rsjson.param_to_json(p) for p in o.params]}


def _sgraph_vertex(v: Any, special: Any) -> dict:
    op = v["op"]
    if isinstance(op, special.SsbLabelJump) and op.label is None:
        # SsbLabelJump(op, None): a switch op wrapped by build_and_group_switch_cases
        r = op.maybe_root
        d = dict({"k": "op"}, **_mop(r)) if r is not None else {"k": "?rootless"}
        d.update({"n": _vname(v), "ifs": None, "ife": [], "mops": [], "not": False, "multi": False, "swe": []})
        ms = op.markers
        d["sws"] = ms[0].switch_id if len(ms) == 1 and isinstance(ms[0], special.SwitchStart) else "?" + ",".join(type(m).__name__ for m in ms)
        if r is not None and op.op_code.name != f"ES_JUMP<{r.op_code.name}>":
            d["sws"] = "?opname " + op.op_code.name
    else:
        swe = []
        if isinstance(op, special.SsbLabel):
            # IfEnd and SwitchEnd markers are dumped as two lists (their interleaving is read by no modelled pass)
            keep = [m for m in op.markers if not isinstance(m, special.SwitchEnd)]
            swe = [m.switch_id for m in op.markers if isinstance(m, special.SwitchEnd)]
            d = _bvertex(v, special, markers=keep)
        else:
            d = _bvertex(v, special)
        d["sws"] = None
        d["swe"] = swe
    return d


def _sgraph_edges(g: Any) -> list:
    es = []
    for e in g.es:
        so = e["switch_ops"]
        es.append([e.source, e.target, e["flow_level"], bool(e["loop"]), bool(e["is_else"]),
                   "?empty" if so == [] else [[o.switch_index, o.index, _mop(o.op)] for o in (so or [])]])
    return es


def _sgraph(g: Any, special: Any) -> dict:
    """a graph from build_and_group_switch_cases on: _bgraph plus the switch markers ("sws": SwitchStart id of a wrapped switch
    op - dumped as kind "op" -, "swe": SwitchEnd ids of a label) and the switch_ops of every edge as sixth entry"""
    return {"vs": [_sgraph_vertex(v, special) for v in g.vs], "es": _sgraph_edges(g)}


def search_recorded(grapher: Any, phase: str) -> tuple[list, dict]:
    """runs a real phase that calls the heuristic search find_first_common_next_vertex_in_edges (an ORACLE of the model);
    its answers are recorded per graph, in call order (None or the ids of the returned edges at the time of return).
    Returns (answers per graph, {} or {"error": class[, "oracle_raised": True]})."""
    from explorerscript.ssb_converting.decompiler.graph_building import graph_minimizer as gm
    graphs = list(grapher.get_graphs())
    answers: list[list] = [[] for _ in graphs]
    state = {"oracle_raised": False}
    orig = gm.find_first_common_next_vertex_in_edges

    def recorder(g: Any, es: Any, *a: Any, **kw: Any) -> Any:
        k = next(i for i, gg in enumerate(graphs) if gg is g)
        try:
            res = orig(g, es, *a, **kw)
        except BaseException:
            state["oracle_raised"] = True
            raise
        answers[k].append(None if res is None else [e.index for e in res])
        return res

    gm.find_first_common_next_vertex_in_edges = recorder
    try:
        getattr(grapher, phase)()
    except BaseException as e:  # noqa
        r = {"error": type(e).__name__}
        if state["oracle_raised"]:
            r["oracle_raised"] = True
        return answers, r
    finally:
        gm.find_first_common_next_vertex_in_edges = orig
    return answers, {}


def build_branches_recorded(grapher: Any) -> tuple[list, dict]:
    """runs the real build_branches(); the heuristic search find_first_common_next_vertex_in_edges is an ORACLE of the
    model: its answers are recorded per graph, in call order, by wrapping the name in the namespace of graph_minimizer
    for the duration of the call (None or the ids of the two edges at the time of return).
    Returns (answers per graph, {} or {"error": class[, "oracle_raised": True]})."""
    from explorerscript.ssb_converting.decompiler.graph_building import graph_minimizer as gm
    graphs = list(grapher.get_graphs())
    answers: list[list] = [[] for _ in graphs]
    state = {"oracle_raised": False}
    orig = gm.find_first_common_next_vertex_in_edges

    def recorder(g: Any, es: Any, *a: Any, **kw: Any) -> Any:
        k = next(i for i, gg in enumerate(graphs) if gg is g)
        try:
            res = orig(g, es, *a, **kw)
        except BaseException:
            state["oracle_raised"] = True
            raise
        answers[k].append(None if res is None else [e.index for e in res])
        return res

    gm.find_first_common_next_vertex_in_edges = recorder
    try:
        grapher.build_branches()
    except BaseException as e:  # noqa
        r = {"error": type(e).__name__}
        if state["oracle_raised"]:
            r["oracle_raised"] = True
        return answers, r
    finally:
        gm.find_first_common_next_vertex_in_edges = orig
    return answers, {}


def front_many(args: list[dict]) -> list[dict]:
    return [front(a) for a in args]


def igraph_order_selftest(arg: dict) -> dict:
    """the environment model of lean/ESV/Decomp/Model.lean: Vertex.out_edges() / in_edges() deliver edges in ascending
    id of the other end, then descending edge id; delete_edges / delete_vertices compact ids preserving order.
    Re-measured against the installed igraph on random graphs."""
    from igraph import Graph
    rng = random.Random(arg.get("seed", 0))
    bad = []
    n_graphs = arg.get("n", 200)
    for trial in range(n_graphs):
        g = Graph(directed=True)
        g.add_vertices(rng.randint(1, 6))
        # mirror: list of (src, dst, tag) by edge id, list of vertex tags by vertex id
        es: list[tuple[int, int, int]] = []
        vs = list(range(g.vcount()))
        tag = 0
        for _ in range(rng.randint(0, 25)):
            r = rng.random()
            if r < 0.7 or not es:
                s, t = rng.randrange(len(vs)), rng.randrange(len(vs))
                g.add_edge(s, t, tag=tag)
                es.append((s, t, tag))
                tag += 1
            elif r < 0.85:
                i = rng.randrange(len(es))
                g.delete_edges([i])
                del es[i]
            elif len(vs) > 1:
                v = rng.randrange(len(vs))
                g.delete_vertices([v])
                del vs[v]
                es = [(s - (s > v), t - (t > v), x) for (s, t, x) in es if s != v and t != v]
        if [(e.source, e.target, e["tag"]) for e in g.es] != es:
            bad.append(["edge list", trial])
        for v in g.vs:
            out = [e.index for e in v.out_edges()]
            exp = sorted([i for i, e in enumerate(es) if e[0] == v.index], key=lambda i: (es[i][1], -i))
            inn = [e.index for e in v.in_edges()]
            expi = sorted([i for i, e in enumerate(es) if e[1] == v.index], key=lambda i: (es[i][0], -i))
            if out != exp or inn != expi:
                bad.append(["incident order", trial, v.index, out, exp, inn, expi])
    return {"graphs": n_graphs, "bad": bad[:5]}


class OracleExhausted(Exception):
    pass


class OracleEdgeMissing(Exception):
    pass


def _op_from_item(d: dict, special: Any, dt: Any) -> Any:
    def plain() -> Any:
        return dt.SsbOperation(d["off"], dt.SsbOpCode(-1, d["name"]), [rsjson.param_from_json(p) for p in d["params"]])
    k = d["k"]
    if d.get("syn"):
        # a vertex inserted by build_loops: SsbLabelJump(root, None) with a ForeverBreak / ForeverContinue marker
        root = special.SsbLabel(d["id"], 0) if k == "label" else (special.SsbForeignLabel(special.SsbLabel(d["id"], 1)) if k == "foreign" else plain())
        op = special.SsbLabelJump(root, None)
        if d.get("fb") is not None:
            op.markers.append(special.ForeverBreak(d["fb"]))
        if d.get("fc") is not None:
            op.markers.append(special.ForeverContinue(d["fc"]))
        return op
    if k == "label":
        op = special.SsbLabel(d["id"], 0)
        for i in d.get("ife") or []:
            op.add_marker(special.IfEnd(i))
        for i in d.get("swe") or []:
            op.add_marker(special.SwitchEnd(i))
        if d.get("ft"):
            op.add_marker(special.SwitchFalltrough())
        if d.get("fs") is not None:
            op.add_marker(special.ForeverStart(d["fs"]))
        for i in d.get("fe") or []:
            op.add_marker(special.ForeverEnd(i))
        op.force_write = bool(d.get("fw"))
        op.referenced_from_other_routine = bool(d.get("ref"))
        return op
    if k == "foreign":
        return special.SsbForeignLabel(special.SsbLabel(d["id"], 1))
    if k == "ljump":
        op = special.SsbLabelJump(plain(), special.SsbLabel(d["label"], 0))
        if d.get("call"):
            op.add_marker(special.CallJump())
        if d.get("ifs") is not None:
            if d.get("mops"):
                m = special.MultiIfStart(d["ifs"], [op.root] + [dt.SsbOperation(o["off"], dt.SsbOpCode(-1, o["name"]), [rsjson.param_from_json(p) for p in o["params"]]) for o in d["mops"]])
                op.unset_root()
                op.op_code.name = "ES_OR_MULTI_IF"
            else:
                m = special.IfStart(d["ifs"])
            m.is_not = bool(d.get("not"))
            op.markers.append(m)
        if d.get("fb") is not None:
            op.markers.append(special.ForeverBreak(d["fb"]))
        if d.get("fc") is not None:
            op.markers.append(special.ForeverContinue(d["fc"]))
        if d.get("fs") is not None:
            op.markers.append(special.ForeverStart(d["fs"]))
        for i in d.get("fe") or []:
            op.markers.append(special.ForeverEnd(i))
        return op
    if d.get("sws") is not None:
        # a switch op already wrapped by build_and_group_switch_cases: SsbLabelJump(op, None) with a SwitchStart marker
        op = special.SsbLabelJump(plain(), None)
        op.add_marker(special.SwitchStart(d["sws"]))
        return op
    return plain()


def _hand_built(arg_g: dict) -> tuple[Any, Any, Any]:
    from igraph import Graph
    from explorerscript.ssb_converting import ssb_special_ops as special
    from explorerscript.ssb_converting import ssb_data_types as dt
    from explorerscript.ssb_converting.decompiler.graph_building import graph_minimizer as gm
    g = Graph(directed=True)
    for i, v in enumerate(arg_g["vs"]):
        name = f"v{v['n']}" if v.get("n") is not None else (None if v.get("syn") else f"FLR<from{i}>")
        vx = g.add_vertex(name, label=None, op=_op_from_item(v, special, dt), style="solid", shape="ellipse")
        if name is None:
            vx["name"] = None        # (the attribute must exist even when the first vertex is an inserted one)
        gm.SsbGraphMinimizer._update_vertex_style(vx)
    for ed in arg_g["es"]:
        s, t, lv, loop, is_else = ed[:5]
        so = None
        if len(ed) > 5 and ed[5]:
            so = [special.SwitchCaseOperation(si, ix, dt.SsbOperation(o["off"], dt.SsbOpCode(-1, o["name"]), [rsjson.param_from_json(p) for p in o["params"]]))
                  for si, ix, o in ed[5]]
        g.add_edge(s, t, flow_level=lv, label=None, is_else=bool(is_else), switch_ops=so, loop=bool(loop))
    grapher = object.__new__(gm.SsbGraphMinimizer)
    grapher._graphs = [g]
    grapher.optimize_ending_opcodes = True
    return g, grapher, special


def switch_on_graph(arg: dict) -> dict:
    """graph-level tie of build_and_group_switch_cases / group_switch_cases: the REAL pass on a hand-built igraph graph, the
    search replaced by the given answer list (None or a list of edge ids per call).
    arg: {"g": sgraph json, "pass": "build" | "group", "answers": [...]} -> sgraph json | {"error": class}"""
    from explorerscript.ssb_converting.decompiler.graph_building import graph_minimizer as gm
    g, grapher, special = _hand_built(arg["g"])
    if arg["pass"] == "group":
        err = run_guarded(grapher, "group_switch_cases")
        return err if err else _sgraph(g, special)
    policy = arg.get("answers") if isinstance(arg.get("answers"), dict) else None
    answers = [] if policy else list(arg.get("answers") or [])
    used: list = []
    rnd = random.Random(policy["seed"]) if policy else None
    orig = gm.find_first_common_next_vertex_in_edges

    def forced(gg: Any, es: Any, *a: Any, **kw: Any) -> Any:
        if policy:
            # the answer is drawn when the search is called, on the graph as it is then (edge ids are those of that moment):
            # mostly in-edges of one label, preferably those that come from Jumps; recorded for the model
            labels = [v.index for v in gg.vs if isinstance(v["op"], special.SsbLabel) and gg.degree(v, mode="in") > 0]
            r = rnd.random()
            if r < 0.1 or gg.ecount() == 0:
                x = None
            elif r < 0.85 and labels:
                ins = [e.index for e in gg.vs[rnd.choice(labels)].in_edges()]
                fromj = [i for i in ins if isinstance(gg.es[i].source_vertex["op"], special.SsbLabelJump)]
                pool_ = fromj if fromj and rnd.random() < 0.7 else ins
                x = [rnd.choice(pool_) for _ in range(rnd.randint(1, 4))] if rnd.random() < 0.4 else rnd.sample(pool_, rnd.randint(1, len(pool_)))
                if rnd.random() < 0.1:
                    x.append(rnd.randrange(gg.ecount()))
            else:
                x = [rnd.randrange(gg.ecount()) for _ in range(rnd.randint(0, 3))]
            used.append(x)
        else:
            if not answers:
                raise OracleExhausted()
            x = answers.pop(0)
        if x is None:
            return None
        if x and max(x) >= gg.ecount():
            raise OracleEdgeMissing()
        return [gg.es[i] for i in x]

    gm.find_first_common_next_vertex_in_edges = forced
    try:
        grapher.build_and_group_switch_cases()
    except BaseException as e:  # noqa
        return dict({"error": type(e).__name__}, **({"answers_used": used} if policy else {}))
    finally:
        gm.find_first_common_next_vertex_in_edges = orig
    return dict(_sgraph(g, special), **({"answers_used": used} if policy else {}))


def switch_on_graphs(args: list[dict]) -> list[dict]:
    return [switch_on_graph(a) for a in args]


def group_on_graph(arg: dict) -> dict:
    """graph-level tie of group_branches / invert_branches: the REAL pass on a hand-built igraph graph.
    arg: {"g": bgraph json, "pass": "group" | "invert"} -> bgraph json | {"error": class}"""
    g, grapher, special = _hand_built(arg["g"])
    err = run_guarded(grapher, "group_branches" if arg["pass"] == "group" else "invert_branches")
    return err if err else _bgraph(g, special)


def group_on_graphs(args: list[dict]) -> list[dict]:
    return [group_on_graph(a) for a in args]


def branches_on_graph(arg: dict) -> dict:
    """graph-level tie of build_branches: the REAL build_branches() on a hand-built igraph graph (vertices with the
    attributes __init__ gives them, edges with the attributes _get_edges__add_edge gives them), the search it calls
    replaced by the given answer list.  arg: {"g": bgraph json, "answers": [null | [ei, ee]]} -> bgraph json | {"error"}"""
    from igraph import Graph
    from explorerscript.ssb_converting import ssb_special_ops as special
    from explorerscript.ssb_converting import ssb_data_types as dt
    from explorerscript.ssb_converting.decompiler.graph_building import graph_minimizer as gm
    g = Graph(directed=True)
    for i, v in enumerate(arg["g"]["vs"]):
        name = f"v{v['n']}" if v.get("n") is not None else f"FLR<from{i}>"
        vx = g.add_vertex(name, label=None, op=_op_from_item(v, special, dt), style="solid", shape="ellipse")
        gm.SsbGraphMinimizer._update_vertex_style(vx)
    for s, t, lv, loop, is_else in arg["g"]["es"]:
        g.add_edge(s, t, flow_level=lv, label=None, is_else=bool(is_else), switch_ops=None, loop=bool(loop))
    grapher = object.__new__(gm.SsbGraphMinimizer)
    grapher._graphs = [g]
    grapher.optimize_ending_opcodes = True
    answers = list(arg["answers"])
    orig = gm.find_first_common_next_vertex_in_edges

    def forced(gg: Any, es: Any, *a: Any, **kw: Any) -> Any:
        if not answers:
            raise OracleExhausted()
        x = answers.pop(0)
        if x is None:
            return None
        if max(x) >= gg.ecount():
            raise OracleEdgeMissing()
        return [gg.es[x[0]], gg.es[x[1]]]

    gm.find_first_common_next_vertex_in_edges = forced
    try:
        grapher.build_branches()
    except BaseException as e:  # noqa
        return {"error": type(e).__name__}
    finally:
        gm.find_first_common_next_vertex_in_edges = orig
    return _bgraph(g, special)


def branches_on_graphs(args: list[dict]) -> list[dict]:
    return [branches_on_graph(a) for a in args]


class OracleStartMarked(Exception):
    pass


def loops_on_graph(arg: dict) -> dict:
    """graph-level tie of build_switch_fallthroughs / build_loops / remove_label_markers: the REAL pass on a hand-built igraph graph.
    arg: {"g": lgraph json (labels may carry "ref": referenced_from_other_routine), "pass": "fall" | "loops" | "remove",
          "forced": null | {"seed": n}} -> lgraph json | {"error": class[, "decision": 0]}, plus the recorded oracle
    ("ft_marked" / "lp_records").  "forced" (build_loops only): the DECISION part is replaced by a seeded policy - whenever the
    outer loop asks `_build_loops__try_loop` (a vertex with a loop in-edge and no marker), the policy accepts with probability 1/2
    and names continue edges (mostly the loop in-edges of the vertex) and break edges (any edges) of the graph as it is then;
    `is_reachable_when_removing` says False - so that the REWRITING part meets sources / targets real decisions never choose."""
    from explorerscript.ssb_converting.decompiler.graph_building import graph_minimizer as gm
    g, grapher, special = _hand_built(arg["g"])
    ps = arg["pass"]
    if ps == "fall":
        before = _lgraph(g, special)
        if arg.get("forced"):
            # (on its own the pass never marks anything: the path it hands to has_unclosed_blocks starts at the switch vertex, whose
            # SwitchStart counts as an unclosed block; with that decision replaced the marking code is reached)
            orig_hub = gm.has_unclosed_blocks
            gm.has_unclosed_blocks = lambda *a, **kw: False
            try:
                err = run_guarded(grapher, "build_switch_fallthroughs")
            finally:
                gm.has_unclosed_blocks = orig_hub
        else:
            err = run_guarded(grapher, "build_switch_fallthroughs")
        if err:
            return dict(err, ft_marked=[])
        after = _lgraph(g, special)
        marked = [i for i, (x, y) in enumerate(zip(before["vs"], after["vs"])) for _ in range(y["ftn"] - x["ftn"])]
        return dict(_strip_ftn([after])[0], ft_marked=marked)
    if ps == "remove":
        err = run_guarded(grapher, "remove_label_markers")
        return err if err else _strip_ftn([_lgraph(g, special)])[0]
    forced = arg.get("forced")
    witness = arg.get("witness")
    if witness:
        # the decision part replaced by a given list of constructions (the witnesses of the Lean theorems)
        todo = [list(r) for r in witness["records"]]
        orig_try = gm.SsbGraphMinimizer._build_loops__try_loop
        orig_reach = gm.is_reachable_when_removing

        def try_given(self: Any, start: Any) -> Any:
            if todo and todo[0][0] == start.index:
                _v0, bs, cs = todo.pop(0)
                return True, [start.graph.es[i] for i in bs], [start.graph.es[i] for i in cs]
            return False, None, None

        gm.SsbGraphMinimizer._build_loops__try_loop = try_given
        gm.is_reachable_when_removing = lambda *a, **kw: False
        try:
            records, err = loops_recorded(grapher)
        finally:
            gm.SsbGraphMinimizer._build_loops__try_loop = orig_try
            gm.is_reachable_when_removing = orig_reach
    elif forced:
        rnd = random.Random(forced["seed"])
        budget = {"n": 4}
        orig_try = gm.SsbGraphMinimizer._build_loops__try_loop
        orig_reach = gm.is_reachable_when_removing

        def try_loop(self: Any, start: Any) -> Any:
            gg = start.graph
            if budget["n"] <= 0 or rnd.random() < 0.5 or gg.ecount() == 0:
                return False, None, None
            budget["n"] -= 1
            conts = [e for e in start.in_edges() if e["loop"]]
            if rnd.random() < 0.25:
                conts = [gg.es[rnd.randrange(gg.ecount())] for _ in range(rnd.randint(0, 2))]
            r = rnd.random()
            nb = 0 if r < 0.15 else (1 if r < 0.6 else rnd.randint(2, 3))
            brs = []
            for _ in range(nb):
                e = gg.es[rnd.randrange(gg.ecount())]
                if all(e.index != x.index for x in conts + brs) or rnd.random() < 0.05:
                    brs.append(e)
            return True, brs, conts

        gm.SsbGraphMinimizer._build_loops__try_loop = try_loop
        gm.is_reachable_when_removing = lambda *a, **kw: False
        try:
            records, err = loops_recorded(grapher)
        finally:
            gm.SsbGraphMinimizer._build_loops__try_loop = orig_try
            gm.is_reachable_when_removing = orig_reach
    else:
        records, err = loops_recorded(grapher)
    if err:
        return dict(err, lp_records=records[0])
    return dict(_strip_ftn([_lgraph(g, special)])[0], lp_records=records[0])


def loops_on_graphs(args: list[dict]) -> list[dict]:
    return [loops_on_graph(a) for a in args]
