"""Implementation adapter for the front phases of the ExplorerScript decompiler (run inside workers):
label resolution (OpsLabelJumpToResolver / process_op_for_jump) and the base control-flow graph
(SsbGraphMinimizer.__init__), dumped in the JSON form of lean/Driver/Decomp.lean (`decomp.front`)."""
from __future__ import annotations

import random
from typing import Any

from . import rsjson


def _item(op: Any, special: Any) -> dict:
    if isinstance(op, special.SsbLabel):
        return {"k": "label", "id": op.id}
    if isinstance(op, special.SsbForeignLabel):
        return {"k": "foreign", "id": op.label.id}
    if isinstance(op, special.SsbLabelJump):
        r = op.maybe_root
        if r is None:
            # a multi-if (group_branches): the root is unset, the root ops are in the MultiIfStart marker, the original one first
            r = next(m for m in op.markers if isinstance(m, special.MultiIfStart)).original_ssb_ifs_ops[0]
        return {"k": "ljump", "off": r.offset, "name": r.op_code.name, "params": [rsjson.param_to_json(p) for p in r.params],
                "label": op.label.id, "call": any(isinstance(m, special.CallJump) for m in op.markers)}
    return {"k": "op", "off": op.offset, "name": op.op_code.name, "params": [rsjson.param_to_json(p) for p in op.params]}


def front(arg: dict) -> dict:
    """arg: {"rs": routine set json} -> labels, interleaved routines, base graphs of the real code.
    An exception gives {"error": class, "stage": "resolve"|"graph"} (plus what was computed before it)."""
    from explorerscript.ssb_converting import ssb_special_ops as special
    from explorerscript.ssb_converting.decompiler.label_jump_to_resolver import OpsLabelJumpToResolver
    from explorerscript.ssb_converting.decompiler.graph_building.graph_minimizer import SsbGraphMinimizer
    _infos, ops, _coros = rsjson.rs_from_json(arg["rs"])
    try:
        resolver = OpsLabelJumpToResolver(ops)
        rtns = list(resolver)
    except BaseException as e:  # noqa
        return {"error": type(e).__name__, "stage": "resolve"}
    out: dict = {
        "labels": [[off, l.id, l.routine_id, bool(l.referenced_from_other_routine)] for off, l in resolver.labels.items()],
        "rtns": [[_item(o, special) for o in r] for r in rtns],
    }
    has_calls = any(any(isinstance(op, special.SsbLabelJump) and any(isinstance(x, special.CallJump) for x in op.markers) for op in rtn) for rtn in rtns)
    out["has_calls"] = has_calls
    try:
        grapher = SsbGraphMinimizer(rtns, not has_calls)
    except BaseException as e:  # noqa
        out["error"] = type(e).__name__
        out["stage"] = "graph"
        return out
    gs = []
    for g in grapher.get_graphs():
        gs.append({"vs": [_item(v["op"], special) for v in g.vs],
                   "es": [[e.source, e.target, e["flow_level"], bool(e["loop"])] for e in g.es]})
    out["graphs"] = gs
    # first rewriting phase
    try:
        grapher.optimize_paths()
        out["opt"] = [{"vs": [_item(v["op"], special) for v in g.vs],
                       "es": [[e.source, e.target, e["flow_level"], bool(e["loop"])] for e in g.es]} for g in grapher.get_graphs()]
    except BaseException as e:  # noqa
        out["opt"] = {"error": type(e).__name__}
        return out
    out["opt_names"] = [[_vname(v) for v in g.vs] for g in grapher.get_graphs()]
    # second rewriting phase: build_branches, with the answers of the heuristic search it calls recorded from outside
    answers, bb = build_branches_recorded(grapher)
    out["answers"] = answers
    if "error" in bb:
        out["bb"] = bb
        return out
    out["bb"] = [_bgraph(g, special) for g in grapher.get_graphs()]
    # third and fourth rewriting phase: group_branches, invert_branches (deterministic, modelled without an oracle)
    err = run_guarded(grapher, "group_branches")
    if err:
        out["gb"] = err
        return out
    out["gb"] = [_bgraph(g, special) for g in grapher.get_graphs()]
    err = run_guarded(grapher, "invert_branches")
    if err:
        out["ib"] = err
        return out
    out["ib"] = [_bgraph(g, special) for g in grapher.get_graphs()]
    # fifth and sixth rewriting phase: build_and_group_switch_cases (search answers recorded), group_switch_cases
    sw_answers, err = search_recorded(grapher, "build_and_group_switch_cases")
    out["sw_answers"] = sw_answers
    if err:
        out["sc"] = err
        return out
    out["sc"] = [_sgraph(g, special) for g in grapher.get_graphs()]
    err = run_guarded(grapher, "group_switch_cases")
    if err:
        out["gs"] = err
        return out
    out["gs"] = [_sgraph(g, special) for g in grapher.get_graphs()]
    return out


class Hang(Exception):
    """the while loop of group_branches has run more rounds for one vertex than the graph has vertices + 1: from then on it
    repeats itself for ever (the chain of else-successors is in a cycle that avoids the vertex); the model answers "Hang"."""


def run_guarded(grapher: Any, phase: str) -> dict:
    """runs the real phase; {} or {"error": class}.  The loop condition of group_branches is counted from outside."""
    from explorerscript.ssb_converting.decompiler.graph_building import graph_minimizer as gm
    orig = gm.SsbGraphMinimizer.__dict__["_group_branches__is_if_group_possible"]
    state: dict = {"key": None, "n": 0}

    def counted(base_edge: Any, v_to_check: Any) -> bool:
        key = (id(v_to_check.graph), base_edge.source)
        if state["key"] != key:
            state["key"], state["n"] = key, 0
        state["n"] += 1
        if state["n"] > v_to_check.graph.vcount() + 1:
            raise Hang()
        return orig.__func__(base_edge, v_to_check)

    gm.SsbGraphMinimizer._group_branches__is_if_group_possible = staticmethod(counted)
    try:
        getattr(grapher, phase)()
    except BaseException as e:  # noqa
        return {"error": type(e).__name__}
    finally:
        gm.SsbGraphMinimizer._group_branches__is_if_group_possible = orig
    return {}


def _vname(v: Any) -> Any:
    """the igraph vertex attribute "name": "v<i>" -> i, anything else ("FLR<from…>") -> None"""
    n = v["name"]
    if isinstance(n, str) and n[:1] == "v" and n[1:].isdigit():
        return int(n[1:])
    return None


def _bvertex(v: Any, special: Any, markers: Any = None) -> dict:
    d = _item(v["op"], special)
    op = v["op"]
    d["n"] = _vname(v)
    ifs, ife = None, []
    d["mops"], d["not"], d["multi"] = [], False, False
    if isinstance(op, special.SsbLabelJump):
        for m in op.markers:
            if isinstance(m, special.IfStart):
                ifs = m.if_id
                d["not"] = bool(m.is_not)
                if isinstance(m, special.MultiIfStart):
                    d["mops"] = [{"off": o.offset, "name": o.op_code.name, "params": [rsjson.param_to_json(p) for p in o.params]}
                                 for o in m.original_ssb_ifs_ops[1:]]
            elif not isinstance(m, special.CallJump):
                ifs = "?" + type(m).__name__
        # the three facts that make a Python object a multi-if must agree: marker class, root unset, opcode renamed
        facts = {any(isinstance(m, special.MultiIfStart) for m in op.markers), op.maybe_root is None, op.op_code.name == "ES_OR_MULTI_IF"}
        d["multi"] = facts.pop() if len(facts) == 1 else "?inconsistent"
        if d["multi"] is False and op.op_code.name != f"ES_JUMP<{op.root.op_code.name}>":
            d["multi"] = "?opname " + op.op_code.name
    elif isinstance(op, special.SsbLabel):
        for m in (op.markers if markers is None else markers):
            ife.append(m.if_id if isinstance(m, special.IfEnd) else "?" + type(m).__name__)
    d["ifs"] = ifs
    d["ife"] = ife
    return d


def _bgraph(g: Any, special: Any) -> dict:
    return {"vs": [_bvertex(v, special) for v in g.vs],
            "es": [[e.source, e.target, e["flow_level"], bool(e["loop"]), bool(e["is_else"])] for e in g.es]}


def _mop(o: Any) -> dict:
    return {"off": o.offset, "name": o.op_code.name, "params": [rsjson.param_to_json(p) for p in o.params]}


def _sgraph(g: Any, special: Any) -> dict:
    """a graph from build_and_group_switch_cases on: _bgraph plus the switch markers ("sws": SwitchStart id of a wrapped switch
    op - dumped as kind "op" -, "swe": SwitchEnd ids of a label) and the switch_ops of every edge as sixth entry"""
    vs = []
    for v in g.vs:
        op = v["op"]
        if isinstance(op, special.SsbLabelJump) and op.label is None:
            # SsbLabelJump(op, None): a switch op wrapped by build_and_group_switch_cases
            r = op.maybe_root
            d = dict({"k": "op"}, **_mop(r)) if r is not None else {"k": "?rootless"}
            d.update({"n": _vname(v), "ifs": None, "ife": [], "mops": [], "not": False, "multi": False, "swe": []})
            ms = op.markers
            d["sws"] = ms[0].switch_id if len(ms) == 1 and isinstance(ms[0], special.SwitchStart) else "?" + ",".join(type(m).__name__ for m in ms)
            if r is not None and op.op_code.name != f"ES_JUMP<{r.op_code.name}>":
                d["sws"] = "?opname " + op.op_code.name
        else:
            swe = []
            if isinstance(op, special.SsbLabel):
                # IfEnd and SwitchEnd markers are dumped as two lists (their interleaving is read by no modelled pass)
                keep = [m for m in op.markers if not isinstance(m, special.SwitchEnd)]
                swe = [m.switch_id for m in op.markers if isinstance(m, special.SwitchEnd)]
                d = _bvertex(v, special, markers=keep)
            else:
                d = _bvertex(v, special)
            d["sws"] = None
            d["swe"] = swe
        vs.append(d)
    es = []
    for e in g.es:
        so = e["switch_ops"]
        es.append([e.source, e.target, e["flow_level"], bool(e["loop"]), bool(e["is_else"]),
                   "?empty" if so == [] else [[o.switch_index, o.index, _mop(o.op)] for o in (so or [])]])
    return {"vs": vs, "es": es}


def search_recorded(grapher: Any, phase: str) -> tuple[list, dict]:
    """runs a real phase that calls the heuristic search find_first_common_next_vertex_in_edges (an ORACLE of the model);
    its answers are recorded per graph, in call order (None or the ids of the returned edges at the time of return).
    Returns (answers per graph, {} or {"error": class[, "oracle_raised": True]})."""
    from explorerscript.ssb_converting.decompiler.graph_building import graph_minimizer as gm
    graphs = list(grapher.get_graphs())
    answers: list[list] = [[] for _ in graphs]
    state = {"oracle_raised": False}
    orig = gm.find_first_common_next_vertex_in_edges

    def recorder(g: Any, es: Any, *a: Any, **kw: Any) -> Any:
        k = next(i for i, gg in enumerate(graphs) if gg is g)
        try:
            res = orig(g, es, *a, **kw)
        except BaseException:
            state["oracle_raised"] = True
            raise
        answers[k].append(None if res is None else [e.index for e in res])
        return res

    gm.find_first_common_next_vertex_in_edges = recorder
    try:
        getattr(grapher, phase)()
    except BaseException as e:  # noqa
        r = {"error": type(e).__name__}
        if state["oracle_raised"]:
            r["oracle_raised"] = True
        return answers, r
    finally:
        gm.find_first_common_next_vertex_in_edges = orig
    return answers, {}


def build_branches_recorded(grapher: Any) -> tuple[list, dict]:
    """runs the real build_branches(); the heuristic search find_first_common_next_vertex_in_edges is an ORACLE of the
    model: its answers are recorded per graph, in call order, by wrapping the name in the namespace of graph_minimizer
    for the duration of the call (None or the ids of the two edges at the time of return).
    Returns (answers per graph, {} or {"error": class[, "oracle_raised": True]})."""
    from explorerscript.ssb_converting.decompiler.graph_building import graph_minimizer as gm
    graphs = list(grapher.get_graphs())
    answers: list[list] = [[] for _ in graphs]
    state = {"oracle_raised": False}
    orig = gm.find_first_common_next_vertex_in_edges

    def recorder(g: Any, es: Any, *a: Any, **kw: Any) -> Any:
        k = next(i for i, gg in enumerate(graphs) if gg is g)
        try:
            res = orig(g, es, *a, **kw)
        except BaseException:
            state["oracle_raised"] = True
            raise
        answers[k].append(None if res is None else [e.index for e in res])
        return res

    gm.find_first_common_next_vertex_in_edges = recorder
    try:
        grapher.build_branches()
    except BaseException as e:  # noqa
        r = {"error": type(e).__name__}
        if state["oracle_raised"]:
            r["oracle_raised"] = True
        return answers, r
    finally:
        gm.find_first_common_next_vertex_in_edges = orig
    return answers, {}


def front_many(args: list[dict]) -> list[dict]:
    return [front(a) for a in args]


def igraph_order_selftest(arg: dict) -> dict:
    """the environment model of lean/ESV/Decomp/Model.lean: Vertex.out_edges() / in_edges() deliver edges in ascending
    id of the other end, then descending edge id; delete_edges / delete_vertices compact ids preserving order.
    Re-measured against the installed igraph on random graphs."""
    from igraph import Graph
    rng = random.Random(arg.get("seed", 0))
    bad = []
    n_graphs = arg.get("n", 200)
    for trial in range(n_graphs):
        g = Graph(directed=True)
        g.add_vertices(rng.randint(1, 6))
        # mirror: list of (src, dst, tag) by edge id, list of vertex tags by vertex id
        es: list[tuple[int, int, int]] = []
        vs = list(range(g.vcount()))
        tag = 0
        for _ in range(rng.randint(0, 25)):
            r = rng.random()
            if r < 0.7 or not es:
                s, t = rng.randrange(len(vs)), rng.randrange(len(vs))
                g.add_edge(s, t, tag=tag)
                es.append((s, t, tag))
                tag += 1
            elif r < 0.85:
                i = rng.randrange(len(es))
                g.delete_edges([i])
                del es[i]
            elif len(vs) > 1:
                v = rng.randrange(len(vs))
                g.delete_vertices([v])
                del vs[v]
                es = [(s - (s > v), t - (t > v), x) for (s, t, x) in es if s != v and t != v]
        if [(e.source, e.target, e["tag"]) for e in g.es] != es:
            bad.append(["edge list", trial])
        for v in g.vs:
            out = [e.index for e in v.out_edges()]
            exp = sorted([i for i, e in enumerate(es) if e[0] == v.index], key=lambda i: (es[i][1], -i))
            inn = [e.index for e in v.in_edges()]
            expi = sorted([i for i, e in enumerate(es) if e[1] == v.index], key=lambda i: (es[i][0], -i))
            if out != exp or inn != expi:
                bad.append(["incident order", trial, v.index, out, exp, inn, expi])
    return {"graphs": n_graphs, "bad": bad[:5]}


class OracleExhausted(Exception):
    pass


class OracleEdgeMissing(Exception):
    pass


def _op_from_item(d: dict, special: Any, dt: Any) -> Any:
    def plain() -> Any:
        return dt.SsbOperation(d["off"], dt.SsbOpCode(-1, d["name"]), [rsjson.param_from_json(p) for p in d["params"]])
    k = d["k"]
    if k == "label":
        op = special.SsbLabel(d["id"], 0)
        for i in d.get("ife") or []:
            op.add_marker(special.IfEnd(i))
        for i in d.get("swe") or []:
            op.add_marker(special.SwitchEnd(i))
        return op
    if k == "foreign":
        return special.SsbForeignLabel(special.SsbLabel(d["id"], 1))
    if k == "ljump":
        op = special.SsbLabelJump(plain(), special.SsbLabel(d["label"], 0))
        if d.get("call"):
            op.add_marker(special.CallJump())
        if d.get("ifs") is not None:
            if d.get("mops"):
                m = special.MultiIfStart(d["ifs"], [op.root] + [dt.SsbOperation(o["off"], dt.SsbOpCode(-1, o["name"]), [rsjson.param_from_json(p) for p in o["params"]]) for o in d["mops"]])
                op.unset_root()
                op.op_code.name = "ES_OR_MULTI_IF"
            else:
                m = special.IfStart(d["ifs"])
            m.is_not = bool(d.get("not"))
            op.markers.append(m)
        return op
    if d.get("sws") is not None:
        # a switch op already wrapped by build_and_group_switch_cases: SsbLabelJump(op, None) with a SwitchStart marker
        op = special.SsbLabelJump(plain(), None)
        op.add_marker(special.SwitchStart(d["sws"]))
        return op
    return plain()


def _hand_built(arg_g: dict) -> tuple[Any, Any, Any]:
    from igraph import Graph
    from explorerscript.ssb_converting import ssb_special_ops as special
    from explorerscript.ssb_converting import ssb_data_types as dt
    from explorerscript.ssb_converting.decompiler.graph_building import graph_minimizer as gm
    g = Graph(directed=True)
    for i, v in enumerate(arg_g["vs"]):
        name = f"v{v['n']}" if v.get("n") is not None else f"FLR<from{i}>"
        vx = g.add_vertex(name, label=None, op=_op_from_item(v, special, dt), style="solid", shape="ellipse")
        gm.SsbGraphMinimizer._update_vertex_style(vx)
    for ed in arg_g["es"]:
        s, t, lv, loop, is_else = ed[:5]
        so = None
        if len(ed) > 5 and ed[5]:
            so = [special.SwitchCaseOperation(si, ix, dt.SsbOperation(o["off"], dt.SsbOpCode(-1, o["name"]), [rsjson.param_from_json(p) for p in o["params"]]))
                  for si, ix, o in ed[5]]
        g.add_edge(s, t, flow_level=lv, label=None, is_else=bool(is_else), switch_ops=so, loop=bool(loop))
    grapher = object.__new__(gm.SsbGraphMinimizer)
    grapher._graphs = [g]
    grapher.optimize_ending_opcodes = True
    return g, grapher, special


def switch_on_graph(arg: dict) -> dict:
    """graph-level tie of build_and_group_switch_cases / group_switch_cases: the REAL pass on a hand-built igraph graph, the
    search replaced by the given answer list (None or a list of edge ids per call).
    arg: {"g": sgraph json, "pass": "build" | "group", "answers": [...]} -> sgraph json | {"error": class}"""
    from explorerscript.ssb_converting.decompiler.graph_building import graph_minimizer as gm
    g, grapher, special = _hand_built(arg["g"])
    if arg["pass"] == "group":
        err = run_guarded(grapher, "group_switch_cases")
        return err if err else _sgraph(g, special)
    policy = arg.get("answers") if isinstance(arg.get("answers"), dict) else None
    answers = [] if policy else list(arg.get("answers") or [])
    used: list = []
    rnd = random.Random(policy["seed"]) if policy else None
    orig = gm.find_first_common_next_vertex_in_edges

    def forced(gg: Any, es: Any, *a: Any, **kw: Any) -> Any:
        if policy:
            # the answer is drawn when the search is called, on the graph as it is then (edge ids are those of that moment):
            # mostly in-edges of one label, preferably those that come from Jumps; recorded for the model
            labels = [v.index for v in gg.vs if isinstance(v["op"], special.SsbLabel) and gg.degree(v, mode="in") > 0]
            r = rnd.random()
            if r < 0.1 or gg.ecount() == 0:
                x = None
            elif r < 0.85 and labels:
                ins = [e.index for e in gg.vs[rnd.choice(labels)].in_edges()]
                fromj = [i for i in ins if isinstance(gg.es[i].source_vertex["op"], special.SsbLabelJump)]
                pool_ = fromj if fromj and rnd.random() < 0.7 else ins
                x = [rnd.choice(pool_) for _ in range(rnd.randint(1, 4))] if rnd.random() < 0.4 else rnd.sample(pool_, rnd.randint(1, len(pool_)))
                if rnd.random() < 0.1:
                    x.append(rnd.randrange(gg.ecount()))
            else:
                x = [rnd.randrange(gg.ecount()) for _ in range(rnd.randint(0, 3))]
            used.append(x)
        else:
            if not answers:
                raise OracleExhausted()
            x = answers.pop(0)
        if x is None:
            return None
        if x and max(x) >= gg.ecount():
            raise OracleEdgeMissing()
        return [gg.es[i] for i in x]

    gm.find_first_common_next_vertex_in_edges = forced
    try:
        grapher.build_and_group_switch_cases()
    except BaseException as e:  # noqa
        return dict({"error": type(e).__name__}, **({"answers_used": used} if policy else {}))
    finally:
        gm.find_first_common_next_vertex_in_edges = orig
    return dict(_sgraph(g, special), **({"answers_used": used} if policy else {}))


def switch_on_graphs(args: list[dict]) -> list[dict]:
    return [switch_on_graph(a) for a in args]


def group_on_graph(arg: dict) -> dict:
    """graph-level tie of group_branches / invert_branches: the REAL pass on a hand-built igraph graph.
    arg: {"g": bgraph json, "pass": "group" | "invert"} -> bgraph json | {"error": class}"""
    g, grapher, special = _hand_built(arg["g"])
    err = run_guarded(grapher, "group_branches" if arg["pass"] == "group" else "invert_branches")
    return err if err else _bgraph(g, special)


def group_on_graphs(args: list[dict]) -> list[dict]:
    return [group_on_graph(a) for a in args]


def branches_on_graph(arg: dict) -> dict:
    """graph-level tie of build_branches: the REAL build_branches() on a hand-built igraph graph (vertices with the
    attributes __init__ gives them, edges with the attributes _get_edges__add_edge gives them), the search it calls
    replaced by the given answer list.  arg: {"g": bgraph json, "answers": [null | [ei, ee]]} -> bgraph json | {"error"}"""
    from igraph import Graph
    from explorerscript.ssb_converting import ssb_special_ops as special
    from explorerscript.ssb_converting import ssb_data_types as dt
    from explorerscript.ssb_converting.decompiler.graph_building import graph_minimizer as gm
    g = Graph(directed=True)
    for i, v in enumerate(arg["g"]["vs"]):
        name = f"v{v['n']}" if v.get("n") is not None else f"FLR<from{i}>"
        vx = g.add_vertex(name, label=None, op=_op_from_item(v, special, dt), style="solid", shape="ellipse")
        gm.SsbGraphMinimizer._update_vertex_style(vx)
    for s, t, lv, loop, is_else in arg["g"]["es"]:
        g.add_edge(s, t, flow_level=lv, label=None, is_else=bool(is_else), switch_ops=None, loop=bool(loop))
    grapher = object.__new__(gm.SsbGraphMinimizer)
    grapher._graphs = [g]
    grapher.optimize_ending_opcodes = True
    answers = list(arg["answers"])
    orig = gm.find_first_common_next_vertex_in_edges

    def forced(gg: Any, es: Any, *a: Any, **kw: Any) -> Any:
        if not answers:
            raise OracleExhausted()
        x = answers.pop(0)
        if x is None:
            return None
        if max(x) >= gg.ecount():
            raise OracleEdgeMissing()
        return [gg.es[x[0]], gg.es[x[1]]]

    gm.find_first_common_next_vertex_in_edges = forced
    try:
        grapher.build_branches()
    except BaseException as e:  # noqa
        return {"error": type(e).__name__}
    finally:
        gm.find_first_common_next_vertex_in_edges = orig
    return _bgraph(g, special)


def branches_on_graphs(args: list[dict]) -> list[dict]:
    return [branches_on_graph(a) for a in args]
