"""Implementation adapter for the front phases of the ExplorerScript decompiler (run inside workers):
label resolution (OpsLabelJumpToResolver / process_op_for_jump) and the base control-flow graph
(SsbGraphMinimizer.__init__), dumped in the JSON form of lean/Driver/Decomp.lean (`decomp.front`)."""
from __future__ import annotations

import random
from typing import Any

from . import rsjson


def _item(op: Any, special: Any) -> dict:
    if isinstance(op, special.SsbLabel):
        return {"k": "label", "id": op.id}
    if isinstance(op, special.SsbForeignLabel):
        return {"k": "foreign", "id": op.label.id}
    if isinstance(op, special.SsbLabelJump):
        r = op.root
        return {"k": "ljump", "off": r.offset, "name": r.op_code.name, "params": [rsjson.param_to_json(p) for p in r.params],
                "label": op.label.id, "call": any(isinstance(m, special.CallJump) for m in op.markers)}
    return {"k": "op", "off": op.offset, "name": op.op_code.name, "params": [rsjson.param_to_json(p) for p in op.params]}


def front(arg: dict) -> dict:
    """arg: {"rs": routine set json} -> labels, interleaved routines, base graphs of the real code.
    An exception gives {"error": class, "stage": "resolve"|"graph"} (plus what was computed before it)."""
    from explorerscript.ssb_converting import ssb_special_ops as special
    from explorerscript.ssb_converting.decompiler.label_jump_to_resolver import OpsLabelJumpToResolver
    from explorerscript.ssb_converting.decompiler.graph_building.graph_minimizer import SsbGraphMinimizer
    _infos, ops, _coros = rsjson.rs_from_json(arg["rs"])
    try:
        resolver = OpsLabelJumpToResolver(ops)
        rtns = list(resolver)
    except BaseException as e:  # noqa
        return {"error": type(e).__name__, "stage": "resolve"}
    out: dict = {
        "labels": [[off, l.id, l.routine_id, bool(l.referenced_from_other_routine)] for off, l in resolver.labels.items()],
        "rtns": [[_item(o, special) for o in r] for r in rtns],
    }
    has_calls = any(any(isinstance(op, special.SsbLabelJump) and any(isinstance(x, special.CallJump) for x in op.markers) for op in rtn) for rtn in rtns)
    out["has_calls"] = has_calls
    try:
        grapher = SsbGraphMinimizer(rtns, not has_calls)
    except BaseException as e:  # noqa
        out["error"] = type(e).__name__
        out["stage"] = "graph"
        return out
    gs = []
    for g in grapher.get_graphs():
        gs.append({"vs": [_item(v["op"], special) for v in g.vs],
                   "es": [[e.source, e.target, e["flow_level"], bool(e["loop"])] for e in g.es]})
    out["graphs"] = gs
    # first rewriting phase
    try:
        grapher.optimize_paths()
        out["opt"] = [{"vs": [_item(v["op"], special) for v in g.vs],
                       "es": [[e.source, e.target, e["flow_level"], bool(e["loop"])] for e in g.es]} for g in grapher.get_graphs()]
    except BaseException as e:  # noqa
        out["opt"] = {"error": type(e).__name__}
    return out


def front_many(args: list[dict]) -> list[dict]:
    return [front(a) for a in args]


def igraph_order_selftest(arg: dict) -> dict:
    """the environment model of lean/ESV/Decomp/Model.lean: Vertex.out_edges() / in_edges() deliver edges in ascending
    id of the other end, then descending edge id; delete_edges / delete_vertices compact ids preserving order.
    Re-measured against the installed igraph on random graphs."""
    from igraph import Graph
    rng = random.Random(arg.get("seed", 0))
    bad = []
    n_graphs = arg.get("n", 200)
    for trial in range(n_graphs):
        g = Graph(directed=True)
        g.add_vertices(rng.randint(1, 6))
        # mirror: list of (src, dst, tag) by edge id, list of vertex tags by vertex id
        es: list[tuple[int, int, int]] = []
        vs = list(range(g.vcount()))
        tag = 0
        for _ in range(rng.randint(0, 25)):
            r = rng.random()
            if r < 0.7 or not es:
                s, t = rng.randrange(len(vs)), rng.randrange(len(vs))
                g.add_edge(s, t, tag=tag)
                es.append((s, t, tag))
                tag += 1
            elif r < 0.85:
                i = rng.randrange(len(es))
                g.delete_edges([i])
                del es[i]
            elif len(vs) > 1:
                v = rng.randrange(len(vs))
                g.delete_vertices([v])
                del vs[v]
                es = [(s - (s > v), t - (t > v), x) for (s, t, x) in es if s != v and t != v]
        if [(e.source, e.target, e["tag"]) for e in g.es] != es:
            bad.append(["edge list", trial])
        for v in g.vs:
            out = [e.index for e in v.out_edges()]
            exp = sorted([i for i, e in enumerate(es) if e[0] == v.index], key=lambda i: (es[i][1], -i))
            inn = [e.index for e in v.in_edges()]
            expi = sorted([i for i, e in enumerate(es) if e[1] == v.index], key=lambda i: (es[i][0], -i))
            if out != exp or inn != expi:
                bad.append(["incident order", trial, v.index, out, exp, inn, expi])
    return {"graphs": n_graphs, "bad": bad[:5]}
