"""Implementation adapter for explorerscript.source_map (runs inside a worker)."""
from __future__ import annotations

import copy
import json
from typing import Any


def sm_from_wire(w: dict) -> Any:
    from explorerscript.source_map import SourceMap, SourceMapping, MacroSourceMapping, SourceMapPositionMark
    return SourceMap(
        {k: SourceMapping(v[0], v[1]) for k, v in w["map"]},
        [SourceMapPositionMark(*p) for p in w["pos_marks"]],
        {k: MacroSourceMapping(v[0], v[1], v[2], v[3], tuple(v[4]) if v[4] is not None else None, v[5], dict(v[6])) for k, v in w["macros"]},
        [(y[0], y[1], SourceMapPositionMark(*y[2])) for y in w["pos_marks_macro"]],
    )


def pm_to_wire(p: Any) -> list:
    return [p.line_number, p.column_number, p.end_line_number, p.end_column_number, p.name, p.x_offset, p.y_offset, p.x_relative, p.y_relative]


def sm_to_wire(m: Any) -> dict:
    return {
        "map": [[k, [v.line, v.column]] for k, v in m._mappings.items()],
        "pos_marks": [pm_to_wire(p) for p in m._position_marks],
        "macros": [[k, [v.relpath_included_file, v.macro_name, v.line, v.column,
                        list(v.called_in) if v.called_in is not None else None, v.return_addr,
                        [[pk, pv] for pk, pv in v.parameter_mapping.items()]]] for k, v in m._mappings_macros.items()],
        "pos_marks_macro": [[y[0], y[1], pm_to_wire(y[2])] for y in m._position_marks_macro],
    }


def j_to_wire(v: Any) -> Any:
    """json value parsed with object_pairs_hook=list-of-pairs marker -> order preserving wire form"""
    if isinstance(v, _Obj):
        return {"o": [[k, j_to_wire(x)] for k, x in v.items]}
    if isinstance(v, list):
        return {"a": [j_to_wire(x) for x in v]}
    return v


class _Obj:
    def __init__(self, items: list):
        self.items = items


def parse_ordered(text: str) -> Any:
    return j_to_wire(json.loads(text, object_pairs_hook=_Obj))


def run_cases(cases: list[dict]) -> list[dict]:
    """For each case {sm, f}: serialize, deserialize, equality, reserialize, rewrite (on a fresh copy)."""
    from explorerscript.source_map import SourceMap
    out = []
    for c in cases:
        r: dict = {}
        try:
            m = sm_from_wire(c["sm"])
            text = m.serialize()
            r["ser"] = parse_ordered(text)
            m2 = SourceMap.deserialize(text)
            r["deser"] = sm_to_wire(m2)
            r["eq"] = bool(m2 == m)
            r["eq_rev"] = bool(m == m2)
            r["ne"] = bool(m2 != m)
            r["reser_same"] = (m2.serialize() == text)
            r["pretty_same"] = (sm_to_wire(SourceMap.deserialize(m.serialize(pretty=True))) == r["deser"])
            m3 = sm_from_wire(c["sm"])
            m3.rewrite_offsets({k: v for k, v in c["f"]})
            r["rewrite"] = sm_to_wire(m3)
            # rewriting the deserialised object must behave the same
            m2.rewrite_offsets({k: v for k, v in c["f"]})
            r["rewrite_deser"] = sm_to_wire(m2)
        except BaseException as e:  # noqa
            import traceback
            r["exc"] = type(e).__name__ + ": " + str(e)[:200]
            r["tb"] = traceback.format_exc()[-800:]
        out.append(r)
    return out


def run_histories(cases: list[dict]) -> list[dict]:
    """For each case {sm, steps}: one SourceMap object goes through the whole operation sequence (serialize, pretty, str,
    rewrite_offsets, deserialize of its own text, equality); after every step its observable content is compared with a FRESH
    object built from the same content going through that single step (the functional reading of the property, which is what
    the Lean model states). Returns the first step at which they differ."""
    from explorerscript.source_map import SourceMap
    out = []
    for c in cases:
        r: dict = {"steps": len(c["steps"])}
        try:
            m = sm_from_wire(c["sm"])
            for i, st in enumerate(c["steps"]):
                before = sm_to_wire(m)
                fresh = sm_from_wire(copy.deepcopy(before))
                op = st[0]
                if op == "ser":
                    a, b = m.serialize(), fresh.serialize()
                elif op == "pretty":
                    a, b = m.serialize(pretty=True), fresh.serialize(pretty=True)
                elif op == "str":
                    a, b = str(m), str(fresh)
                elif op == "rewrite":
                    f = {k: v for k, v in st[1]}
                    m.rewrite_offsets(dict(f))
                    fresh.rewrite_offsets(dict(f))
                    a, b = sm_to_wire(m), sm_to_wire(fresh)
                elif op == "reread":
                    # store and read back: the map read back must have the content the object has NOW
                    a, b = sm_to_wire(SourceMap.deserialize(m.serialize())), before
                elif op == "eq":
                    a, b = [bool(m == fresh), bool(fresh == m), bool(m != fresh)], [True, True, False]
                else:
                    raise ValueError(op)
                if a != b:
                    r["diverged"] = {"step": i, "op": op, "history_object": a if not isinstance(a, str) else a[:2000],
                                     "fresh_object": b if not isinstance(b, str) else b[:2000]}
                    break
        except BaseException as e:  # noqa
            import traceback
            r["exc"] = type(e).__name__ + ": " + str(e)[:200]
            r["tb"] = traceback.format_exc()[-800:]
        out.append(r)
    return out


COMPILED_TEXTS = [
    # several ops at one source position inside a macro (inline context = context op + operation), expanded more than once
    "macro who($who) {\n    a(1);\n    Turn<actor $who>(1);\n    b();\n}\ndef 0 {\n    ~who(2);\n    if ($X == 1) {\n        ~who(3);\n    }\n    c();\n    ~who(4);\n    end;\n}\n",
    "macro inner($v) {\n    Wait<object $v>(2);\n    if (debug) {\n        return;\n    }\n    x<performer $v>($v);\n}\nmacro outer($a) {\n    y($a);\n    ~inner($a);\n    z<actor 1>(Position<'m', 1, 2.5>);\n}\ndef 0 {\n    ~outer(5);\n    switch ($X) {\n        case 1:\n            ~outer(6);\n            break;\n        default:\n            ~inner(7);\n    }\n    end;\n}\n",
]


def run_compiled(cases: list[dict]) -> list[dict]:
    """rewrite_offsets on the source map OBJECT the compiler returns (not on one rebuilt from its fields: entries of such a map may
    share objects).  case: {"text"| "file", "fmode"}; returns the map's fields before, the mapping, and the fields after."""
    from explorerscript.ssb_converting.ssb_compiler import ExplorerScriptSsbCompiler
    out = []
    for c in cases:
        r: dict = {}
        try:
            comp = ExplorerScriptSsbCompiler("$PERF", [])
            if c.get("file"):
                comp.compile(open(c["file"], encoding="utf-8").read(), c["file"])
            else:
                comp.compile(c["text"], "/nonexistent/c14/main.exps")
            m = comp.source_map
            before = sm_to_wire(m)
            keys = sorted({k for k, _ in before["map"]} | {k for k, _ in before["macros"]})
            kept = [k for i, k in enumerate(keys) if not (c.get("drop") and i % c["drop"] == c["drop"] - 1)]
            mode = c.get("fmode", "dense")
            if mode == "dense":
                f = {k: i for i, k in enumerate(kept)}
            elif mode == "dense1":
                f = {k: i + 1 for i, k in enumerate(kept)}
            elif mode == "double":
                f = {k: 2 * k for k in kept}
            else:
                f = {k: k + 1 for k in kept}
            r["before"], r["f"] = before, [[k, v] for k, v in f.items()]
            m.rewrite_offsets(dict(f))
            r["after"] = sm_to_wire(m)
        except BaseException as e:  # noqa
            import traceback
            r["exc"] = type(e).__name__ + ": " + str(e)[:200]
            r["tb"] = traceback.format_exc()[-800:]
        out.append(r)
    return out
