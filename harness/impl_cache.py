"""Implementation adapter for C11/C12 (runs inside a worker process).

1. Instrumentation of the memo table of graph_utils.py, installed from OUTSIDE by monkeypatching — the wrapped bodies
   are always the current /repo code:
     graph_utils.cache_lock                                   -> LockProxy (logs every locked section, inside the lock)
     graph_utils._find_first_common_next_vertex_in_edges__impl -> logs the unlocked `compute` section
     graph_utils.find_first_common_next_vertex_in_edges, ..__clear_cache (and the from-imported names in graph_minimizer)
     igraph.Graph.add_vertex/add_vertices/add_edge/add_edges/delete_vertices/delete_edges -> `mutate`
   Graph objects are registered on first sight (`alloc`, with a weakref finalizer -> `drop`).  Every query also re-runs the
   UNCACHED `__impl` on the graph as it is at that moment: the real-code oracle for staleness.
   Event log (one global list, appended under the GIL; locked sections are appended while the lock is held, so their
   order is the real one):
     [tid, "call", n] | [tid, "alloc", gid, version] | [tid, "mutate", gid, version, how] | [tid, "drop", gid]
     [tid, "sec", "clear", gid] | [tid, "sec", "lookup"|"store", gid, key, arg] | [tid, "compute", gid]
     [tid, "clear", gid, n_sections] (end of a clear call)
     [tid, "query", gid, key, arg, version, returned, oracle, hit, origin, [event indices of its sections], nested]
2. `run_session`: a sequence of compile / decompile / CLI / gc calls in THIS process (C11 histories), results in
   canonical byte-comparable form.
3. `run_threads`: the same calls on several threads, free running or under the deterministic line scheduler (C12).
"""
from __future__ import annotations

import gc
import hashlib
import json
import os
import re
import sys
import threading
import time
import traceback
import weakref
from typing import Any

from . import rsjson
from .gen.surface import PERF_VAR

DMODE = ("DMODE_CLOSE", "DMODE_OPEN", "DMODE_REQUEST", "DMODE_OPEN_AND_REQUEST")
HEX = re.compile(r"0x[0-9a-fA-F]+")


# ----------------------------------------------------------------------------------------------------------------------
# 1. instrumentation
# ----------------------------------------------------------------------------------------------------------------------
class Recorder:
    def __init__(self) -> None:
        self.events: list[list] = []
        self.live: dict[int, dict] = {}          # id(g) -> {"ref", "token", "version", "fp"}
        self.gids: dict[int, int] = {}           # real id -> small id (injective, first seen)
        self.tids: dict[int, int] = {}
        self.counter = 0
        self.call = 0
        self.origin: dict[tuple[int, str], dict] = {}   # (gid, key) -> where the entry was stored
        self.tls = threading.local()
        self.problems: list[str] = []
        self.mutex = threading.RLock()

    def tid(self) -> int:
        t = threading.get_ident()
        with self.mutex:
            if t not in self.tids:
                self.tids[t] = len(self.tids) + 1
            return self.tids[t]

    def gid(self, real: int) -> int:
        with self.mutex:
            if real not in self.gids:
                self.gids[real] = len(self.gids) + 1
            return self.gids[real]

    def fresh_version(self) -> int:
        with self.mutex:
            self.counter += 1
            return self.counter

    def ev(self, *e: Any) -> int:
        with self.mutex:                      # (index and append must be one step when threads run freely)
            self.events.append([self.tid(), *e])
            return len(self.events) - 1

    def fingerprint(self, g: Any) -> Any:
        try:
            loops = tuple(g.es["loop"]) if "loop" in g.es.attributes() else ()
            return (g.vcount(), tuple(g.get_edgelist()), loops)
        except Exception as e:  # noqa
            return ("?", repr(e)[:50])

    def touch(self, g: Any) -> dict:
        """register the object on first sight (alloc); returns its entry"""
        real = id(g)
        ent = self.live.get(real)
        if ent is not None and ent["ref"]() is g:
            return ent
        if ent is not None:                      # the finalizer of the previous holder has not run: cannot happen
            self.problems.append("id seen for a new object while the old one is registered")
            self.ev("drop", self.gid(real))
        token = self.fresh_version()
        ent = {"ref": weakref.ref(g), "token": token, "version": token, "fp": None, "owner": self.tid()}
        self.live[real] = ent
        self.ev("alloc", self.gid(real), token)
        weakref.finalize(g, self._dropped, real, token)
        return ent

    def _dropped(self, real: int, token: int) -> None:
        ent = self.live.get(real)
        if ent is not None and ent["token"] == token:
            del self.live[real]
            self.ev("drop", self.gid(real), ent["owner"])

    def mutated(self, g: Any, how: str) -> None:
        ent = self.touch(g)
        ent["version"] = self.fresh_version()
        ent["fp"] = None
        self.ev("mutate", self.gid(id(g)), ent["version"], how)

    def sync(self, g: Any) -> dict:
        """before a query: a change of the graph that no hook saw (attribute writes) is a mutation too"""
        ent = self.touch(g)
        fp = self.fingerprint(g)
        if ent["fp"] is None:
            ent["fp"] = fp
        elif ent["fp"] != fp:
            ent["version"] = self.fresh_version()
            ent["fp"] = fp
            self.ev("mutate", self.gid(id(g)), ent["version"], "unhooked")
        return ent


REC: Recorder | None = None
_ORIG: dict = {}


def canon(res: Any) -> str:
    if res is None:
        return "None"
    if isinstance(res, tuple) and res and res[0] == "EXC":
        return "EXC:" + str(res[1])
    out = []
    try:
        for e in res:
            try:
                out.append((e.index, e.tuple))
            except Exception as ex:  # noqa  (an Edge object whose index no longer exists)
                out.append(("dead-edge", type(ex).__name__))
    except Exception as ex:  # noqa
        return "unprintable:" + type(ex).__name__
    return repr(out)


class LockProxy:
    """stands in for graph_utils.cache_lock; the section is logged while the real lock is held"""

    def __init__(self, real: Any):
        self._real = real

    def _log(self) -> None:
        rec = REC
        if rec is None:
            return
        st = getattr(rec.tls, "cur", None)
        if st is None:
            rec.ev("sec", "foreign", 0)
            return
        st["sections"] += 1
        if st["kind"] == "clear":
            st["sec_idx"].append(rec.ev("sec", "clear", st["gid"]))
            for k in [k for k in list(rec.origin) if k[0] == st["gid"]]:
                rec.origin.pop(k, None)
        elif st["sections"] == 1:
            st["sec_idx"].append(rec.ev("sec", "lookup", st["gid"], st["key"], st["arg"]))
        else:
            st["sec_idx"].append(rec.ev("sec", "store", st["gid"], st["key"], st["arg"]))
            rec.origin[(st["gid"], st["key"])] = {"call": rec.call, "token": st["token"], "version": st["version"]}

    def __enter__(self) -> "LockProxy":
        self._real.acquire()
        self._log()
        return self

    def __exit__(self, *a: Any) -> None:
        self._real.release()

    def acquire(self, *a: Any, **k: Any) -> bool:
        r = self._real.acquire(*a, **k)
        if r:
            self._log()
        return r

    def release(self) -> None:
        self._real.release()

    def locked(self) -> bool:
        return self._real.locked()


def install() -> Recorder:
    """idempotent; raises KeyError/AttributeError if an instrumentation point no longer exists (reported as a broken tie)"""
    global REC
    import igraph
    from explorerscript.ssb_converting.decompiler.graph_building import graph_utils as gu, graph_minimizer as gm
    if REC is not None:
        return REC
    rec = Recorder()
    REC = rec
    _ORIG["q"] = gu.find_first_common_next_vertex_in_edges
    _ORIG["c"] = gu.find_first_common_next_vertex_in_edges__clear_cache
    _ORIG["impl"] = gu._find_first_common_next_vertex_in_edges__impl
    _ORIG["lock"] = gu.cache_lock
    _ORIG["gm_q"] = gm.find_first_common_next_vertex_in_edges
    _ORIG["gm_c"] = gm.find_first_common_next_vertex_in_edges__clear_cache
    if _ORIG["gm_q"] is not _ORIG["q"] or _ORIG["gm_c"] is not _ORIG["c"]:
        raise AttributeError("graph_minimizer no longer uses graph_utils' cache functions")
    orig_q, orig_c, orig_impl = _ORIG["q"], _ORIG["c"], _ORIG["impl"]

    def impl_wrapper(g: Any, *a: Any, **k: Any) -> Any:
        st = getattr(rec.tls, "cur", None)
        if not getattr(rec.tls, "recompute", False) and st is not None:
            st["computed"] = True
            rec.ev("compute", st["gid"])
        return orig_impl(g, *a, **k)

    def q_wrapper(g: Any, es: Any, allow_open_branches: bool = False, allow_loops: bool = False,
                  vs_to_not_visit: Any = None, allow_loop_edges: bool = True) -> Any:
        if getattr(rec.tls, "recompute", False):
            # a nested query of the oracle run must neither read nor write the table
            return orig_impl(g, [{e} for e in es], [], allow_open_branches, allow_loops, vs_to_not_visit, allow_loop_edges)
        es_l = list(es) if not isinstance(es, (list, set, tuple)) else es
        key = ",".join(sorted([str(e.index) for e in es_l]))
        arg = repr((allow_open_branches, allow_loops, list(vs_to_not_visit) if vs_to_not_visit else None, allow_loop_edges))
        ent = rec.sync(g)
        gid = rec.gid(id(g))
        rec.tls.recompute = True
        try:
            try:
                oracle = orig_impl(g, [{e} for e in es_l], [], allow_open_branches, allow_loops,
                                   list(vs_to_not_visit) if vs_to_not_visit else vs_to_not_visit, allow_loop_edges)
            except BaseException as e:  # noqa
                oracle = ("EXC", type(e).__name__)
        finally:
            rec.tls.recompute = False
        outer = getattr(rec.tls, "cur", None)
        st = {"kind": "query", "gid": gid, "key": key, "arg": arg, "sections": 0, "sec_idx": [], "computed": False,
              "token": ent["token"], "version": ent["version"]}
        origin = rec.origin.get((gid, key))
        rec.tls.cur = st
        try:
            r = orig_q(g, es_l, allow_open_branches, allow_loops, vs_to_not_visit, allow_loop_edges)
        except BaseException as e:  # noqa  (the search raised: the lookup section missed and no store section follows)
            rec.ev("query_exc", gid, key, arg, ent["version"], type(e).__name__, st["sec_idx"], outer is not None)
            raise
        finally:
            rec.tls.cur = outer
        hit = not st["computed"]
        org = None
        if hit and origin is not None:
            org = {"call": origin["call"], "same_object": origin["token"] == ent["token"], "same_version": origin["version"] == ent["version"]}
        rec.ev("query", gid, key, arg, ent["version"], canon(r), canon(oracle), hit, org, st["sec_idx"], outer is not None)
        return r

    def c_wrapper(g: Any) -> Any:
        rec.touch(g)
        gid = rec.gid(id(g))
        outer = getattr(rec.tls, "cur", None)
        st = {"kind": "clear", "gid": gid, "sections": 0, "sec_idx": []}
        rec.tls.cur = st
        try:
            r = orig_c(g)
        finally:
            rec.tls.cur = outer
        rec.ev("clear", gid, st["sections"])
        return r

    gu.find_first_common_next_vertex_in_edges = q_wrapper
    gm.find_first_common_next_vertex_in_edges = q_wrapper
    gu.find_first_common_next_vertex_in_edges__clear_cache = c_wrapper
    gm.find_first_common_next_vertex_in_edges__clear_cache = c_wrapper
    gu._find_first_common_next_vertex_in_edges__impl = impl_wrapper
    gu.cache_lock = LockProxy(_ORIG["lock"])

    def wrap_mut(name: str) -> None:
        orig = getattr(igraph.Graph, name)
        _ORIG["g_" + name] = igraph.Graph.__dict__.get(name)

        def w(self: Any, *a: Any, **k: Any) -> Any:
            depth = getattr(rec.tls, "mdepth", 0)
            rec.tls.mdepth = depth + 1
            try:
                return orig(self, *a, **k)
            finally:
                rec.tls.mdepth = depth
                if depth == 0:
                    rec.mutated(self, name)
        setattr(igraph.Graph, name, w)
    for nm in ("add_vertex", "add_vertices", "add_edge", "add_edges", "delete_vertices", "delete_edges"):
        wrap_mut(nm)
    return rec


def uninstall() -> None:
    global REC
    if REC is None:
        return
    import igraph
    from explorerscript.ssb_converting.decompiler.graph_building import graph_utils as gu, graph_minimizer as gm
    gu.find_first_common_next_vertex_in_edges = _ORIG["q"]
    gm.find_first_common_next_vertex_in_edges = _ORIG["gm_q"]
    gu.find_first_common_next_vertex_in_edges__clear_cache = _ORIG["c"]
    gm.find_first_common_next_vertex_in_edges__clear_cache = _ORIG["gm_c"]
    gu._find_first_common_next_vertex_in_edges__impl = _ORIG["impl"]
    gu.cache_lock = _ORIG["lock"]
    for nm in ("add_vertex", "add_vertices", "add_edge", "add_edges", "delete_vertices", "delete_edges"):
        if _ORIG.get("g_" + nm) is None:
            try:
                delattr(igraph.Graph, nm)
            except AttributeError:
                pass
        else:
            setattr(igraph.Graph, nm, _ORIG["g_" + nm])
    REC = None


def memo_snapshot() -> dict:
    """non-empty tables of the real memo dict (cheap; used by uninstrumented sessions too)"""
    from explorerscript.ssb_converting.decompiler.graph_building import graph_utils as gu
    c = gu.find_first_common_next_vertex_in_edges_cache
    non_empty = {k: v for k, v in list(c.items()) if v}
    return {"ids": len(c), "non_empty": len(non_empty), "entries": sum(len(v) for v in non_empty.values()),
            "none_entries": sum(1 for v in non_empty.values() for x in v.values() if x is None),
            "keys": sorted({k for v in non_empty.values() for k in v})[:20]}


def memo_scrub() -> int:
    """diagnosis only: empty every table of the real memo dict"""
    from explorerscript.ssb_converting.decompiler.graph_building import graph_utils as gu
    n = 0
    for v in gu.find_first_common_next_vertex_in_edges_cache.values():
        n += len(v)
        v.clear()
    return n


# ----------------------------------------------------------------------------------------------------------------------
# 2. calls
# ----------------------------------------------------------------------------------------------------------------------
def _exc(e: BaseException) -> dict:
    tb = traceback.extract_tb(e.__traceback__)
    site = ""
    for fr in reversed(tb):
        if "explorerscript" in fr.filename and "/harness/" not in fr.filename:
            site = os.path.basename(fr.filename) + ":" + fr.name
            break
    return {"error": type(e).__name__, "msg": HEX.sub("0x?", str(e))[:300], "site": site}


def sm_json(sm: Any) -> Any:
    return json.loads(sm.serialize()) if sm is not None else None


class Session:
    """state of one long-lived process as far as the calls can see it"""

    def __init__(self) -> None:
        self.compilers: dict[str, Any] = {}
        self.decompilers: dict[str, Any] = {}
        self.objs: dict[str, Any] = {}           # routine-set OBJECTS shared by several calls (infos, ops, coroutines)
        self.keep: list[Any] = []


def compiler_fields(c: Any) -> dict:
    out = rsjson.rs_to_json(c.routine_infos, c.routine_ops, c.named_coroutines) if c.routine_ops is not None else {"infos": None, "coros": None, "ops": None}
    out["source_map"] = sm_json(c.source_map)
    out["imports"] = list(c.imports)
    out["macro_order"] = list(c.macro_resolution_order)
    out["macros"] = sorted(c.macros.keys())
    md = {}
    for name, m in c.macros.items():
        try:
            md[name] = [list(m.variables), m.included__relative_path, [HEX.sub("0x?", str(o)) for o in m.blueprints], sm_json(m.source_map)]
        except Exception as e:  # noqa
            md[name] = ["unprintable", type(e).__name__]
    out["macros_detail"] = md
    return out


def params_with_indent(ops: Any) -> list:
    out = []
    for ri, r in enumerate(ops):
        for oi, op in enumerate(r):
            for pi, p in enumerate(op.params):
                if hasattr(p, "indent"):
                    out.append([ri, oi, pi, p.indent])
    return out


def do_call(sess: Session, call: dict) -> dict:
    kind = call["kind"]
    if kind == "compile":
        from explorerscript.ssb_converting.ssb_compiler import ExplorerScriptSsbCompiler
        slot = call.get("slot")
        lookup = call.get("lookup", [])
        fname = call.get("file", "/nonexistent/main.exps")
        if call.get("project"):
            root = materialise(call["project"])
            fname = os.path.join(root, call["project"]["main"])
            lookup = [os.path.join(root, x) for x in call["project"].get("lookup", [])] + list(call["project"].get("lookup_rel", []))
        if slot is None:
            c = ExplorerScriptSsbCompiler(PERF_VAR, list(lookup))
        else:
            key = slot + "|" + json.dumps(lookup)
            if key not in sess.compilers:
                sess.compilers[key] = ExplorerScriptSsbCompiler(PERF_VAR, list(lookup))
            c = sess.compilers[key]
        ctor_before = (list(c.lookup_paths), list(c.recursion_check), c.performance_progress_list_var_name)
        try:
            c.compile(call["text"], fname, macros_only=bool(call.get("macros_only")))
            res: dict = {}
            if call.get("store") and c.routine_ops is not None:
                from explorerscript.ssb_converting.ssb_data_types import SsbCoroutine
                sess.objs[call["store"]] = (c.routine_infos, c.routine_ops,
                                            [SsbCoroutine(i, n) for i, n in enumerate(c.named_coroutines) if isinstance(n, str)])
        except BaseException as e:  # noqa
            res = _exc(e)
        res.update(compiler_fields(c))
        res["_ctor_changed"] = ctor_before != (list(c.lookup_paths), list(c.recursion_check), c.performance_progress_list_var_name)
        return res
    if kind in ("decompile", "compile_decompile"):
        from explorerscript.ssb_converting.ssb_data_types import DungeonModeConstants, SsbCoroutine
        from explorerscript.ssb_converting.ssb_decompiler import ExplorerScriptSsbDecompiler
        if kind == "compile_decompile":
            from explorerscript.ssb_converting.ssb_compiler import ExplorerScriptSsbCompiler
            c = ExplorerScriptSsbCompiler(PERF_VAR, [])
            try:
                c.compile(call["text"], call.get("file", "/nonexistent/main.exps"))
            except BaseException as e:  # noqa
                return dict(_exc(e), stage="compile")
            infos, ops = c.routine_infos, c.routine_ops
            coros = [SsbCoroutine(i, n) for i, n in enumerate(c.named_coroutines) if isinstance(n, str)]
        else:
            infos, ops, coros = shared_objects(sess, call)
        before = rsjson.rs_to_json(infos, ops, [None] * len(infos))
        ind_before = params_with_indent(ops)
        d = ExplorerScriptSsbDecompiler(infos, ops, coros, PERF_VAR, DungeonModeConstants(*DMODE))
        if call.get("keep"):
            sess.decompilers[call["keep"]] = (d, infos, ops)
        try:
            text, sm = d.convert()
            res = {"text": text, "source_map": sm_json(sm)}
        except BaseException as e:  # noqa
            res = _exc(e)
        res["input_before"] = before
        res["input_after"] = rsjson.rs_to_json(infos, ops, [None] * len(infos))
        ind_after = params_with_indent(ops)
        res["_indent_changed"] = sum(1 for a, b in zip(ind_before, ind_after) if a != b)
        return res
    if kind == "ssbs_decompile":
        from explorerscript.ssb_script.ssb_converting.ssb_decompiler import SsbScriptSsbDecompiler
        infos, ops, coros = shared_objects(sess, call)
        before = rsjson.rs_to_json(infos, ops, [None] * len(infos))
        ind_before = params_with_indent(ops)
        d = SsbScriptSsbDecompiler(infos, ops, coros)
        if call.get("keep"):
            sess.decompilers[call["keep"]] = (d, infos, ops)
        try:
            text, sm = d.convert()
            res = {"text": text, "source_map": sm_json(sm)}
        except BaseException as e:  # noqa
            res = _exc(e)
        res["input_before"] = before
        res["input_after"] = rsjson.rs_to_json(infos, ops, [None] * len(infos))
        res["_indent_changed"] = sum(1 for a, b in zip(ind_before, params_with_indent(ops)) if a != b)
        return res
    if kind == "reset_indent":              # diagnosis only: forget what earlier printing left on the shared parameter objects
        n = 0
        for infos, ops, coros in sess.objs.values():
            for r in ops:
                for o in r:
                    for prm in o.params:
                        if hasattr(prm, "indent") and prm.indent != 0:
                            prm.indent = 0
                            n += 1
        return {"reset": n}
    if kind == "cli_build":
        # the compile CLI's JSON builder after an API compile, then the decompile CLI's reader on that JSON
        from explorerscript.cli import compile as cc, decompile as cd
        from explorerscript.ssb_converting.ssb_compiler import ExplorerScriptSsbCompiler
        from explorerscript.ssb_converting.ssb_data_types import DungeonModeConstants
        from explorerscript.ssb_converting.ssb_decompiler import ExplorerScriptSsbDecompiler
        c = ExplorerScriptSsbCompiler(PERF_VAR, [])
        try:
            c.compile(call["text"], call.get("file", "/nonexistent/main.exps"))
            routines = cc.build_routines_json(c.routine_infos, c.named_coroutines, c.routine_ops)
            res = {"routines": json.loads(json.dumps(routines, default=str))}
        except BaseException as e:  # noqa
            return dict(_exc(e), stage="compile/build")
        try:
            infos, coros, ops = cd.read_routines(routines)
            text, sm = ExplorerScriptSsbDecompiler(infos, ops, coros, PERF_VAR, DungeonModeConstants(*DMODE)).convert()
            res.update({"text": text, "source_map": sm_json(sm)})
        except BaseException as e:  # noqa
            res.update(dict(_exc(e), stage="read/decompile"))
        return res
    if kind == "cli_fn":
        # direct calls of the public helper functions of explorerscript/cli/*.py, with the arguments a caller would naturally pass
        from explorerscript.cli import compile as cc, decompile as cd
        from explorerscript.ssb_converting.ssb_data_types import DungeonModeConstants, SsbRoutineInfo, SsbRoutineType
        from explorerscript.ssb_converting.ssb_decompiler import ExplorerScriptSsbDecompiler
        fn = call["fn"]
        try:
            if fn == "decompile.read_ops":
                ops = cd.read_ops(call["ops"])                      # without a counter
                res = {"offsets": [o.offset for o in ops]}
                text, sm = ExplorerScriptSsbDecompiler([SsbRoutineInfo(SsbRoutineType.GENERIC, -1)], [ops], [], PERF_VAR, DungeonModeConstants(*DMODE)).convert()
                res.update({"text": text, "source_map": sm_json(sm)})
                return res
            if fn == "decompile.parse_pos_mark_arg":
                return {"value": list(cd.parse_pos_mark_arg(call["arg"]))}
            if fn == "compile.build_ops":
                from explorerscript.ssb_converting.ssb_compiler import ExplorerScriptSsbCompiler
                c = ExplorerScriptSsbCompiler(PERF_VAR, [])
                c.compile(call["text"], "/nonexistent/main.exps")
                return {"ops": json.loads(json.dumps([cc.build_ops(r) for r in c.routine_ops], default=str))}
            if fn == "cli.check_settings":
                import explorerscript.cli as cl
                cl.check_settings(call["arg"])
                return {"ok": True}
            return {"skipped": "no driver for " + fn}
        except BaseException as e:  # noqa
            return _exc(e)
    if kind == "convert_again":
        ent = sess.decompilers.get(call["keep"])
        if ent is None:
            return {"skipped": "no such decompiler"}
        d, infos, ops = ent
        before = rsjson.rs_to_json(infos, ops, [None] * len(infos))
        ind_before = params_with_indent(ops)
        try:
            text, sm = d.convert()
            res = {"text": text, "source_map": sm_json(sm)}
        except BaseException as e:  # noqa
            res = _exc(e)
        res["input_before"] = before
        res["input_after"] = rsjson.rs_to_json(infos, ops, [None] * len(infos))
        res["_indent_changed"] = sum(1 for a, b in zip(ind_before, params_with_indent(ops)) if a != b)
        return res
    if kind == "cli_read":
        from explorerscript.cli import decompile as cd
        from explorerscript.ssb_converting.ssb_data_types import DungeonModeConstants
        from explorerscript.ssb_converting.ssb_decompiler import ExplorerScriptSsbDecompiler
        if call.get("reset_counter") and hasattr(cd, "counter"):       # diagnosis only
            cd.counter.count = 0
        try:
            infos, coros, ops = cd.read_routines(call["routines"])
            offsets = [[o.offset for o in r] for r in ops]
            text, sm = ExplorerScriptSsbDecompiler(infos, ops, coros, PERF_VAR, DungeonModeConstants(*DMODE)).convert()
            return {"text": text, "source_map": sm_json(sm), "offsets": offsets}
        except BaseException as e:  # noqa
            return _exc(e)
    if kind == "gc":
        return {"collected": gc.collect()}
    if kind == "churn":
        # allocate and free objects of the sizes the decompiler uses, to move the allocator's free lists
        import igraph
        import random
        r = random.Random(call.get("seed", 0))
        objs: list[Any] = []
        for _ in range(call.get("n", 50)):
            c = r.random()
            if c < 0.4:
                g = igraph.Graph(directed=True)
                if r.random() < 0.5:
                    g.add_vertices(r.randint(1, 5))
                objs.append(g)
            elif c < 0.7:
                objs.append({i: i for i in range(r.randint(0, 30))})
            else:
                objs.append([0] * r.randint(0, 60))
        r.shuffle(objs)
        keep = call.get("keep", 0)
        sess.keep.extend(objs[:keep])
        del objs
        gc.collect()
        return {"churned": True}
    if kind == "scrub":                     # diagnosis only
        return {"scrubbed": memo_scrub()}
    if kind == "reset_antlr":               # diagnosis only: forget what the shared prediction caches of the generated parsers learnt
        from antlr4.dfa.DFA import DFA
        from antlr4.PredictionContext import PredictionContextCache
        n = 0
        import explorerscript.antlr.ExplorerScriptLexer as m1
        import explorerscript.antlr.ExplorerScriptParser as m2
        import explorerscript.antlr.SsbScriptLexer as m3
        import explorerscript.antlr.SsbScriptParser as m4
        for mod, nm in ((m1, "ExplorerScriptLexer"), (m2, "ExplorerScriptParser"), (m3, "SsbScriptLexer"), (m4, "SsbScriptParser")):
            cls = getattr(mod, nm)
            for i, ds in enumerate(cls.atn.decisionToState):
                cls.decisionsToDFA[i] = DFA(ds, i)
                n += 1
            if hasattr(cls, "sharedContextCache"):
                cls.sharedContextCache = PredictionContextCache()
            for st in cls.atn.states:              # ATN.nextTokens caches its answer on the (class-level, shared) ATN states
                if st is not None and getattr(st, "nextTokenWithinRule", None) is not None:
                    st.nextTokenWithinRule = None
                    n += 1
        return {"reset": n}
    raise ValueError("unknown call kind " + kind)


def prepare_cwd(spec: dict) -> str:
    """{"dir": path} an existing directory | {"project": PROJECT} its root | {"decoy": [PROJECT], "base": dir}: a directory that contains, under
    the names of the projects' relative lookup paths, same-named files whose macros have other bodies"""
    import re
    if "dir" in spec:
        os.makedirs(spec["dir"], exist_ok=True)
        return spec["dir"]
    if "project" in spec:
        return materialise(spec["project"])
    base = os.path.join(spec.get("base", "/tmp/esv_proj"), "decoy_cwd")
    marker = os.path.join(base, ".complete")
    if not os.path.exists(marker):
        os.makedirs(base, exist_ok=True)
        for pr in spec["decoy"]:
            for lp in pr.get("lookup_rel", []) + pr.get("lookup", []):
                name = os.path.normpath(lp).replace("..", "").strip(os.sep)
                for rel, content in pr["files"].items():
                    if os.path.normpath(rel).startswith(name + os.sep):
                        macros = re.findall(r"macro\s+(\w+)\s*\(([^)]*)\)", content)
                        body = "".join(f"macro {n}({a}) {{\n    decoy_{n}(99);\n}}\n" for n, a in macros) or "macro decoy_only() {\n    d();\n}\n"
                        path = os.path.join(base, name, os.path.relpath(rel, name))
                        os.makedirs(os.path.dirname(path), exist_ok=True)
                        tmp = f"{path}.{os.getpid()}.tmp"
                        with open(tmp, "w", encoding="utf-8") as fh:
                            fh.write(body)
                        os.replace(tmp, path)
        open(marker, "w").close()
    return base


def materialise(project: dict) -> str:
    """write the files of a generated project (import graph) below a directory named after their content; returns the root"""
    h = hashlib.sha256(json.dumps(project["files"], sort_keys=True).encode()).hexdigest()[:16]
    root = os.path.join(project.get("base", "/tmp/esv_proj"), h)
    marker = os.path.join(root, ".complete")
    if not os.path.exists(marker):
        for rel, content in project["files"].items():
            path = os.path.join(root, rel)
            os.makedirs(os.path.dirname(path), exist_ok=True)
            tmp = f"{path}.{os.getpid()}.tmp"       # (several sessions may materialise the same project at once)
            with open(tmp, "w", encoding="utf-8") as fh:
                fh.write(content)
            os.replace(tmp, path)
        open(marker, "w").close()
    return root


def shared_objects(sess: Session, call: dict) -> tuple:
    """the routine-set objects of a call: new ones from the JSON, or — with "obj" — the objects earlier calls of the session used"""
    key = call.get("obj")
    if key is None:
        return rsjson.rs_from_json(call["rs"])
    if key not in sess.objs:
        sess.objs[key] = rsjson.rs_from_json(call["rs"])
    return sess.objs[key]


def digest(res: dict) -> str:
    """keys starting with '_' are measurements of the run, not part of the result"""
    return hashlib.sha256(json.dumps({k: v for k, v in res.items() if not k.startswith("_")}, sort_keys=True, ensure_ascii=True).encode()).hexdigest()[:16]


def run_session(arg: dict) -> dict:
    """arg: {"calls":[CALL], "instrument": bool, "full": [indices whose full result is wanted] | "all"}
    -> {"results":[{"digest", "summary", "full"?}], "events":[...]?, "memo":[snapshot after each call]}"""
    import logging
    logging.disable(logging.CRITICAL)
    sys.setswitchinterval(0.005)
    if arg.get("cwd"):
        os.chdir(prepare_cwd(arg["cwd"]))
    compiler_only = bool(arg.get("compiler_only"))
    if compiler_only:
        compiler_only_setup(arg.get("recursion_limit", 1000))
    rec = install() if arg.get("instrument") else None
    sess = Session()
    out: dict = {"results": [], "memo": []}
    full = arg.get("full", [])
    for i, call in enumerate(arg["calls"]):
        if rec is not None:
            rec.call = i
            rec.ev("call", i)
        t0 = time.time()
        res = do_call(sess, call)
        row: dict = {"digest": digest(res), "ms": int((time.time() - t0) * 1000)}
        row["summary"] = {k: res[k] for k in ("error", "site", "msg", "skipped", "stage") if k in res}
        if "text" in res:
            row["summary"]["fallback"] = res["text"].startswith("//?: is-ssb-script")
        if res.get("_ctor_changed"):
            row["ctor_changed"] = True
        if "input_after" in res:
            row["input_same"] = res["input_after"] == res["input_before"]
            row["indent_changed"] = res.get("_indent_changed", 0)
        if full == "all" or i in full:
            row["full"] = res
        out["results"].append(row)
        out["memo"].append(memo_snapshot() if call["kind"] not in ("gc", "churn") and not compiler_only else None)
        res = None
    if rec is not None:
        gc.collect()
        out["events"] = rec.events
        out["problems"] = rec.problems
    if compiler_only:
        out["process"] = process_facts()
    return out


def compiler_only_setup(limit: int) -> None:
    """a process that uses only the compiler: the interpreter's default recursion limit (the harness worker raised it), and no
    import of the decompiler package (graph_minimizer raises the limit at import)"""
    sys.setrecursionlimit(limit)
    import explorerscript.ssb_converting.ssb_compiler  # noqa


def cli_functions(_: Any = None) -> list[str]:
    """public functions defined in explorerscript/cli/*.py (importable, not only reachable through __main__)"""
    import importlib
    import inspect
    import pkgutil
    import explorerscript.cli as cl
    out = []
    mods = [cl] + [importlib.import_module(mi.name) for mi in pkgutil.iter_modules(cl.__path__, cl.__name__ + ".")]
    for m in mods:
        for nm, f in inspect.getmembers(m, inspect.isfunction):
            if f.__module__ == m.__name__ and not nm.startswith("_"):
                out.append((m.__name__.split("explorerscript.")[-1].replace("cli.", "") if m is not cl else "cli") + "." + nm)
    return sorted(out)


def process_facts() -> dict:
    return {"recursion_limit": sys.getrecursionlimit(), "switchinterval": sys.getswitchinterval(),
            "decompiler_imported": any(m.endswith("graph_minimizer") for m in sys.modules), "cwd": os.getcwd()}


def print_param_cases(cases: list[dict]) -> list[dict]:
    """tie of the `indent` model: run the real writer method on real parameter objects; report every attribute before/after.
    case: {"params":[PARAM with optional "indent"], "indent": n}"""
    import types
    from explorerscript.ssb_converting.decompiler.write_handlers.simple_ops.simple import SimpleSimpleOpWriteHandler
    out = []
    for c in cases:
        ps = []
        for pj in c["params"]:
            p = rsjson.param_from_json(pj if isinstance(pj, int) else {k: v for k, v in pj.items() if k != "indent"})
            if isinstance(pj, dict) and "indent" in pj and hasattr(p, "indent"):
                p.indent = pj["indent"]
            ps.append(p)
        import copy
        orig = copy.deepcopy(ps)
        h = object.__new__(SimpleSimpleOpWriteHandler)
        h.decompiler = types.SimpleNamespace(indent=c["indent"])
        texts = [h._single_param_to_string(p) for p in ps]
        after = []
        for p in ps:
            j = rsjson.param_to_json(p)
            if isinstance(j, dict) and hasattr(p, "indent"):
                j = dict(j, indent=p.indent)
            after.append(j)
        out.append({"after": after, "eq": [bool(a == b) for a, b in zip(ps, orig)], "texts": texts,
                    "attrs_same": [({k: v for k, v in vars(a).items() if k != "indent"} == {k: v for k, v in vars(b).items() if k != "indent"}) if hasattr(a, "__dict__") else a == b
                                   for a, b in zip(ps, orig)]})
    return out


def compiler_attr_facts(_: Any = None) -> dict:
    """static facts about ExplorerScriptSsbCompiler read from the CURRENT source: attributes assigned in __init__, the
    attributes assigned at the top of compile() before any statement that can raise, every attribute compile() assigns"""
    import ast
    import inspect
    from explorerscript.ssb_converting import ssb_compiler
    tree = ast.parse(inspect.getsource(ssb_compiler))
    cls = [n for n in tree.body if isinstance(n, ast.ClassDef) and n.name == "ExplorerScriptSsbCompiler"][0]
    fns = {n.name: n for n in cls.body if isinstance(n, ast.FunctionDef)}

    def self_targets(node: ast.AST) -> list[str]:
        out = []
        for n in ast.walk(node):
            tg = []
            if isinstance(n, ast.Assign):
                tg = n.targets
            elif isinstance(n, (ast.AnnAssign, ast.AugAssign)):
                tg = [n.target]
            for t in tg:
                if isinstance(t, ast.Attribute) and isinstance(t.value, ast.Name) and t.value.id == "self":
                    out.append(t.attr)
        return out

    init_attrs = self_targets(fns["__init__"])
    # compile() may delegate to a private method inside a try block (`try: return self._compile(...) except RecursionError: ...`)
    body_fn = fns["compile"]
    delegated = None
    for st in fns["compile"].body:
        if isinstance(st, ast.Try) and len(st.body) == 1 and isinstance(st.body[0], ast.Return) and isinstance(st.body[0].value, ast.Call) \
                and isinstance(st.body[0].value.func, ast.Attribute) and isinstance(st.body[0].value.func.value, ast.Name) \
                and st.body[0].value.func.value.id == "self" and st.body[0].value.func.attr in fns:
            delegated = st.body[0].value.func.attr
            body_fn = fns[delegated]
    top = []
    for st in body_fn.body:
        if isinstance(st, ast.Expr) and isinstance(st.value, ast.Constant):
            continue                                   # docstring
        if isinstance(st, ast.Expr) and isinstance(st.value, ast.Call) and isinstance(st.value.func, ast.Attribute) \
                and isinstance(st.value.func.value, ast.Name) and st.value.func.value.id == "logger":
            continue                                   # logger.debug(...)
        tg = self_targets(st) if isinstance(st, (ast.Assign, ast.AnnAssign)) else []
        simple = isinstance(st, (ast.Assign, ast.AnnAssign)) and isinstance(st.value, (ast.Constant, ast.List, ast.Dict))
        if tg and simple:
            top += tg
        else:
            break
    all_compile = sorted(set(self_targets(fns["compile"])) | set(self_targets(body_fn)))
    # attributes mutated in place by compile (self.X.update / append)
    inplace = sorted({n.func.value.attr for fn_ in (fns["compile"], body_fn) for n in ast.walk(fn_) if isinstance(n, ast.Call) and isinstance(n.func, ast.Attribute)
                      and n.func.attr in ("update", "append", "extend", "clear") and isinstance(n.func.value, ast.Attribute)
                      and isinstance(n.func.value.value, ast.Name) and n.func.value.value.id == "self"})
    return {"delegates_to": delegated, "init": sorted(set(init_attrs)), "top_of_compile": top, "assigned_in_compile": all_compile, "mutated_in_place": inplace}


# ----------------------------------------------------------------------------------------------------------------------
# 3. threads (C12)
# ----------------------------------------------------------------------------------------------------------------------
TRACED_REPO = ("graph_utils.py", "graph_minimizer.py", "ssb_decompiler.py", "explorerscript_reader.py", "macro.py",
               os.path.join("compiler", "utils.py"), "ssb_compiler.py", "label_jump_to_resolver.py", "source_map.py",
               os.path.join("simple_ops", "simple.py"), "switch_start.py", "message_switches_cases.py")
TRACED_ANTLR = (os.path.join("atn", "ParserATNSimulator.py"), os.path.join("atn", "LexerATNSimulator.py"), os.path.join("dfa", "DFA.py"),
                os.path.join("dfa", "DFAState.py"), os.path.join("atn", "ATN.py"), os.path.join("error", "ErrorStrategy.py"),
                "PredictionContext.py", os.path.join("atn", "ATNConfigSet.py"))


class SchedBroken(Exception):
    pass


class Sched:
    """Deterministic cooperative scheduler: exactly one worker thread runs at a time (it holds the token); at a yield point
    (a traced line, a lock acquisition that would block, the end of a thread) the running thread hands the token to the
    thread the PRNG (or the replayed switch list) names.  The schedule is the list of switches [yield-point number, thread]."""

    def __init__(self, n: int, seed: int, p_switch: float, replay: list | None, wait_s: float = 30.0):
        import random
        self.cv = threading.Condition()
        self.n = n
        self.rnd = random.Random(seed)
        self.p = p_switch
        self.replay = list(replay) if replay is not None else None
        self.rpos = 0
        self.current = -1
        self.alive = set(range(n))
        self.blocked: set[int] = set()
        self.switches: list[list[int]] = []
        self.points = 0
        self.broken: str | None = None
        self.wait_s = wait_s
        self.diverged = 0

    # -- all methods below are called with self.cv held
    def _pick(self, me: int, must_leave: bool) -> int:
        runnable = sorted((self.alive - self.blocked) - ({me} if must_leave else set()))
        if not runnable:
            if must_leave and self.alive - {me}:
                self.broken = "all remaining threads are blocked"
            return me
        if self.replay is not None:
            if self.rpos < len(self.replay) and self.replay[self.rpos][0] == self.points:
                t = self.replay[self.rpos][1]
                self.rpos += 1
                if t in runnable:
                    return t
                self.diverged += 1
                return runnable[0]
            return runnable[0] if must_leave else me
        if must_leave:
            return self.rnd.choice(runnable)
        if len(runnable) > 1 and self.rnd.random() < self.p:
            return self.rnd.choice([t for t in runnable if t != me] or runnable)
        return me

    def _hand_over(self, me: int, nxt: int) -> None:
        if nxt != me:
            self.switches.append([self.points, nxt])
            self.current = nxt
            self.cv.notify_all()

    def _wait_turn(self, me: int) -> None:
        end = time.time() + self.wait_s
        while self.current != me and self.broken is None:
            left = end - time.time()
            if left <= 0:
                self.broken = f"thread {me} waited {self.wait_s}s for its turn"
                self.cv.notify_all()
                break
            self.cv.wait(min(left, 1.0))
        if self.broken is not None:
            raise SchedBroken(self.broken)

    # -- entry points
    def begin(self, me: int) -> None:
        with self.cv:
            if self.current == -1:
                self.current = min(self.alive) if self.replay is None or not self.replay or self.replay[0][0] != 0 else self.replay[0][1]
                if self.replay and self.replay[0][0] == 0:
                    self.rpos = 1
                self.switches.append([0, self.current])
                self.cv.notify_all()
            self._wait_turn(me)

    def point(self, me: int) -> None:
        if self.broken is not None:
            return
        with self.cv:
            self.points += 1
            nxt = self._pick(me, False)
            if nxt != me:
                self._hand_over(me, nxt)
                self._wait_turn(me)

    def block(self, me: int) -> None:
        """the running thread cannot proceed (a lock is taken): give the token away until something is released"""
        with self.cv:
            self.points += 1
            self.blocked.add(me)
            nxt = self._pick(me, True)
            if self.broken is not None:
                self.cv.notify_all()
                raise SchedBroken(self.broken)
            self._hand_over(me, nxt)
            self._wait_turn(me)

    def released(self) -> None:
        with self.cv:
            self.blocked.clear()

    def end(self, me: int) -> None:
        with self.cv:
            self.alive.discard(me)
            self.blocked.discard(me)
            if self.current == me and self.alive:
                self.points += 1
                nxt = self._pick(me, True)
                if nxt == me:
                    nxt = min(self.alive)
                self._hand_over(me, nxt)


class SchedLock:
    """cache_lock under the scheduler: never blocks while holding the token"""

    def __init__(self, real: Any, sched: Sched, tids: dict, inner: Any = None):
        self._real, self._sched, self._tids, self._inner = real, sched, tids, inner

    def acquire(self, blocking: bool = True, timeout: float = -1) -> bool:
        me = self._tids.get(threading.get_ident())
        if me is None:
            return self._real.acquire(blocking, timeout)
        while not self._real.acquire(False):
            if not blocking:
                return False
            self._sched.block(me)
        if self._inner is not None:
            self._inner._log()
        return True

    def release(self) -> None:
        self._real.release()
        self._sched.released()

    def __enter__(self) -> "SchedLock":
        self.acquire()
        return self

    def __exit__(self, *a: Any) -> None:
        self.release()

    def locked(self) -> bool:
        return self._real.locked()


def run_compile_threads(arg: dict) -> dict:
    """Compiler-only concurrency scenario (save/modify/restore of interpreter-wide settings): threads compile their inputs
    `repeat` times with short pauses; threads marked "loop" keep compiling their (small) inputs until all others are done.
    arg: {"threads": [{"calls": [CALL], "loop": bool}], "recursion_limit", "switchinterval", "pause_ms", "repeat"}
    -> {"results": [[row]], "process_before", "process_after", "errors", "broken"}"""
    import logging
    logging.disable(logging.CRITICAL)
    compiler_only_setup(arg.get("recursion_limit", 1000))
    threading.stack_size(64 * 1024 * 1024)
    specs = arg["threads"]
    n = len(specs)
    out: dict = {"process_before": process_facts(), "broken": None}
    results: list[list] = [[] for _ in range(n)]
    errors: list[Any] = [None] * n
    pause = arg.get("pause_ms", 2) / 1000.0
    workers_left = [sum(1 for sp in specs if not sp.get("loop"))]
    lock = threading.Lock()
    barrier = threading.Barrier(n)
    sys.setswitchinterval(arg.get("switchinterval", 1e-6))

    def row_of(res: dict) -> dict:
        return {"digest": digest(res), "summary": {k: res[k] for k in ("error", "site", "msg") if k in res}}

    def worker(i: int) -> None:
        sp = specs[i]
        try:
            barrier.wait(30)
            sess = Session()
            it = 0
            while True:
                for c in sp["calls"]:
                    results[i].append(row_of(do_call(sess, c)))
                    time.sleep(pause)
                it += 1
                if sp.get("loop"):
                    if workers_left[0] <= 0 or it >= arg.get("max_loop", 400):
                        break
                elif it >= arg.get("repeat", 2):
                    break
        except BaseException as e:  # noqa
            errors[i] = "harness: " + type(e).__name__ + ": " + str(e)[:200]
        finally:
            if not sp.get("loop"):
                with lock:
                    workers_left[0] -= 1

    ths = [threading.Thread(target=worker, args=(i,), daemon=True) for i in range(n)]
    for t in ths:
        t.start()
    deadline = time.time() + arg.get("budget_s", 120)
    for t in ths:
        t.join(max(0.1, deadline - time.time()))
    if any(t.is_alive() for t in ths):
        out["broken"] = "threads still running at the end of the time budget"
        workers_left[0] = 0
    sys.setswitchinterval(0.005)
    out["results"] = results
    out["errors"] = errors
    out["process_after"] = process_facts()
    return out


def run_threads(arg: dict) -> dict:
    """arg: {"threads": [[CALL]], "mode": "free"|"sched", "seed", "p_switch", "switches": replay | None, "warm": bool,
            "instrument": bool, "antlr": bool (also trace the antlr4 runtime), "switchinterval": float}
    -> {"results": [[row]], "warm_results": [[row]] | None, "switches", "points", "broken", "events"?}"""
    import logging
    logging.disable(logging.CRITICAL)
    threading.stack_size(128 * 1024 * 1024)
    cold = bool(arg.get("cold")) and arg.get("mode") != "sched" and not arg.get("warm") and not arg.get("instrument")
    if not cold:
        import explorerscript.ssb_converting.ssb_compiler  # noqa  (imports happen before any thread starts)
        import explorerscript.ssb_converting.ssb_decompiler  # noqa
        import explorerscript.cli.decompile  # noqa
        import importlib
        import pkgutil
        import antlr4
        import explorerscript
        for pkg in (explorerscript, antlr4):      # no import may happen while a thread is parked
            for mi in pkgutil.walk_packages(pkg.__path__, pkg.__name__ + "."):
                if ".cli." in mi.name or "pygments" in mi.name:
                    continue
                try:
                    importlib.import_module(mi.name)
                except Exception:
                    pass
    # (cold start: nothing of the implementation is imported or run before the threads' own first calls)
    out_cold = {"implementation_modules_before_threads": sum(1 for m in sys.modules if m.startswith("explorerscript"))}
    progs = arg["threads"]
    n = len(progs)
    out: dict = {"results": [None] * n, "warm_results": None, "broken": None}
    out.update(out_cold)
    out["process_before"] = {"cwd": os.getcwd(), "recursion_limit": sys.getrecursionlimit()}

    def row_of(call: dict, res: dict) -> dict:
        row: dict = {"digest": digest(res), "summary": {k: res[k] for k in ("error", "site", "msg", "skipped", "stage") if k in res}}
        if "text" in res:
            row["summary"]["fallback"] = res["text"].startswith("//?: is-ssb-script")
        if "input_after" in res:
            row["input_same"] = res["input_after"] == res["input_before"]
        return row

    if arg.get("warm"):
        # the sequential results in this very process (also fills the parsers' shared caches)
        out["warm_results"] = [[row_of(c, do_call(Session(), c)) for c in p] for p in progs]
        gc.collect()
    rec = install() if arg.get("instrument") else None
    if rec is not None:
        rec.ev("call", 0)
    results: list[list] = [[] for _ in range(n)]
    errors: list[Any] = [None] * n

    if arg.get("mode") == "sched":
        from explorerscript.ssb_converting.decompiler.graph_building import graph_utils as gu
        sched = Sched(n, arg.get("seed", 0), arg.get("p_switch", 0.02), arg.get("switches"))
        tids: dict[int, int] = {}
        real_lock = _ORIG["lock"] if rec is not None else gu.cache_lock
        gu.cache_lock = SchedLock(real_lock, sched, tids, gu.cache_lock if rec is not None else None)
        names = tuple(os.sep + x for x in TRACED_REPO) + (tuple(os.sep + x for x in TRACED_ANTLR) if arg.get("antlr") else ())
        if arg.get("trace_only"):          # yield points in these files only (a scenario that aims at one piece of code)
            names = tuple(os.sep + x for x in arg["trace_only"])
        known: dict[str, bool] = {}

        def local_trace(frame: Any, event: str, a: Any) -> Any:
            if event == "line":
                me = tids.get(threading.get_ident())
                if me is not None:
                    sched.point(me)
            return local_trace

        def global_trace(frame: Any, event: str, a: Any) -> Any:
            if event != "call":
                return None
            fn = frame.f_code.co_filename
            k = known.get(fn)
            if k is None:
                k = fn.endswith(names) and ("explorerscript" in fn or "antlr4" in fn)
                known[fn] = k
            return local_trace if k else None

        def worker(i: int) -> None:
            tids[threading.get_ident()] = i
            try:
                sched.begin(i)
                sys.settrace(global_trace)
                sess = Session()
                for c in progs[i]:
                    results[i].append(row_of(c, do_call(sess, c)))
            except SchedBroken as e:
                errors[i] = "sched: " + str(e)
            except BaseException as e:  # noqa
                errors[i] = "harness: " + type(e).__name__ + ": " + str(e)[:200]
            finally:
                sys.settrace(None)
                try:
                    sched.end(i)
                except Exception:
                    pass

        ths = [threading.Thread(target=worker, args=(i,), daemon=True) for i in range(n)]
        for t in ths:
            t.start()
        deadline = time.time() + arg.get("budget_s", 120)
        for t in ths:
            t.join(max(0.1, deadline - time.time()))
        if any(t.is_alive() for t in ths):
            with sched.cv:
                sched.broken = sched.broken or "threads still running at the end of the time budget"
                sched.cv.notify_all()
            for t in ths:
                t.join(5)
        out["switches"] = sched.switches
        out["points"] = sched.points
        out["broken"] = sched.broken
        out["diverged"] = sched.diverged
        gu.cache_lock = real_lock if rec is None else LockProxy(real_lock)
    else:
        sys.setswitchinterval(arg.get("switchinterval", 1e-6))
        barrier = threading.Barrier(n)

        def worker2(i: int) -> None:
            try:
                barrier.wait(30)
                sess = Session()
                for c in progs[i]:
                    results[i].append(row_of(c, do_call(sess, c)))
            except BaseException as e:  # noqa
                errors[i] = "harness: " + type(e).__name__ + ": " + str(e)[:200]

        ths = [threading.Thread(target=worker2, args=(i,), daemon=True) for i in range(n)]
        for t in ths:
            t.start()
        deadline = time.time() + arg.get("budget_s", 120)
        for t in ths:
            t.join(max(0.1, deadline - time.time()))
        if any(t.is_alive() for t in ths):
            out["broken"] = "threads still running at the end of the time budget"
        sys.setswitchinterval(0.005)
    out["results"] = results
    out["errors"] = errors
    out["process_after"] = {"cwd": os.getcwd(), "recursion_limit": sys.getrecursionlimit()}
    if rec is not None:
        gc.collect()
        out["events"] = rec.events
        out["problems"] = rec.problems
    return out
