"""C01 — compiled bytecode behaves exactly as the source program says.
Deciding method: translation validation with a kernel-checked validator (ESV.Beh.check_sound): for every generated
program the real compiler's output is validated, routine by routine, against the Lean source semantics
(lean/ESV/Src/Sem.lean) on the Lean SSB machine (lean/ESV/Beh/Machine.lean)."""
from __future__ import annotations

import json
import os
from collections import Counter
from typing import Any

from .. import core, escommon
from ..gen import surface

MODULES = ["ESV.Props.C01", "ESV.Props.C01Backend", "ESV.Props.C01Frontend"]
THEOREMS = ["ESV.Beh.check_sound", "ESV.Beh.validate_sound", "ESV.C01.routine_validated", "ESV.C01.machines_validated",
            "ESV.C01.equivalent_halting_trace", "ESV.C01.jump_always_goes", "ESV.C01.flow_ending_ops_stop",
            "ESV.C01.branch_case_call_are_tests", "ESV.C01.tables_tied",
            # back end of the compiler preserves behaviour, for all well-formed labelled code (design_notes/C01_backend.md)
            "ESV.C01Backend.backend_preserves", "ESV.C01Backend.strip_preserves",
            "ESV.C01Backend.finalize_remover_preserves", "ESV.C01Backend.backend_preserves_noTrail",
            "ESV.Beh.sim_of_rel", "ESV.Beh.equiv_of_map",
            "ESV.C01Backend.ctx_jump_counterexample", "ESV.C01Backend.ctx_label_counterexample",
            "ESV.C01Backend.duplicate_label_counterexample", "ESV.C01Backend.cond_trailing_counterexample",
            "ESV.C01Backend.duplicate_offset_counterexample", "ESV.C01Backend.raw_jump_counterexample",
            "ESV.C01Backend.jump_root_counterexample",
            # the front end produces well-formed labelled code, for all guarded programs (design_notes/C01_frontend.md)
            "ESV.C01Frontend.frontend_wfl", "ESV.C01Frontend.compile_backend_equiv",
            "ESV.C01Frontend.duplicate_user_label_counterexample",
            # code generator / whole compiler correct on fragment F0 (straight-line routines)
            "ESV.C01Frontend.codegen_correct_F0", "ESV.C01Frontend.compile_correct_F0",
            "ESV.C01Frontend.codegen_correct_F1", "ESV.C01Frontend.compile_correct_F1", "ESV.Beh.E_sound",
            "ESV.C01Frontend.codegen_correct_F2", "ESV.C01Frontend.compile_correct_F2",
            "ESV.C01Frontend.codegen_correct_F3", "ESV.C01Frontend.compile_correct_F3",
            "ESV.C01Frontend.codegen_correct_F4", "ESV.C01Frontend.compile_correct_F4",
            "ESV.C01Frontend.undefined_label_counterexample"]


def table_mismatch(ast: dict, res: dict) -> str | None:
    exp = surface.routine_table(ast)
    n = max(exp) + 1 if exp else 0
    if not (len(res["infos"]) == len(res["coros"]) == len(res["ops"])):
        return "tables differ in length"
    if len(res["infos"]) != n:
        return f"expected {n} routines, got {len(res['infos'])}"
    for i, row in exp.items():
        info = res["infos"][i]
        if info is None:
            return f"routine {i} has no info"
        if info["type"] != row["type"] or info["linked_to"] != row["linked_to"] or (row["linked_to_name"] or None) != (info["linked_to_name"] or None):
            return f"routine {i}: info {info} expected {row}"
        if row["coro"] is not None and res["coros"][i] != row["coro"]:
            return f"routine {i}: coroutine name {res['coros'][i]} expected {row['coro']}"
    return None


def classify(ast: dict, verdict: dict) -> str:
    """named shape of a behavioural difference (only used to match known findings)"""
    return "behaviour_differs"


def check_one(ast: dict, text: str, res: dict, drv: core.Driver) -> list[tuple[str, str, dict]]:
    """full oracle for one program (used by shrinking and replay)"""
    out: list[tuple[str, str, dict]] = []
    if "error" in res:
        return out
    tm = table_mismatch(ast, res)
    if tm:
        out.append(("routine_table", tm, {}))
    rep = drv.batch(escommon.validate_requests([(surface.lower_program(ast), res["ops"])]))[0]
    for v in escommon.routine_verdicts(rep):
        if v["verdict"] in escommon.BAD_VERDICTS:
            out.append((classify(ast, v), f"routine {v['r']}: {v['verdict']} {v.get('why', '')} after tests {v.get('path')}", v))
    return out


def has_jump_in_with(text: str) -> bool:
    """a jump / control statement directly in a with-block: the one shape for which `WFL` is known to be false
    (design_notes/C01_backend.md, `ctx_jump_counterexample`); the generators do not produce it"""
    import re
    return re.search(r"with\s*\([^)]*\)\s*\{\s*(jump|break_loop|continue|break|return|end|hold)\b", text) is not None


def wfl_tie(run: core.Run, drv: Any, ok_cases: list, jobs: int) -> Counter:
    """`comp.wfl`: the decidable hypothesis `WFL` of `backend_preserves`, evaluated by the Lean driver on the labelled code
    the model's front end (tied to the real compiler by C03) produces for every generated program that compiles."""
    from ..gen import complower
    st: Counter = Counter()
    reqs = []
    keep = []
    for c, r in ok_cases:
        try:
            reqs.append({"op": "comp.wfl", "prog": complower.program(c["ast"], r.get("macro_order"))})
            keep.append(c)
        except Exception as e:  # noqa
            st["not_lowered"] += 1
    reps = drv.batch_parallel(reqs, jobs) if reqs else []
    # tie of `toSrc` (ESV/Comp/ToSrc.lean): the core program sent to the language semantics = toSrc of the compiler model's input
    treps = drv.batch_parallel([{"op": "comp.tosrc", "prog": q["prog"], "core": surface.lower_program(c["ast"])} for q, c in zip(reqs, keep)], jobs) if reqs else []
    tshown = 0
    for c, rep in zip(keep, treps):
        if "error" in rep:
            st["tosrc_error"] += 1
        elif rep.get("agree") is True:
            st["tosrc_agree"] += 1
            if rep.get("f0"):
                st["in_F0"] += 1
            if rep.get("f1"):
                st["in_F1"] += 1
            if rep.get("f2"):
                st["in_F2"] += 1
            if rep.get("f3"):
                st["in_F3"] += 1
            if rep.get("f4"):
                st["in_F4"] += 1
            elif rep.get("f4why"):
                st["not_F4:" + rep["f4why"][:70]] += 1
        else:
            st["tosrc_differs"] += 1
            tshown += 1
            if tshown <= 3:
                run.broken_tie("toSrc of the compiler model's input differs from the core program lowered for the language semantics", {"text": c["text"]})
    shown = 0
    for c, rep in zip(keep, reps):
        if "error" in rep:
            st["frontend_error:" + str(rep["error"])[:40]] += 1
        elif rep.get("wfl") is True:
            st["wfl_true"] += 1
            # FrontGuard: the decidable guard of the theorem frontend_wfl (guard => WFL, for all programs)
            st["guard_true" if rep.get("guard") else "guard_false"] += 1
        else:
            failing = ",".join(k for k in ("distinct", "labels", "raw", "root", "ctx", "cond") if rep.get(k) is False)
            st["wfl_false:" + failing] += 1
            if rep.get("guard"):
                run.broken_tie("FrontGuard holds but WFL is false: contradicts the theorem frontend_wfl (driver / model drift)", {"text": c["text"], "conjuncts": rep})
            if failing == "ctx" and has_jump_in_with(c["text"]):
                continue  # known shape, outside the theorem's hypothesis
            shown += 1
            if shown <= 3:
                run.broken_tie("WFL (hypothesis of backend_preserves) is false on the front-end model's output", {"text": c["text"], "conjuncts": rep})
    return st


def run(run: core.Run) -> int:
    from .. import impl_es, astdump
    n = 2500 if run.tier == "quick" else 16000
    prep = core.lean_prepare(MODULES)
    aud = core.audit(THEOREMS, MODULES) if prep["proofs_ok"] else {"obligations": len(THEOREMS), "discharged": 0, "ok": False, "theorems": {}}
    jobs = core.jobs_for(run.tier)
    cases = []
    corpus = os.path.join(core.ROOT, "corpus", "c01.jsonl")
    if os.path.exists(corpus):
        for l in open(corpus):
            if l.strip():
                c = json.loads(l)
                cases.append({"ast": astdump.strip_hints(astdump.dump_text(c["text"])), "text": c["text"], "pos": {}, "stats": {}, "corpus": c.get("name")})
    cases += escommon.gen_programs(run.rng, n, escommon.default_cfgs(run.tier))
    pool = core.Pool(jobs)
    try:
        results = escommon.compile_all(pool, [c["text"] for c in cases])
    finally:
        pool.close()
    stats: Counter = Counter()
    gstats: Counter = Counter()
    for c in cases:
        gstats.update(c["stats"])
    ok_cases = []
    glue_bad = 0
    for c, r in zip(cases, results):
        if "error" in r:
            stats["compile_error:" + r["error"]] += 1
            if r["error"] not in ("SsbCompilerError", "ParseError", "ValueError") and not c.get("corpus"):
                run.notes.append(f"undocumented exception {r['error']} at {r.get('site')} (C10's business): {c['text'][:200]!r}")
            continue
        ok_cases.append((c, r))
        # glue cross-check: the repo's parser sees the AST the generator printed
        try:
            if astdump.strip_hints(astdump.dump_text(c["text"])) != astdump.strip_hints(c["ast"]):
                glue_bad += 1
                if glue_bad <= 2:
                    run.broken_tie("printer/astdump glue: parsed AST differs from generated AST", {"text": c["text"]})
        except Exception as e:  # noqa
            glue_bad += 1
    n_viol = 0
    routines = 0
    if prep["driver_ok"]:
        drv = core.Driver()
        reps = drv.batch_parallel(escommon.validate_requests([(surface.lower_program(c["ast"]), r["ops"]) for c, r in ok_cases]), jobs)
        for (c, r), rep in zip(ok_cases, reps):
            tm = table_mismatch(c["ast"], r)
            bad: list[tuple[str, str, dict]] = [("routine_table", tm, {})] if tm else []
            for v in escommon.routine_verdicts(rep):
                stats[v["verdict"]] += 1
                routines += 1
                if v["verdict"] in escommon.BAD_VERDICTS:
                    bad.append((classify(c["ast"], v), f"routine {v['r']}: {v['verdict']} {v.get('why', '')} after test outcomes {v.get('path')}", v))
                elif v["verdict"] in ("budget", "driver-error"):
                    run.notes.append(f"validator gave {v['verdict']}: {v.get('why')}")
            if bad:
                n_viol += 1
                if n_viol <= 3:
                    kinds = {b[0] for b in bad}

                    def still(a: dict) -> bool:
                        t, _ = surface.print_program(a)
                        rr = impl_es.compile_text({"text": t})
                        return any(k in kinds for k, _, _ in check_one(a, t, rr, drv))
                    small = escommon.shrink(c["ast"], still, budget=150 if run.tier == "quick" else 400)
                    st, _ = surface.print_program(small)
                    sr = impl_es.compile_text({"text": st})
                    sb = check_one(small, st, sr, drv) or bad
                    run.violation(sb[0][0], sb[0][1], {"text": st, "ops": sr.get("ops"), "verdict": sb[0][2], "original_text": c["text"]})
                else:
                    run.violation(bad[0][0], bad[0][1], {"text": c["text"], "ops": r["ops"], "verdict": bad[0][2]})
    # hypothesis of the back-end theorem (ESV.C01Backend.backend_preserves) on what the front-end model produces
    wfl_stats: Counter = Counter()
    if prep["driver_ok"]:
        wfl_stats = wfl_tie(run, drv, ok_cases, jobs)
    if not prep["proofs_ok"] or not aud["ok"] or not prep["driver_ok"]:
        run.broken_tie("Lean obligations of C01 do not check (build/audit/table tie)", {"theorems": THEOREMS, "log": prep["log"][-3000:], "audit": {k: v for k, v in aud.items() if k != "theorems"}})
    cov = {
        "programs": len(ok_cases), "disagreements_checked": n_viol,
        "samples": [c["text"] for c, _ in ok_cases[:2]],
        "routines_validated": routines, "verdicts": dict(stats), "constructs_generated": dict(gstats),
        "evaluations": len(cases), "distinct_nontrivial": core.distinct(c["text"] for c, _ in ok_cases),
        "rule": "grammar-directed random programs (all statement forms, header kinds, loops, switches with fall-through/default, labels+jump/call incl. cross-routine, with-blocks, inline ctx, message switches, alias routines, missing terminators) + committed corpus; programs with op-free cycles are outside the quantifier and counted as silent-left; non-trivial = compiles",
        "obligations": aud["obligations"], "discharged": aud["discharged"] if prep["proofs_ok"] else 0,
        "checker_cmd": "lake build ESV.Props.C01; esvdrive beh.validate (search + verified check)",
        "trusted_base": ["Lean 4.33 kernel + propext/Classical.choice/Quot.sound", "Lean compiler for executing validate in the driver",
                         "harness lowering table harness/gen/surface.py (spec reading) and printer/astdump glue (cross-checked per program)"],
        "theorems": THEOREMS, "axioms": aud.get("theorems", {}), "tables": prep.get("tables"), "glue_mismatches": glue_bad, "backend_wfl": dict(wfl_stats),
    }
    return run.finish("translation_validation", cov, [
        "Src.sem (lean/ESV/Src/Sem.lean + harness/gen/surface.py lowering) is this project's reading of docs/language_spec.rst",
        "ANTLR parser is not modelled: generated ASTs are printed and must parse back to the same AST",
        "no forall-programs theorem about the compiler itself is claimed; each verdict is per program, by a proven checker",
    ])


def replay(run: core.Run, path: str) -> int:
    from .. import impl_es, astdump
    data = json.load(open(path))
    text = data["replay"]["text"]
    core.lean_prepare([], need_driver=True)
    ast = astdump.strip_hints(astdump.dump_text(text))
    res = impl_es.compile_text({"text": text})
    bad = check_one(ast, text, res, core.Driver())
    for k, w, _ in bad:
        print("VIOLATION-REPLAY", k, w)
    return 1 if bad else 0
