"""C07 — SsbScript is a lossless spelling of SSB ops.

Deciding method: Lean theorems ESV.C07.* about the model ESV/SsbScript/Model.lean (decompiler: resolver +
process_op_for_jump + SsbScriptSsbDecompiler down to a statement AST; compiler: listener events + remover).
Tie to /repo on every run, three channels, all exact:
  wf    generated well-formed routine sets: real decompile -> text; text -> AST by walking the repo's own parse tree
        (harness/astdump_ssbs.py) == Lean decompile; real compile(text) == Lean compile(that AST) == Lean canon(x)
  ill   the same with one well-formedness clause broken (exception classes / outputs must agree)
  ast   hand-shaped SsbScript ASTs printed by the harness: astdump(print(ast)) == ast, real compile == Lean compile
The property oracle (y ≅ x) is computed here in Python on the real outputs, independently of the model.
The literal layer (how a parameter is printed and lexed) belongs to C04; strings are kept mild here."""
from __future__ import annotations

import json
import os
from typing import Any

from .. import core
from ..gen import ssb as G
from ..gen import ssbs_ast as A

MODULES = ["ESV.Props.C07"]
THEOREMS = [
    "ESV.C07.ssbscript_roundtrip", "ESV.C07.roundtrip_eq_canon", "ESV.C07.canon_iso",
    "ESV.C07.decompile_ok", "ESV.C07.compile_by_name",
    "ESV.C07.label_resolves_to_next_op", "ESV.C07.label_across_routines", "ESV.C07.alias_routine",
    "ESV.C07.jump_marker_not_last_dropped",
    "ESV.C07.renumber_order_preserving", "ESV.C07.renumber_bijective", "ESV.C07.jump_table_wellformed",
    "ESV.C07.jump_not_last_counterexample", "ESV.C07.generic_target_lost_counterexample",
    "ESV.C07.named_target_number_lost_counterexample", "ESV.C07.dangling_target_counterexample",
    "ESV.C07.routine_id_checked", "ESV.C07.compile_result_is_routine_set", "ESV.C07.routine_id_rejected_examples",
    "ESV.C07.repeated_routine_id_example",
]

FIXED = [
    # 3 routines + coroutine, cross-routine jumps both ways, alias routine, label on the first op of a later routine
    {"infos": [{"type": "GENERIC", "linked_to": 0, "linked_to_name": None}, {"type": "ACTOR", "linked_to": 5, "linked_to_name": None},
               {"type": "OBJECT", "linked_to": -1, "linked_to_name": "OBJ_X"}, {"type": "COROUTINE", "linked_to": 0, "linked_to_name": None}],
     "coros": [None, None, None, "CORO_A"],
     "ops": [[{"off": 10, "name": "Jump", "params": [30]}, {"off": 12, "name": "foo", "params": [1, {"c": "C"}, {"s": "hi"}]}],
             [],
             [{"off": 30, "name": "Branch", "params": [1, 2, 10]}, {"off": 33, "name": "Return", "params": []}],
             [{"off": 40, "name": "Call", "params": [40]}, {"off": 41, "name": "lives", "params": [3]},
              {"off": 42, "name": "CaseText", "params": [{"ls": [["english", "a"], ["german", "b"]]}, {"pm": ["m", 0, 2, 3, 4]}, {"fx": "1.50"}]}]]},
    {"infos": [], "coros": [], "ops": []},
    {"infos": [{"type": "PERFORMER", "linked_to": 0, "linked_to_name": None}], "coros": [None], "ops": [[]]},
    {"infos": [{"type": "GENERIC", "linked_to": 0, "linked_to_name": None}] * 3, "coros": [None] * 3,
     "ops": [[], [], [{"off": 0, "name": "Jump", "params": [0]}]]},
]


# ---- property oracle: independent reading of the statement on the implementation's real outputs ------------------------
def keyword_op(x: dict) -> bool:
    return any(o["name"] in G.KEYWORDS for r in x["ops"] for o in r)


def oracle(x: dict, res: dict) -> list[tuple[str, str]]:
    """[(kind, what)] — kind is a narrow shape predicate of the failing case"""
    jt = G.jump_table()
    if "__timeout__" in res or "__died__" in res or "__exc__" in res or "harness_exc" in res:
        return [("no_answer", f"decompile/compile did not answer: {json.dumps(res)[:200]}")]
    for stage, key in (("decompile", "dec_exc"), ("compile", "comp_exc")):
        if key in res:
            cls = res[key]["cls"]
            if cls == "ParseError" and keyword_op(x):
                return [("opcode_name_is_keyword", f"{stage} raised {cls}: {res[key]['msg'][:120]}")]
            return [(f"{stage}_raises_{cls}", f"{stage} raised {cls}: {res[key]['msg'][:160]}")]
    y = res["out"]
    bad: list[tuple[str, str]] = []
    if len(y["infos"]) != len(x["infos"]) or len(y["ops"]) != len(x["ops"]):
        return [("routine_count", f"{len(x['infos'])} routines in, {len(y['infos'])} infos / {len(y['ops'])} op lists out")]
    for i, (a, b) in enumerate(zip(x["infos"], y["infos"])):
        if b is None or b["type"] != a["type"]:
            bad.append(("routine_kind", f"routine {i}: kind {a['type']} became {b and b['type']}"))
        elif a["type"] in ("ACTOR", "OBJECT", "PERFORMER") and (b["linked_to"], b["linked_to_name"]) != (a["linked_to"], a["linked_to_name"]):
            bad.append(("routine_target", f"routine {i}: target {(a['linked_to'], a['linked_to_name'])} became {(b['linked_to'], b['linked_to_name'])}"))
        elif a["type"] == "COROUTINE":
            got = y["coros"][i] if i < len(y["coros"]) else None
            if got != x["coros"][i]:
                bad.append(("coroutine_name", f"routine {i}: coroutine name {x['coros'][i]!r} became {got!r}"))
    if [len(r) for r in y["ops"]] != [len(r) for r in x["ops"]]:
        bad.append(("op_count", f"ops per routine {[len(r) for r in x['ops']]} became {[len(r) for r in y['ops']]}"))
        return bad
    xf = [o for r in x["ops"] for o in r]
    yf = [o for r in y["ops"] for o in r]
    ypos = {}
    for k, o in enumerate(yf):
        if o["off"] in ypos:
            bad.append(("offset_not_unique", f"compiled offset {o['off']} used twice"))
        ypos[o["off"]] = k
    for k, (a, b) in enumerate(zip(xf, yf)):
        if a["name"] != b["name"]:
            bad.append(("op_name", f"op {k}: {a['name']} became {b['name']}"))
            continue
        if a["name"] in jt:
            idx = jt[a["name"]]
            if len(b["params"]) != len(a["params"]) or a["params"][:idx] + a["params"][idx + 1:] != b["params"][:idx] + b["params"][idx + 1:]:
                shape = "jump_param_not_last" if idx != len(a["params"]) - 1 else "op_params"
                bad.append((shape, f"op {k} {a['name']}: params {a['params']} became {b['params']}"))
                continue
            v = b["params"][idx]
            if not isinstance(v, int) or v not in ypos:
                bad.append(("jump_target_dangling", f"op {k} {a['name']}: jump parameter {v!r} is not the offset of a compiled op"))
            elif xf[ypos[v]]["off"] != a["params"][idx]:
                bad.append(("jump_target_wrong", f"op {k} {a['name']}: target {a['params'][idx]} became op #{ypos[v]} (was at {xf[ypos[v]]['off']})"))
        elif a["params"] != b["params"]:
            bad.append(("op_params", f"op {k} {a['name']}: params {a['params']} became {b['params']}"))
    return bad


def run_impl(pool: core.Pool, cases: list[dict], chunk: int = 40, timeout: float = 120.0) -> list[dict]:
    chunks = [cases[i:i + chunk] for i in range(0, len(cases), chunk)]
    outs = pool.map("harness.impl_ssbs:run_cases", chunks, timeout=timeout)
    results: list[dict] = []
    for ch, o in zip(chunks, outs):
        if isinstance(o, list) and len(o) == len(ch):
            results += o
        else:
            # a chunk that timed out / died is re-run case by case with a 10x limit before anything counts
            singles = pool.map("harness.impl_ssbs:run_cases", [[c] for c in ch], timeout=timeout * 10)
            for s in singles:
                results.append(s[0] if isinstance(s, list) and len(s) == 1 else (s if isinstance(s, dict) else {"__exc__": "garbled"}))
    return results


def impl_class(res: dict) -> tuple[str, Any]:
    """canonical (stage, payload) of an implementation result for comparison with the model"""
    if "dec_exc" in res:
        return "dec_err", res["dec_exc"]["cls"]
    return "dec_ok", res.get("ast")


def run(run: core.Run) -> int:
    quick = run.tier == "quick"
    n_wf, n_ill, n_ast = (500, 250, 300) if quick else (50000, 8000, 10000)
    prep = core.lean_prepare(MODULES)
    aud = core.audit(THEOREMS, MODULES) if prep["proofs_ok"] else {"obligations": len(THEOREMS), "discharged": 0, "ok": False, "theorems": {}}
    jobs = core.jobs_for(run.tier)
    # the oracle and the generators decide "which parameter is a jump target" by the PINNED table (harness/spec_tables.py,
    # generated from lean/ESV/Beh/Spec.lean), not by /repo's OPS_WITH_JUMP_TO_MEM_OFFSET
    from .. import spec_tables
    sync = spec_tables.in_sync()
    if sync:
        run.broken_tie("pinned Python specification tables are out of date", {"detail": sync})
    gstats: dict = {}
    wf_cases: list[dict] = list(FIXED)
    corpus = os.path.join(core.ROOT, "corpus", "c07.jsonl")
    if os.path.exists(corpus):
        wf_cases += [json.loads(l) for l in open(corpus) if l.strip()]
    n_fixed = len(wf_cases)
    wf_cases += [G.gen_set(run.rng, gstats) for _ in range(n_wf)]
    # keyword-named opcodes: inside the property's "arbitrary opcode names" (known finding opcode_name_is_keyword)
    kw_cases = []
    for kw in sorted(G.KEYWORDS):
        kw_cases.append({"infos": [{"type": "GENERIC", "linked_to": 0, "linked_to_name": None}], "coros": [None],
                         "ops": [[{"off": 0, "name": kw, "params": []}]]})
    n_exh = 0
    if not quick:
        exh = list(G.exhaustive(3, ["Jump", "Call", "Branch", "Case", "Return", "Null"]))
        exh += list(G.exhaustive(4, ["Jump", "Branch", "Return", "Null", "End", "lives"], two_routines_only_at_max=False))
        n_exh = len(exh)
        wf_cases += exh
    ill_cases = [G.illformed(run.rng, wf_cases[n_fixed + (i % n_wf)]) for i in range(n_ill)]
    asts = [A.gen_ast(run.rng) for _ in range(n_ast)]
    texts = [A.print_ast(a, run.rng) for a in asts]

    pool = core.Pool(jobs)
    try:
        all_in = [{"set": c} for c in wf_cases] + [{"set": c} for c in kw_cases] + [{"set": c} for c, _ in ill_cases] + [{"text": t} for t in texts]
        all_out = run_impl(pool, all_in)
    finally:
        pool.close()
    a0, a1, a2 = len(wf_cases), len(wf_cases) + len(kw_cases), len(wf_cases) + len(kw_cases) + len(ill_cases)
    wf_res, kw_res, ill_res, ast_res = all_out[:a0], all_out[a0:a1], all_out[a1:a2], all_out[a2:]

    # ---- property oracle on the real outputs -------------------------------------------------------------------------
    n_viol = 0
    for x, r in list(zip(wf_cases, wf_res)) + list(zip(kw_cases, kw_res)):
        for kind, what in oracle(x, r):
            n_viol += 1
            run.violation(kind, what, {"case": x, "impl": {k: v for k, v in r.items() if k in ("text", "out", "dec_exc", "comp_exc")}})

    # ---- correspondence with the Lean model --------------------------------------------------------------------------
    mism = 0
    stats = {"wf_cases": len(wf_cases), "exhaustive_cases": n_exh, "illformed_cases": len(ill_cases), "ast_cases": len(asts),
             "ill_outcomes": {}, "ast_outcomes": {}, "labels": 0, "jump_ops": 0}

    def tie(what: str, detail: dict) -> None:
        nonlocal mism
        mism += 1
        if mism <= 3:
            run.broken_tie(what, detail)

    lean_ok = prep["driver_ok"]
    if lean_ok:
        drv = core.Driver()
        sets = wf_cases + [c for c, _ in ill_cases]
        sres = wf_res + ill_res
        reqs: list[dict] = [{"op": "ssbs.all", "set": c} for c in sets]
        # the Lean compiler runs on the AST of the text the real decompiler printed (or of the harness-printed text)
        comp_idx: list[int] = []
        for i, r in enumerate(sres):
            if isinstance(r, dict) and "ast" in r:
                comp_idx.append(i)
                reqs.append({"op": "ssbs.compile", "ast": r["ast"]})
        reqs += [{"op": "ssbs.compile", "ast": a} for a in asts]
        reps = drv.batch_parallel(reqs, jobs)
        ns = len(sets)
        comp_rep = {i: reps[ns + k] for k, i in enumerate(comp_idx)}
        ast_rep = reps[ns + len(comp_idx):]
        for i, (c, r) in enumerate(zip(sets, sres)):
            is_wf = i < len(wf_cases)
            tag = "wf" if is_wf else ill_cases[i - len(wf_cases)][1]
            m = reps[i]
            if "error" in m:
                tie("Lean driver rejected a routine set", {"channel": tag, "case": c, "model": m})
                continue
            if not isinstance(r, dict) or "harness_exc" in r or "__timeout__" in r or "__died__" in r or "__exc__" in r:
                continue  # counted by the oracle (wf) / not comparable (ill)
            if is_wf and not m["wf"]:
                tie("generator produced a set outside WF' (generator and theorem hypothesis must coincide)", {"channel": tag, "case": c})
            if is_wf and m["rt"].get("set") != m["canon"]:
                tie("model: compile (decompile x) differs from canon x on a WF' input (theorem instance fails)", {"channel": tag, "case": c, "model": m})
            if not is_wf:
                key = tag + ":" + (r.get("dec_exc", {}).get("cls") or r.get("comp_exc", {}).get("cls") or "ok")
                stats["ill_outcomes"][key] = stats["ill_outcomes"].get(key, 0) + 1
            if "dec_exc" in r:
                if m["dec"].get("err") != r["dec_exc"]["cls"]:
                    tie(f"correspondence C07/{tag}: decompiler raised {r['dec_exc']['cls']}, model says {json.dumps(m['dec'])[:200]}",
                        {"channel": tag, "case": c, "impl": r["dec_exc"], "model": m["dec"]})
                continue
            if "ast_exc" in r:
                if not (r.get("comp_exc", {}).get("cls") == "ParseError"):
                    tie("astdump failed on text the compiler accepted", {"channel": tag, "case": c, "impl": r})
                continue
            if m["dec"].get("ast") != r["ast"]:
                tie(f"correspondence C07/{tag}: statement AST of the decompiled text differs from the model's",
                    {"channel": tag, "case": c, "text": r["text"], "impl_ast": r["ast"], "model": m["dec"]})
                continue
            mc = comp_rep[i]
            if "comp_exc" in r:
                if mc.get("err") != r["comp_exc"]["cls"]:
                    tie(f"correspondence C07/{tag}: compiler raised {r['comp_exc']['cls']}, model says {json.dumps(mc)[:200]}",
                        {"channel": tag, "case": c, "text": r["text"], "impl": r["comp_exc"], "model": mc})
            elif mc.get("out") != r["out"]:
                tie(f"correspondence C07/{tag}: compiled routine set differs from the model's",
                    {"channel": tag, "case": c, "text": r["text"], "impl_out": r["out"], "model": mc})
            if is_wf and "ast" in r:
                for rt in r["ast"]:
                    for s in rt["body"] or []:
                        stats["labels"] += "l" in s
                        stats["jump_ops"] += "op" in s and any(isinstance(a, dict) and "j" in a for a in s["args"])
        for a, t, r, m in zip(asts, texts, ast_res, ast_rep):
            if not isinstance(r, dict) or "harness_exc" in r or "__timeout__" in r or "__died__" in r:
                tie("implementation gave no answer on a harness-printed SsbScript text", {"channel": "ast", "text": t, "impl": r})
                continue
            key = r.get("comp_exc", {}).get("cls") or "ok"
            stats["ast_outcomes"][key] = stats["ast_outcomes"].get(key, 0) + 1
            if r.get("ast") != a:
                tie("astdump(print(ast)) != ast (trusted glue cross-check)", {"channel": "ast", "text": t, "ast": a, "dumped": r.get("ast"), "exc": r.get("ast_exc")})
                continue
            if "comp_exc" in r:
                if m.get("err") != r["comp_exc"]["cls"]:
                    tie(f"correspondence C07/ast: compiler raised {r['comp_exc']['cls']}, model says {json.dumps(m)[:200]}",
                        {"channel": "ast", "text": t, "ast": a, "impl": r["comp_exc"], "model": m})
            elif m.get("out") != r["out"]:
                tie("correspondence C07/ast: compiled routine set differs from the model's", {"channel": "ast", "text": t, "ast": a, "impl_out": r["out"], "model": m})
    if not prep["proofs_ok"] or not aud["ok"] or not lean_ok:
        run.broken_tie("Lean obligations of C07 do not check (build/audit)", {"theorems": THEOREMS, "log": prep["log"][-3000:], "audit": aud})
    if not quick and prep["proofs_ok"]:
        ok, out = core.leanchecker(MODULES)
        stats["leanchecker"] = "ok" if ok else out[-300:]
        if not ok:
            run.broken_tie("leanchecker rejects the C07 modules", {"log": out})
    stats["generator"] = gstats
    stats["keyword_opcode_probe"] = {c["ops"][0][0]["name"]: (r.get("comp_exc", {}).get("cls") or "ok") for c, r in zip(kw_cases, kw_res) if isinstance(r, dict)}
    nontrivial = [c for c in wf_cases if any(o["name"] in G.jump_table() for rt in c["ops"] for o in rt)]
    cov = core.proof_coverage(run, prep, aud, MODULES, THEOREMS, {
        "evaluations": len(wf_cases) + len(kw_cases) + len(ill_cases) + len(asts),
        "distinct_nontrivial": core.distinct(nontrivial),
        "rule": "well-formed routine sets (WF' of ESV/SsbScript/Model.lean, checked per case by the Lean driver): 1-5 routines of all five "
                "kinds incl. empty ones, strictly increasing offsets with gaps, every opcode of OPS_WITH_JUMP_TO_MEM_OFFSET with its arity, "
                "targets: self/next/previous/first op of another or later routine/last/first/any; all parameter kinds with mild strings; "
                "thorough adds every set with <=3 ops over {Jump,Call,Branch,Case,Return,Null} and <=4 ops over {Jump,Branch,Return,Null,End,lives} "
                "in one or two routines (all split points, all targets). Plus ill-formed variants (one clause broken, correspondence only) and "
                "hand-shaped SsbScript ASTs (compile channel). non-trivial = contains at least one jump-carrying op",
        "samples": wf_cases[n_fixed:n_fixed + 2] + [{"ast": asts[0], "text": texts[0]}] if asts else [],
        "generator_stats": stats, "correspondence_mismatches": mism, "oracle_violations": n_viol,
    })
    return run.finish("proof", cov, [
        "text layer: the statement AST is read off the real decompiler's text with the repository's own SsbScript parser and literal functions "
        "(harness/astdump_ssbs.py, trusted glue, cross-checked by astdump(print(ast)) == ast); printing/lexing of parameter literals is property C04",
        "opcode, coroutine and target names are SsbScript IDENTIFIER tokens (keyword-named opcodes: known finding opcode_name_is_keyword); "
        "strings avoid backslashes (C04)",
        "WF': equal list lengths; strictly increasing offsets; every jump-table op has exactly index+1 params with an int target that is an op offset; "
        "GENERIC/COROUTINE have linked_to 0 and no target name; a named target has linked_to -1 and a non-empty name; coroutines are named; no INVALID kind",
    ])


def replay(run: core.Run, path: str) -> int:
    data = json.load(open(path))
    rp = data["replay"]
    if "case" not in rp or not isinstance(rp["case"], dict) or "ops" not in rp["case"]:
        print("replay file carries no routine set (tie-only break):", data.get("what"))
        return 1
    from ..impl_ssbs import roundtrip
    case = rp["case"]
    r = roundtrip(case)
    if "text" in r:
        print(r["text"])
    v = oracle(case, r)
    for kind, what in v:
        print("VIOLATION-REPLAY", kind, what)
    if not v:
        print("property holds on this input now; compiled:", json.dumps(r.get("out"))[:500])
    return 1 if v else 0
