"""C18 — the position-mark listing delimits every Position literal exactly.

Deciding method
  * Lean (ESV.C18.*): span/splice algebra on text, for ALL texts: `offset_position_inverse` (ANTLR's line/column bookkeeping
    and `offsetOf` are inverse), `splice_local` (replacing the span first-character … last-character of a literal standing
    between `pre` and `post` yields `pre ++ new ++ post`, multi-line literals and non-ASCII text included), `splice_tokens`
    (on the C16 lexer model the token sequence changes exactly in the tokens of the literal), `printed_mark_tokens` (the printed
    form of a mark is a Position literal token sequence with safe inner boundaries) and `posmark_print_parse` (C04).
  * Ties: Lean `replaceSpan` vs the harness' Python splice on the same inputs (valid and invalid spans); Lean `posOf` vs the
    (line, column) the ANTLR lexer reports for every token.  ANTLR's token positions themselves are trusted / differential.
  * Property oracle on the real code, for generated programs with Position literals wherever the grammar allows them:
    (a) listing == printer's positions, in source order, one entry per literal; (b) listing fields == the literal's value ==
    the compiled parameter(s) of that literal; (c) splice an edited mark into the delimited span and recompile: all ops equal
    except the parameter(s) of that literal, which equal the edited mark; the listing of the new text changes in that entry only."""
from __future__ import annotations

import copy
import json
import random
import re
from collections import Counter
from typing import Any

from .. import core, escommon
from ..gen import surface
from ..gen.programs import ProgGen
from .c16 import add_macros

MODULES = ["ESV.Props.C18"]
THEOREMS = [
    "ESV.C18.offset_position_inverse", "ESV.C18.position_offset_inverse", "ESV.C18.splice_local", "ESV.C18.splice_tokens",
    "ESV.C18.splice_printed_mark", "ESV.C18.printed_mark_tokens", "ESV.C18.posmark_print_parse", "ESV.C18.span_examples",
]

NAME_BASES = ["m", "Mark", "p_1", "", "é", "a b", "x,y", "<p>", "it's", 'say "hi"', "😀", "//c", "/*x*/", "Position<", ">",
              # backslashes that are not part of \' \" \n and not last: spelled and printed verbatim, read back unchanged
              "dir\\sub", "C:\\maps\\top", "a\\\\b", "x\\ y", "\\é",
              # characters whose Unicode normal forms differ (NFC shortens / NFD lengthens / NFKC changes)
              "e\u0301", "か\u3099", "\u1100\u1161", "\u00e9", "\uac00", "\ufb01", "\u2126", "\u212b", "\u00bd"]
# string arguments placed in front of literals: text whose NFC / NFD / NFKC / NFKD forms have another length or other code points
UNICODE_STRINGS = ["e\u0301", "cafe\u0301 か\u3099", "\u1100\u1161\u11a8", "\uac00\u00e9\u00c5", "\ufb01\ufb02 \u338f", "\u2126 \u212b \u00bd", "A\u030a\u0301o\u0308",
                   "\U0001d15e", "\uff21\uff42"]
NUM_SPELLINGS = ["0", "12", "-3", "0x1F", "0o17", "0b101", "-0X2", "00", ".5", "0.5", "3.5", "3.50", "7.0", "7.000", "-2.5", "-0.5",
                 "007.5", "00.50", ".0", "0.0", "255", "-12.5"]
# texts every run evaluates with the same oracle (boundary shapes, and the witness of the known finding)
WITNESSES = [
    "def 0 { a(Position<'m', -.5, 0>); }\n",
    "def 0 { a(Position<'m', 1, 2.5>, 3, Position<\"b\",\n   0x10 , .5 >); ~m(Position<'c',1,1>); }\nmacro m($x) { bar(Position<'d', 7.0, 8>, $x); }\n",
    "def 0 { a('äöü😀', Position<'é😀', 1, 0>,); /* ß */ b(Position /* c */ < 'n' // x\n , 1 \\\n , 2 >); }\n",
    "def 0 {\r\n a(Position<'m', 1, 2>);\r b(Position<'n', 1, 2>); }\n",
]


# ----------------------------------------------------------------------------------------------------------------------
# generator
# ----------------------------------------------------------------------------------------------------------------------
def printable_name(n: str) -> bool:
    """does str(SsbOpParamPositionMarker(n, ...)) read back as the name n?  The printed form puts the name verbatim between
    single quotes: it must not contain a single quote, a line break or form feed; no backslash directly before a quote
    character or the letter n (the reader replaces \\" \\' \\n); and, taking every backslash together with the character
    after it as the lexer does, no backslash may be left over at the end.  (C04: SQ not in name, NL not in name, GuardS SQ name;
    compared with the real printer + compiler on every name of length <= 4 over {\\, ', ", n, a, blank}.)"""
    if any(c in n for c in "'\n\r\x0c") or '\\"' in n or "\\n" in n:
        return False
    i = 0
    while i < len(n):
        if n[i] == "\\":
            if i + 1 >= len(n):
                return False
            i += 2
        else:
            i += 1
    return True


def new_pos(r: random.Random) -> dict:
    return {"k": "pos", "name": r.choice(NAME_BASES), "x": r.choice(NUM_SPELLINGS), "y": r.choice(NUM_SPELLINGS), "quote": r.choice(["'", '"'])}


def arglists(ast: dict) -> list[tuple[list, str, Any, Any]]:
    """every argument list of the program: (args, place, macro the list stands in | None, called macro | None)"""
    out: list = []

    def hdr(h: dict, place: str, where: Any) -> None:
        if h["h"] == "operation":
            out.append((h["args"], place, where, None))

    def walk(stmts: list, where: Any) -> None:
        for s in stmts:
            t = s["t"]
            if t == "op":
                out.append((s["args"], "inline_ctx_op" if s.get("ctx") else "op", where, None))
            elif t == "with":
                if s["stmt"]["t"] == "op":
                    out.append((s["stmt"]["args"], "with_block", where, None))
            elif t == "macrocall":
                out.append((s["args"], "macro_call_arg", where, s["name"]))
            elif t == "if":
                for b in s["branches"]:
                    for h in b["headers"]:
                        hdr(h, "if_header", where)
                    walk(b["body"], where)
                if s.get("else") is not None:
                    walk(s["else"], where)
            elif t == "switch":
                if s["header"]["s"] == "operation":
                    out.append((s["header"]["args"], "switch_header", where, None))
                for c in s["cases"]:
                    walk(c["body"], where)
            elif t == "forever":
                walk(s["body"], where)
            elif t == "while":
                hdr(s["header"], "while_header", where)
                walk(s["body"], where)
            elif t == "for":
                for part in (s["init"], s["inc"]):
                    if part["t"] == "op":
                        out.append((part["args"], "for_header", where, None))
                hdr(s["header"], "for_header", where)
                walk(s["body"], where)
    for m in ast.get("macros", []):
        walk(m["body"], m["name"])
    for rt in ast["routines"]:
        if rt["body"] is not None:
            walk(rt["body"], None)
    return out


def all_stmts(ast: dict) -> list[dict]:
    out = []
    for blk in escommon._blocks(ast):
        out += blk
    return out


def inject(r: random.Random, ast: dict, density: float) -> None:
    # for-loops: an operation as initialiser / increment so that its arguments can carry literals
    for s in all_stmts(ast):
        if s["t"] == "for":
            for key in ("init", "inc"):
                if r.random() < 0.5:
                    s[key] = {"t": "op", "name": r.choice(["Wait", "camera_Move", "x"]), "args": []}
    for args, place, _where, _called in arglists(ast):
        if place == "macro_call_arg":
            for i in range(len(args)):
                if r.random() < density:
                    args[i] = new_pos(r)
            continue
        for i in range(len(args)):
            if args[i]["k"] == "pos" or (args[i]["k"] in ("int", "id") and r.random() < density * 0.5):
                args[i] = new_pos(r)
        while r.random() < density:
            args.insert(r.randint(0, len(args)), new_pos(r))
        # a string with decomposed / compatibility characters directly in front of a literal (same line in dense layouts)
        for i in range(len(args) - 1, -1, -1):
            if args[i]["k"] == "pos" and r.random() < 0.3:
                args.insert(i, {"k": "str", "v": r.choice(UNICODE_STRINGS), "quote": r.choice(["'", '"'])})


def literals(ast: dict) -> list[dict]:
    """records of all Position literals with the place they stand in (names and values are fixed by `share_names`)"""
    recs = []
    for args, place, where, called in arglists(ast):
        for j, a in enumerate(args):
            if a["k"] == "pos":
                recs.append({"node": a, "place": place, "in_macro": where, "called": called, "arg_index": j})
    return recs


def lit_value(a: dict) -> list:
    xr, xo = surface.pos_arg(a["x"])
    yr, yo = surface.pos_arg(a["y"])
    return [a["name"], xo, yo, xr, yr]


def share_names(r: random.Random, ast: dict) -> None:
    """Names: about half of the literals of a file draw their name from a small per-file pool (so several literals share a
    name, the empty name included, in the same argument list, in different statements, in routine and macro body, spelled with
    the same or the other quote style, i.e. with or without escapes); the others get a name of their own.  Whatever the names,
    the VALUE (name, offsets, tiles) of every literal of a file is unique - the y coordinate is re-drawn until it is - so that a
    compiled parameter can be traced back to its literal by value while same-named literals differ in their coordinates."""
    recs = literals(ast)
    pool = r.sample(NAME_BASES, r.choice([1, 2, 3]))
    if r.random() < 0.5 and "" not in pool:
        pool.append("")
    seen: set = set()
    for i, rc in enumerate(recs):
        a = rc["node"]
        base = re.sub(r"#\d+$", "", a["name"])
        if r.random() < 0.55:
            a["name"] = r.choice(pool)
            if r.random() < 0.3:
                a["quote"] = r.choice(["'", '"'])
        else:
            a["name"] = f"{base}#{i}"
        tries = 0
        while tuple(lit_value(a)) in seen:
            tries += 1
            v = 300 + 7 * i + tries
            a["y"] = r.choice([str(v), hex(v), "0o%o" % v, "0b" + bin(v)[2:], f"{v}.5", f"{v}.0", f"-{v}", f"-{v}.5", f"00{v}.50"])
        seen.add(tuple(lit_value(a)))


def instances(ast: dict) -> dict:
    """macro name -> number of times its body is inlined into the compiled program (calls from routines, and calls from
    other macros times the instances of those)"""
    sites: Counter = Counter()
    for _args, place, where, called in arglists(ast):
        if place == "macro_call_arg":
            sites[(where, called)] += 1
    memo: dict = {}

    def inst(m: str, depth: int = 0) -> int:
        if m in memo:
            return memo[m]
        if depth > 20:
            return 0
        n = sum(cnt * (1 if w is None else inst(w, depth + 1)) for (w, callee), cnt in sites.items() if callee == m)
        memo[m] = n
        return n
    return {m["name"]: inst(m["name"]) for m in ast.get("macros", [])}


def expected_copies(ast: dict, rc: dict) -> int:
    """how many parameters of the compiled program stem from this literal"""
    macros = {m["name"]: m for m in ast.get("macros", [])}
    inst = instances(ast)
    if rc["place"] == "macro_call_arg":
        m = macros[rc["called"]]
        if rc["arg_index"] >= len(m["params"]):
            return 0
        p = m["params"][rc["arg_index"]]
        uses = 0
        for args, pl, _where, _c in arglists({"routines": [], "macros": [m]}):
            if pl != "macro_call_arg":
                uses += sum(1 for a in args if a["k"] == "var" and a["v"] == p)
        return uses * (inst[rc["in_macro"]] if rc["in_macro"] else 1)
    if rc["in_macro"]:
        return inst[rc["in_macro"]]
    return 1


def nest_macros(r: random.Random, g: ProgGen, ast: dict) -> None:
    """a macro that calls another macro of the same file (fresh arguments, no parameter forwarding)"""
    ms = ast.get("macros", [])
    if len(ms) >= 2 and r.random() < 0.6:
        caller, callee = ms[1], ms[0]
        args = [g.arg() for _ in callee["params"]]
        caller["body"].insert(r.randint(0, len(caller["body"])), {"t": "macrocall", "name": callee["name"], "args": args, "trailing_comma": False})


def gen_case(rng: random.Random, cfgs: list, i: int) -> dict:
    r = random.Random(rng.getrandbits(48))
    cfg = copy.copy(cfgs[i % len(cfgs)])
    cfg.int_styles = True
    g = ProgGen(r, cfg)
    ast = g.program()
    if not cfg.coro:
        add_macros(g, ast)
        nest_macros(r, g, ast)
    inject(r, ast, r.choice([0.2, 0.4, 0.7]))
    share_names(r, ast)
    return {"ast": ast, "style": r.choice(["random", "random", "random", "dense", "canonical"]), "ls": r.getrandbits(30), "stats": g.stats}


def render(ast: dict, style: str, ls: int) -> dict:
    recs = literals(ast)
    pr = surface.Printer()
    pr.program(ast)
    text, pos = surface.layout(pr.toks, random.Random(ls), style, rich=True)
    order = [key[1] for tk in pr.toks for key, kind in tk.marks if kind == "start" and key[0] == "pos"]
    by_id = {id(rc["node"]): rc for rc in recs}
    ordered = [by_id[i] for i in order]
    for rc in ordered:
        p = pos[("pos", id(rc["node"]))]
        rc["start"], rc["end"] = list(p["start"]), list(p["end"])
        rc["value"] = lit_value(rc["node"])
        rc["copies"] = expected_copies(ast, rc)
    return {"text": text, "lits": ordered}


# ----------------------------------------------------------------------------------------------------------------------
# oracle
# ----------------------------------------------------------------------------------------------------------------------
def pm_params(res: dict) -> list[list]:
    out = []
    for rt in res["ops"]:
        for op in rt:
            for p in op["params"]:
                if isinstance(p, dict) and "pm" in p:
                    out.append(p["pm"])
    return out


def shape(text: str, lit: dict) -> str:
    """narrow description of where/how a literal stands (used in violation kinds)"""
    s = lit["place"]
    if lit.get("in_macro"):
        s += "_in_macro"
    if lit["start"][0] != lit["end"][0]:
        s += "_multiline"
    line = text.split("\n")[lit["start"][0]] if lit["start"][0] < len(text.split("\n")) else ""
    if any(ord(c) > 127 for c in line[: lit["start"][1]]):
        s += "_after_nonascii"
    if any(ord(c) > 0xFFFF for c in line[: lit["start"][1]]):
        s += "_after_astral"
    import unicodedata
    pre = line[: lit["start"][1]]
    if any(len(unicodedata.normalize(f, pre)) != len(pre) for f in ("NFC", "NFD", "NFKC", "NFKD")):
        s += "_after_normalizable"
    return s


MINUS_DOT = re.compile(r"Position\s*<[^>]*[,<]\s*-\.\d")


def oracle_listing(text: str, lits: list[dict], out: dict) -> list[tuple[str, str]]:
    """(a) and (b): the listing against the printer's positions, the literal values and the compiled parameters"""
    bad: list[tuple[str, str]] = []
    lst = out["listing"]
    if "error" in lst:
        if lst.get("stage") == "parse":
            return [("__unparsable__", f"{lst['error']}: {lst.get('msg', '')[:120]}")]
        kind = "listing_raises_" + lst["error"]
        if lst["error"] == "ValueError" and MINUS_DOT.search(text):
            kind = "posarg_minus_dot"
        return [(kind, f"the source parses but the listing raises {lst['error']}: {lst.get('msg', '')[:120]} at {lst.get('site')}")]
    marks = lst["marks"]
    if len(marks) != len(lits):
        got = {tuple(m[4:]) for m in marks}
        missing = [l for l in lits if tuple(l["value"]) not in got]
        where = shape(text, missing[0]) if missing else "extra_entries"
        bad.append((f"listing_count_{where}", f"{len(lits)} Position literals in the source, the listing has {len(marks)} entries; missing names {[l['value'][0] for l in missing][:4]}"))
        return bad
    for i, (m, l) in enumerate(zip(marks, lits)):
        if m[4:] != l["value"]:
            shared = "shared_name_" if sum(1 for k in lits if k["value"][0] == l["value"][0]) > 1 else ""
            bad.append((f"listing_fields_{shared}{shape(text, l)}", f"entry {i}: listing says {m[4:]}, the literal is {l['value']} (spelled x={l['node']['x']} y={l['node']['y']})"))
        elif m[0:2] != l["start"]:
            bad.append((f"listing_start_{shape(text, l)}", f"entry {i} ({l['value'][0]!r}): start {m[0:2]}, the word Position is at {l['start']}"))
        elif m[2:4] != l["end"]:
            bad.append((f"listing_end_{shape(text, l)}", f"entry {i} ({l['value'][0]!r}): end {m[2:4]}, the closing '>' is at {l['end']}"))
    comp = out["compiled"]
    if "error" not in comp:
        # a compiled parameter belongs to the literal with the same value (values are unique per file, names are not)
        compiled = [tuple(pm) for pm in pm_params(comp)]
        values = {tuple(l["value"]) for l in lits}
        for pm in compiled:
            if pm not in values:
                bad.append(("compiled_param_without_literal", f"compiled position-mark parameter {list(pm)} equals no literal of the source"))
        for i, (m, l) in enumerate(zip(marks, lits)):
            n_lit = compiled.count(tuple(l["value"]))
            n_lst = compiled.count(tuple(m[4:]))
            if l["copies"] is not None and l["copies"] >= 0 and n_lit != l["copies"]:
                bad.append((f"compiled_copies_{shape(text, l)}", f"literal {i} {l['value']}: {n_lit} compiled parameters with its value, expected {l['copies']}"))
            elif n_lst != n_lit:
                same_name = sum(1 for k in lits if k["value"][0] == l["value"][0]) > 1
                bad.append((f"listing_vs_compiled_{'shared_name_' if same_name else ''}{shape(text, l)}",
                            f"entry {i}: the listing says {m[4:]}, the compiler produced {l['value']} for that literal"))
    return bad


def make_edits(r: random.Random, lits: list[dict], marks: list, n: int) -> list[dict]:
    idx = list(range(len(lits)))
    r.shuffle(idx)
    out = []
    for j, i in enumerate(sorted(idx[:n])):
        old = lits[i]["value"][0]
        if printable_name(old) and r.random() < 0.5:
            name = old      # only the coordinates are edited
        else:
            name = f"E{j}_{r.choice(['a', 'Zz', 'q_1', '', 'dir' + chr(92) + 'sub', 'C:' + chr(92) + 'm' + chr(92) + 't', 'w' + chr(92) * 2 + 'z', 'e' + chr(0x301), chr(0xfb01)])}"
        mark = [name, r.choice([0, 2]), r.choice([0, 2]), r.choice([0, 1, 7, 250, -1, -13]), r.choice([0, 3, 99, -4])]
        out.append({"index": i, "start": marks[i][0:2], "end": marks[i][2:4], "mark": mark})
    return out


def replace_params(res: dict, value: list, mark: list) -> list:
    """the compiled program with every parameter that stems from the literal of value `value` replaced by `mark`"""
    ops = copy.deepcopy(res["ops"])
    for rt in ops:
        for op in rt:
            op["params"] = [{"pm": list(mark)} if isinstance(p, dict) and p.get("pm") == list(value) else p for p in op["params"]]
    return ops


def oracle_splice(text: str, lits: list[dict], out: dict, edits: list[dict], sp: dict, relisted: list) -> list[tuple[str, str]]:
    """(c): splice of an edited mark into the delimited span"""
    bad: list[tuple[str, str]] = []
    comp = out["compiled"]
    marks = out["listing"]["marks"]
    for e, r, rl in zip(edits, sp["edits"], relisted):
        l = lits[e["index"]]
        sh = shape(text, l)
        if r["text"] is None:
            bad.append((f"splice_span_outside_text_{sh}", f"span {e['start']}..{e['end']} of entry {e['index']} is not inside the text"))
            continue
        c2 = r["compiled"]
        if "error" in c2:
            bad.append((f"splice_rejected_{sh}", f"after replacing entry {e['index']} by {r['printed']} the text no longer compiles: {c2['error']}: {c2.get('msg', '')[:120]}"))
            continue
        exp_ops = replace_params(comp, l["value"], e["mark"])
        if c2["ops"] != exp_ops:
            def classify_diff() -> str:
                """the differences sit only in parameters that stem from the edited literal -> param wrong (which field)"""
                got = c2["ops"]
                if len(got) != len(exp_ops) or any(len(x) != len(y) for x, y in zip(got, exp_ops)):
                    return "splice_changes_other"
                fields: set = set()
                for rx, ry in zip(exp_ops, got):
                    for ox, oy in zip(rx, ry):
                        if ox == oy:
                            continue
                        if ox["name"] != oy["name"] or ox["off"] != oy["off"] or len(ox["params"]) != len(oy["params"]):
                            return "splice_changes_other"
                        for px, py in zip(ox["params"], oy["params"]):
                            if px == py:
                                continue
                            if isinstance(px, dict) and px.get("pm") == list(e["mark"]) and isinstance(py, dict) and "pm" in py:
                                names = ["name", "x_offset", "y_offset", "x_relative", "y_relative"]
                                fields |= {names[i] for i in range(5) if px["pm"][i] != py["pm"][i]}
                            else:
                                return "splice_changes_other"
                suffix = "_".join(sorted(fields))
                if fields == {"name"} and chr(92) in e["mark"][0]:
                    suffix = "name_with_backslash"
                return "splice_param_wrong_" + suffix
            kind = classify_diff()
            from .c16 import first_op_difference
            bad.append((f"{kind}_{sh}", f"after replacing entry {e['index']} ({l['value'][0]!r}) by {r['printed']}: {first_op_difference(exp_ops, c2['ops'])}"))
        elif c2["infos"] != comp["infos"] or c2["coros"] != comp["coros"]:
            bad.append((f"splice_changes_tables_{sh}", "routine infos / coroutine names changed by the splice"))
        if "error" in rl:
            bad.append((f"splice_relisting_raises_{sh}", f"listing of the spliced text raises {rl['error']}"))
        else:
            want = [m[4:] for m in marks]
            want[e["index"]] = e["mark"]
            if [m[4:] for m in rl["marks"]] != want:
                bad.append((f"splice_relisting_{sh}", f"listing of the spliced text: values {[m[4:] for m in rl['marks']]}, expected {want}"))
    return bad


def evaluate(pool: core.Pool, cases: list[dict], rng: random.Random, n_edits: int) -> None:
    """fills case["bad"] = [(kind, what)], case["out"], case["edits"], case["splice"]"""
    chunks = [cases[i:i + 15] for i in range(0, len(cases), 15)]
    outs = pool.map("harness.impl_es:listing_and_compile_many", [[{"text": c["text"]} for c in ch] for ch in chunks], timeout=240)
    flat: list[Any] = []
    for ch, o in zip(chunks, outs):
        if isinstance(o, list):
            flat += o
        else:
            singles = pool.map("harness.impl_es:listing_and_compile", [{"text": c["text"]} for c in ch], timeout=120)
            flat += singles
    todo = []
    for c, o in zip(cases, flat):
        c["out"] = o
        c["edits"], c["splice"], c["relisted"] = [], None, []
        if not isinstance(o, dict) or "listing" not in o:
            c["bad"] = [("no_answer", f"listing/compile gave no answer: {json.dumps(o)[:160]}")]
            continue
        c["bad"] = oracle_listing(c["text"], c["lits"], o)
        ok_listing = "error" not in o["listing"] and len(o["listing"]["marks"]) == len(c["lits"])
        if ok_listing and "error" not in o["compiled"] and c["lits"] and not c["bad"]:
            c["edits"] = make_edits(random.Random(rng.getrandbits(32)), c["lits"], o["listing"]["marks"], n_edits)
            todo.append(c)
    if todo:
        chunks2 = [todo[i:i + 8] for i in range(0, len(todo), 8)]
        outs2 = pool.map("harness.impl_es:splice_and_compile_many",
                         [[{"text": c["text"], "edits": c["edits"]} for c in ch] for ch in chunks2], timeout=300)
        for ch, o in zip(chunks2, outs2):
            for c, sp in zip(ch, o if isinstance(o, list) else [None] * len(ch)):
                c["splice"] = sp
        # listing of every spliced text
        texts = [(c, i, e["text"]) for c in todo if c["splice"] for i, e in enumerate(c["splice"]["edits"]) if e["text"] is not None]
        ch3 = [texts[i:i + 40] for i in range(0, len(texts), 40)]
        outs3 = pool.map("harness.impl_es:listing_many", [[{"text": t} for _c, _i, t in ch] for ch in ch3], timeout=300)
        for c in todo:
            c["relisted"] = [{"error": "NoAnswer"}] * len(c["edits"])
        for ch, o in zip(ch3, outs3):
            for (c, i, _t), rl in zip(ch, o if isinstance(o, list) else [{"error": "NoAnswer"}] * len(ch)):
                c["relisted"][i] = rl
        for c in todo:
            if c["splice"] is None:
                c["bad"].append(("no_answer", "splice/compile gave no answer"))
            else:
                c["bad"] += oracle_splice(c["text"], c["lits"], c["out"], c["edits"], c["splice"], c["relisted"])


# ----------------------------------------------------------------------------------------------------------------------
# ties with the Lean model
# ----------------------------------------------------------------------------------------------------------------------
def lean_ties(run: core.Run, pool: core.Pool, drv: core.Driver, cases: list[dict], jobs: int, quick: bool) -> dict:
    from .. import impl_es
    rnd = random.Random(run.rng.getrandbits(40))
    # 1. replaceSpan vs the Python splice: every edit, plus random (mostly invalid) spans
    reqs, want = [], []
    for c in cases:
        for e, r in zip(c.get("edits", []), (c.get("splice") or {}).get("edits", [])):
            reqs.append({"text": c["text"], "start": e["start"], "end": e["end"], "new": r["printed"]})
            want.append(r["text"])
    for c in cases[: (150 if quick else 2500)]:
        lines = c["text"].split("\n")
        for _ in range(3):
            l1, l2 = rnd.randint(0, len(lines)), rnd.randint(0, len(lines))
            c1 = rnd.randint(0, len(lines[min(l1, len(lines) - 1)]) + 1)
            c2 = rnd.randint(0, len(lines[min(l2, len(lines) - 1)]) + 1)
            new = rnd.choice(["", "X", "Position<'n', 1, 2>", "a\nb"])
            reqs.append({"text": c["text"], "start": [l1, c1], "end": [l2, c2], "new": new})
            want.append(impl_es.splice_span(c["text"], [l1, c1], [l2, c2], new))
    got: list[Any] = []
    for i in range(0, len(reqs), 300):
        rep = drv.batch([{"op": "lex.replace_span", "cases": reqs[i:i + 300]}])[0]
        got += rep.get("results", [None] * len(reqs[i:i + 300])) if "error" not in rep else ["<driver error>"] * len(reqs[i:i + 300])
    bad = 0
    for rq, w, g in zip(reqs, want, got):
        if w != g:
            bad += 1
            if bad <= 2:
                run.broken_tie("Lean replaceSpan (ESV/PosMark/Model.lean) differs from the harness' splice", {"case": rq, "python": w, "lean": g})
    # 2. posOf vs the positions ANTLR reports for the tokens
    texts = [c["text"] for c in cases[: (250 if quick else 3000)]] + WITNESSES + ["a\rb\x0cc\n d😀e f\n\n g", "\n\n", "x"]
    chunks = [texts[i:i + 100] for i in range(0, len(texts), 100)]
    outs = pool.map("harness.impl_lex:lex_many", chunks, timeout=300)
    pos_cases, pos_want = [], []
    for ch, o in zip(chunks, outs):
        if not isinstance(o, list):
            run.broken_tie("ANTLR lexer gave no answer", {"texts": ch[:1]})
            continue
        for t, toks in zip(ch, o):
            if isinstance(toks, dict):
                continue
            pos_cases.append([t, [off for _ty, _tx, off, _l, _c in toks]])
            pos_want.append([[line, col] for _ty, _tx, _off, line, col in toks])
    pbad = 0
    n_pos = sum(len(w) for w in pos_want)
    reqs2 = [{"op": "lex.positions", "cases": pos_cases[i:i + 50]} for i in range(0, len(pos_cases), 50)]
    got2: list[Any] = []
    for rq, rep in zip(reqs2, drv.batch_parallel(reqs2, jobs)):
        got2 += rep.get("results", [None] * len(rq["cases"])) if isinstance(rep, dict) else [None] * len(rq["cases"])
    for pc, w, g in zip(pos_cases, pos_want, got2):
        if w != g:
            pbad += 1
            if pbad <= 2:
                k_ = next((i for i, (x, y) in enumerate(zip(w, g or [])) if x != y), 0)
                run.broken_tie("Lean posOf differs from the (line, column) the ANTLR lexer reports",
                               {"text": pc[0], "offset": pc[1][k_] if pc[1] else None, "antlr": w[k_:k_ + 1], "lean": (g or [])[k_:k_ + 1]})
    # 3. splice on tokens (real lexer): the token sequence changes exactly in the tokens of the literal
    tbad = 0
    tchecked = 0
    sp_texts, sp_meta = [], []
    for c in cases[: (200 if quick else 3000)]:
        for e, r in zip(c.get("edits", []), (c.get("splice") or {}).get("edits", [])):
            if r["text"] is not None:
                sp_texts += [c["text"], r["text"], r["printed"]]
                sp_meta.append((c, e))
    chunks = [sp_texts[i:i + 150] for i in range(0, len(sp_texts), 150)]
    outs = pool.map("harness.impl_lex:lex_many", chunks, timeout=300)
    flat: list[Any] = []
    for ch, o in zip(chunks, outs):
        flat += o if isinstance(o, list) else [None] * len(ch)
    for k_, (c, e) in enumerate(sp_meta):
        a, b, p = flat[3 * k_: 3 * k_ + 3]
        if a is None or b is None or p is None:
            continue
        tchecked += 1
        i0 = next((i for i, t in enumerate(a) if [t[3], t[4]] == e["start"]), None)
        i1 = next((i for i, t in enumerate(a) if [t[3], t[4]] == e["end"]), None)
        strip = lambda ts: [[t[0], t[1]] for t in ts]  # noqa
        if i0 is None or i1 is None or strip(b) != strip(a[:i0]) + strip(p) + strip(a[i1 + 1:]):
            tbad += 1
            if tbad <= 2:
                run.broken_tie("splice on tokens: the ANTLR token sequence of the spliced text is not before ++ printed mark ++ after",
                               {"text": c["text"], "edit": e})
    return {"replace_span_cases": len(reqs), "replace_span_mismatches": bad, "invalid_spans": sum(1 for w in want if w is None),
            "token_positions_compared": n_pos, "texts_position_checked": len(pos_cases), "position_mismatches": pbad, "token_splices_checked": tchecked, "token_splice_mismatches": tbad}


# ----------------------------------------------------------------------------------------------------------------------
def run(run: core.Run) -> int:
    quick = run.tier == "quick"
    n = 200 if quick else 10000
    n_edits = 3 if quick else 4
    prep = core.lean_prepare(MODULES)
    aud = core.audit(THEOREMS, MODULES) if prep["proofs_ok"] else {"obligations": len(THEOREMS), "discharged": 0, "ok": False, "theorems": {}}
    jobs = core.jobs_for(run.tier)
    cfgs = escommon.default_cfgs(run.tier)
    cases = []
    for w in WITNESSES:
        cases.append({"witness": True, "text": w, "lits": None, "stats": {}})
    for i in range(n):
        c = gen_case(run.rng, cfgs, i)
        c.update(render(c["ast"], c["style"], c["ls"]))
        cases.append(c)
    pool = core.Pool(jobs)
    stats: Counter = Counter()
    places: Counter = Counter()
    ties: dict = {}
    try:
        wit = [c for c in cases if c.get("witness")]
        gen = [c for c in cases if not c.get("witness")]
        # witnesses: literals located by the harness' own reading of the text (regex), values from the listing are checked
        # against the compiler only
        for c in wit:
            c["lits"] = witness_literals(c["text"])
        evaluate(pool, cases, run.rng, n_edits)
        n_viol = 0
        for c in cases:
            for l in c["lits"] or []:
                places[shape(c["text"], l)] += 1
            stats["literals"] += len(c["lits"] or [])
            o = c.get("out") or {}
            if isinstance(o, dict) and "compiled" in o:
                stats["compiles" if "error" not in o["compiled"] else "compile_error:" + o["compiled"]["error"]] += 1
            stats["edits"] += len(c.get("edits") or [])
            bad = [b for b in c["bad"] if b[0] != "__unparsable__"]
            if any(b[0] == "__unparsable__" for b in c["bad"]):
                stats["unparsable"] += 1
                run.notes.append(f"generated text does not parse (outside the quantifier): {c['bad'][0][1]}: {c['text'][:160]!r}")
            if not bad:
                continue
            n_viol += 1
            kind, what = bad[0]
            if c.get("witness") or n_viol > 4:
                run.violation(kind, what, {"text": c["text"], "all": bad[:6]})
                continue

            def still(a: dict, c: dict = c, kind: str = kind) -> bool:
                cc = {"ast": a, "style": c["style"], "ls": c["ls"]}
                cc.update(render(a, c["style"], c["ls"]))
                evaluate(pool, [cc], random.Random(1), n_edits)
                return any(b[0].split("_")[0:2] == kind.split("_")[0:2] for b in cc["bad"])
            small = escommon.shrink(c["ast"], still, budget=50 if quick else 150)
            cc = {"ast": small, "style": c["style"], "ls": c["ls"]}
            cc.update(render(small, c["style"], c["ls"]))
            evaluate(pool, [cc], random.Random(1), n_edits)
            b2 = [b for b in cc["bad"] if b[0].split("_")[0:2] == kind.split("_")[0:2]] or [(kind, what)]
            run.violation(b2[0][0], b2[0][1], {"text": cc["text"], "all": cc["bad"][:6], "original_text": c["text"]})
        if prep["driver_ok"]:
            ties = lean_ties(run, pool, core.Driver(), gen, jobs, quick)
    finally:
        pool.close()
    if not prep["proofs_ok"] or not aud["ok"] or not prep["driver_ok"]:
        run.broken_tie("Lean obligations of C18 do not check (build/audit)",
                       {"theorems": THEOREMS, "log": prep["log"][-3000:], "audit": {k: v for k, v in aud.items() if k != "theorems"}})
    if not quick and prep["proofs_ok"]:
        ok, out = core.leanchecker(MODULES)
        stats["leanchecker"] = 1 if ok else 0
        if not ok:
            run.broken_tie("leanchecker rejects the C18 modules", {"log": out})
    gen_ok = [c for c in cases if not c.get("witness")]
    cov = core.proof_coverage(run, prep, aud, MODULES, THEOREMS, {
        "programs": len(gen_ok), "witness_texts": len(WITNESSES), "outcomes": dict(stats), "literal_shapes": dict(places),
        "evaluations": len(cases), "distinct_nontrivial": core.distinct(c["text"] for c in gen_ok if c["lits"]),
        "rule": "ProgGen programs (+ macros called from routines) with Position literals injected into every argument list the grammar has "
                "(operations in routines, macro bodies, with-blocks, inline-ctx operations, if / while / for / switch header operations, for-loop "
                "initialiser and increment, macro-call arguments), names with quotes / commas / '>' / non-ASCII / astral characters, numbers in all "
                "INTEGER bases and DECIMAL forms, rendered canonical / dense / random (multi-line literals, comments inside literals); "
                "non-trivial = at least one literal",
        "ties": ties, "samples": [c["text"][:700] for c in gen_ok[:2]],
    })
    cov["trusted_base"] = cov["trusted_base"] + [
        "ANTLR token positions (ctx.start / ctx.stop) are not modelled: compared with the printer's positions on every generated text (oracle a) and with Lean posOf (tie)",
        "harness printer's position bookkeeping (harness/gen/surface.py layout)",
    ]
    cov["explanation"] = (
        "hybrid: (1) PROOF, all texts - the listed Lean theorems about spans (offsetOf / posOf inverse, splice_local) and about splicing a printed mark on the C16 token model; "
        "(2) DIFFERENTIAL ties - Lean replaceSpan vs the harness' splice on valid and invalid spans, Lean posOf vs the position of every ANTLR token (ties); "
        "(3) EXPLORATION - the visitor over the ANTLR parse tree is not modelled: listing vs printer positions, listing vs literal value vs compiled parameters, and "
        "splice-and-recompile are evaluated on the real code for generated programs (programs, outcomes, literal_shapes)")
    return run.finish("other", cov, [
        "the Lean theorems are about text spans and the token model; that the visitor reports the first/last token of every literal is decided by the oracle on generated programs (exploration)",
        "the splice theorem assumes the printed mark's name needs no escaping (C04 known finding posmark_name_needs_escape); edited names satisfy printable_name (backslash + ordinary character and doubled backslashes included; quotes, backslash before quote / n / end excluded)",
        "edited offsets are 0 or 2 (the only offsets the printed form reproduces, C04 posarg_exact_iff)",
    ])


LIT_RE = re.compile(r"Position(?:\s|/\*.*?\*/|//[^\n]*\n|\\\n)*<", re.S)


def witness_literals(text: str) -> list[dict]:
    """literals of a hand-written text: start = the word Position, end = the next '>' (the witnesses have no '>' in names)"""
    out = []
    for m in LIT_RE.finditer(text):
        end = text.index(">", m.end())
        def lc(off: int) -> list:
            pre = text[:off]
            return [pre.count("\n"), len(pre) - (pre.rfind("\n") + 1)]
        inner = text[m.end():end]
        parts = [p.strip() for p in re.sub(r"/\*.*?\*/|//[^\n]*\n|\\\n", " ", inner, flags=re.S).split(",")]
        name = parts[0][1:-1]
        try:
            xr, xo = surface.pos_arg(parts[1])
            yr, yo = surface.pos_arg(parts[2])
        except Exception:
            xr = xo = yr = yo = 0
        out.append({"node": {"name": name, "x": parts[1], "y": parts[2]}, "place": "witness", "in_macro": None, "called": None,
                    "start": lc(m.start()), "end": lc(end), "value": [name, xo, yo, xr, yr], "copies": None})
    # copies are not predicted for witnesses
    for l in out:
        l["copies"] = -1
    return out


def replay(run: core.Run, path: str) -> int:
    data = json.load(open(path))
    text = data["replay"].get("text")
    if text is None:
        print("replay file carries no text (tie break):", json.dumps(data["replay"])[:400])
        return 1
    pool = core.Pool(2)
    try:
        c = {"text": text, "lits": witness_literals(text)}
        evaluate(pool, [c], random.Random(0), 3)
    finally:
        pool.close()
    bad = [b for b in c["bad"] if not b[0].startswith("compiled_copies")]
    for k, w in bad:
        print("VIOLATION-REPLAY", k, w)
    return 1 if bad else 0
