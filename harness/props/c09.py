"""C09 — decompile-time source map points at the statement printed for each op.
Deciding method: (proof, K3) Lean theorems about the writer protocol for ALL call sequences (ESV.C09.writer_line_inv,
writer_entry_pos, writer_entry_inline_pos), tied to the code by replaying the recorded call sequence of every real
decompiler run through the Lean writer (text and map must be identical); (validation) which op a statement belongs to
is decided by unmodelled graph passes and checked per input: the emitted text is compiled by the real compiler and the
ops related by the proven checker must sit on the same line in both maps.
SsbScript path (also the fallback text of the ExplorerScript decompiler), proof for ALL routine sets and prefixes: the
character-level Lean model ESV.SsbScript.Text.decompileText (text, recorded add_opcode calls, position marks) is compared
EXACTLY with SsbScriptSsbDecompiler.convert(prefix=…) (channel `ssbstext`); ESV.C09.ssbs_entry_per_op,
ssbs_entry_points_at_statement, ssbs_line_of_next are theorems about that model."""
from __future__ import annotations

import json
import os
from collections import Counter
from typing import Any

import random

from .. import core, escommon, decomp_common as dc
from .. import impl_ssbs_text as ist
from ..gen.programs import Cfg
from . import c02

MODULES = ["ESV.Props.C09", "ESV.Props.C01", "ESV.Props.C09Ssbs"]
THEOREMS = ["ESV.C09.writer_line_inv", "ESV.C09.writer_entry_pos", "ESV.C09.writer_entry_inline_pos", "ESV.C09.inv_step", "ESV.C09.writer_no_entry_for_markers",
            "ESV.Beh.validate_sound",
            "ESV.C09.ssbs_entry_per_op", "ESV.C09.ssbs_entry_per_op_all", "ESV.C09.ssbs_entry_points_at_statement_at",
            "ESV.C09.ssbs_entry_points_at_statement", "ESV.C09.ssbs_line_of_next", "ESV.C09.ssbs_entry_line_in_text",
            "ESV.C09.ssbs_text_prints_ast", "ESV.C09.ssbs_text_error_iff",
            "ESV.SsbScript.Text.decompileText_good", "ESV.SsbScript.Text.entry_pos", "ESV.SsbScript.Text.decompileText_vs_decompile"]

# prefixes of the channel `ssbstext` besides "" and the fallback banner: with / without a final newline, blank lines
SSBSTEXT_PREFIXES = ["// x\n", "/* a\n\n b */ ", "\n\n", "x", "// ünï\n//\n"]


def ssbstext_cases(rnd: random.Random, sets: list[dict], n_random: int, stats: Counter) -> list[dict]:
    """the routine sets of this run (compiler-shaped, incl. the ones with U+2028 / U+0085 put into a string) plus `gen_set`
    random sets (every fifth with one well-formedness clause broken: error classes, fewer infos than routines, duplicate
    offsets), each once without a prefix and once with one (alternately the fallback banner and a short one)"""
    from ..gen import ssb as gen_ssb
    base: list[tuple[dict, str]] = [(s_["rs"], "program") for s_ in sets]
    for i in range(n_random):
        x = gen_ssb.gen_set(rnd)
        tag = "gen_set"
        if i % 5 == 4:
            x, t = gen_ssb.illformed(rnd, x)
            tag = "gen_set" if t == "unchanged" else "illformed"
        base.append((x, tag))
    out = []
    for i, (x, tag) in enumerate(base):
        stats["ssbstext_src_" + tag] += 1
        out.append({"rs": x, "prefix": "", "src": tag})
        out.append({"rs": x, "prefix": ist.FALLBACK_BANNER if i % 2 == 0 else rnd.choice(SSBSTEXT_PREFIXES), "src": tag})
    return out


def ssbstext_oracle(x: dict, d: dict) -> list[tuple[str, str]]:
    """the property read on the real output of SsbScriptSsbDecompiler.convert: keys are input offsets; the entry of an op
    names a line of the text that is blank up to the column and continues with the op's name and `(`; every op has an entry.
    Only evaluated where the reading is unambiguous: as many infos as routines, offsets pairwise different."""
    flat = [o for r in x["ops"] for o in r]
    offs = [o["off"] for o in flat]
    if len(set(offs)) != len(offs) or len(x["infos"]) < len(x["ops"]):
        return []
    bad: list[tuple[str, str]] = []
    lines = d["text"].split("\n")
    m = {e[0]: (e[1], e[2]) for e in d["map"]}
    for k in m:
        if k not in offs:
            bad.append(("ssbs_key_not_an_input_offset", f"source map key {k} is not the offset of an input op"))
    for o in flat:
        if o["off"] not in m:
            bad.append(("ssbs_op_without_entry", f"input op {o['off']} ({o['name']}) is printed as a statement but has no source map entry"))
            continue
        line, col = m[o["off"]]
        if not (0 <= line < len(lines)):
            bad.append(("ssbs_entry_line_outside_text", f"op {o['off']}: line {line} is outside the text ({len(lines)} lines)"))
        elif lines[line][:col].strip(" ") != "" or not lines[line][col:].startswith(o["name"] + "("):
            bad.append(("ssbs_entry_not_at_statement_start", f"op {o['off']} ({o['name']}): line {line} column {col} is {lines[line]!r}"))
    return bad


def ssbstext_compare(d: dict, m: dict) -> str | None:
    """exact comparison of the real answer `d` with the Lean model's answer `m`; None = equal"""
    if "error" in d:
        return None if m.get("err") == d["error"] else f"real code raises {d['error']}, model: {str(m)[:200]}"
    if "err" in m or "error" in m:
        return f"model answers {str(m)[:200]}, the real code succeeds"
    for what, a, b in (("text", d["text"], m.get("text")), ("add_opcode calls", d["calls"], m.get("entries")),
                       ("serialized map", d["map"], m.get("map")), ("position marks", d["marks"], m.get("marks"))):
        if a != b:
            return f"{what} differ: real {str(a)[:300]!r} model {str(b)[:300]!r}"
    if not d.get("macros_empty"):
        return "the real source map has macro entries"
    return None


def traced_many(args: list[dict]) -> list[dict]:
    from .. import impl_es
    out = []
    for a in args:
        if a.get("twice"):
            # the answer of a second convert() of the same decompiler object (no writer trace: the per-entry clauses only)
            d = impl_es.decompile({"rs": a["rs"], "ssbs": a.get("ssbs", False), "twice": True})
            if "error" not in d:
                d["log"] = None
                d["fallback"] = "is-ssb-script" in d["text"].split("\n", 1)[0]
        else:
            d = impl_es.decompile_traced(a)
        if "error" not in d:
            d["recompiled"] = impl_es.compile_text({"text": d["text"]})
        out.append(d)
    return out


def entry_ok(text: str, line: int, col: int) -> str | None:
    lines = text.split("\n")
    if line < 0 or line >= len(lines):
        return f"line {line} is outside the text ({len(lines)} lines)"
    l = lines[line]
    if col >= len(l) or l[col] == " ":
        return f"column {col} of line {line} ({l!r}) is not the start of a statement"
    before = l[:col]
    if before.strip(" ") not in ("", "}"):
        return f"column {col} of line {line} ({l!r}) is inside a statement"
    return None


def check_one(x: dict, d: dict, heads: list | None, ssbs: bool) -> list[tuple[str, str]]:
    bad: list[tuple[str, str]] = []
    text = d["text"]
    m = {int(k): v for k, v in d["source_map"]["map"].items()}
    offs = [o["off"] for r in x["ops"] for o in r]
    for k in m:
        if k not in offs:
            bad.append(("key_not_an_input_offset", f"source map key {k} is not the offset of an input op"))
    names = {o["off"]: o["name"] for r in x["ops"] for o in r}
    for k, (line, col) in m.items():
        why = entry_ok(text, line, col)
        if names.get(k) == "Jump":
            tl = text.split("\n")
            here = tl[line][col:] if 0 <= line < len(tl) else ""
            jumpish = ("jump @", "break_loop;", "continue;", "break;")
            if why is None and here.startswith(jumpish):
                continue
            prev = tl[line - 1] if 1 <= line <= len(tl) else ""
            if prev[col:].startswith(jumpish) and prev[:col].strip(" ") == "":
                bad.append(("jump_entry_after_statement", f"op {k} (Jump): the entry names line {line}, the statement printed for it ({prev.strip()!r}) is on line {line - 1}"))
            elif why is not None:
                # known: an entry is recorded for every Jump op although no jump statement may be printed for it
                bad.append(("jump_entry_without_statement", f"op {k} (Jump): {why}"))
            continue
        if why:
            bad.append(("entry_not_at_statement_start", f"op {k} ({names.get(k)}): {why}"))
    y = d.get("recompiled")
    if y is None or "error" in y:
        return bad    # C02's business
    ymap = {int(k): v for k, v in y["source_map"]["map"].items()}
    fx = [o for r in x["ops"] for o in r]
    fy = [o for r in y["ops"] for o in r]
    if not ssbs and not d.get("fallback") and x.get("_reached") is not None:
        # a Jump op into ANOTHER routine is never left implicit by the decompiler: `jump @label_N;` is printed for it, so a
        # reachable one must have an entry. (Inside a routine the decompiler deletes Jump ops and prints jump statements of
        # its own where a label was already written; nothing can be demanded there.)
        rtn_of = {o["off"]: ri for ri, r in enumerate(x["ops"]) for o in r}
        reached = set(x["_reached"])
        for i, o in enumerate(fx):
            if o["name"] == "Jump" and o["params"] and i in reached and rtn_of.get(o["params"][-1], rtn_of[o["off"]]) != rtn_of[o["off"]] \
                    and o["off"] not in m:
                bad.append(("foreign_jump_without_entry", f"input op {o['off']} (Jump into routine {rtn_of.get(o['params'][-1])}) is reachable and printed as a jump "
                                                           f"statement, but has no source map entry"))
                break
    rel: dict[int, set] = {}
    if ssbs or d.get("fallback"):
        if len(fx) == len(fy):
            for a, b in zip(fx, fy):
                rel.setdefault(a["off"], set()).add(b["off"])
    elif heads is not None:
        for jy, ix in heads:
            if jy < len(fy) and ix < len(fx):
                rel.setdefault(fx[ix]["off"], set()).add(fy[jy]["off"])
    for xo, ys in rel.items():
        ylines = {ymap[b][0] for b in ys if b in ymap}
        xname = next(o["name"] for o in fx if o["off"] == xo)
        if xo not in m and xname.startswith("Branch") and any(
                o2 in m and m[o2][0] in ylines for o2, ys2 in rel.items() if o2 != xo):
            continue    # a further '||' condition of an if header: printed inside that header, not as its own statement
        if xo not in m:
            bad.append(("printed_op_without_entry", f"input op {xo} is printed (compiles to op(s) {sorted(ys)} on line(s) {sorted(ylines)}) but has no source map entry"))
        elif ylines and m[xo][0] not in ylines:
            bad.append(("entry_on_other_line", f"input op {xo}: entry says line {m[xo][0]}, compiling the text places the corresponding op on line(s) {sorted(ylines)}"))
    return bad


def run(run: core.Run) -> int:
    n = 1200 if run.tier == "quick" else 8000
    prep = core.lean_prepare(MODULES)
    aud = core.audit(THEOREMS, MODULES) if prep["proofs_ok"] else {"obligations": len(THEOREMS), "discharged": 0, "ok": False, "theorems": {}}
    if not prep["driver_ok"]:
        run.broken_tie("Lean driver does not build", {"log": prep["log"][-3000:]})
        return run.finish("other", {"explanation": "driver unavailable", "evaluations": 1, "distinct_nontrivial": 2}, [])
    jobs = core.jobs_for(run.tier)
    drv = core.Driver()
    pool = core.Pool(jobs)
    cnt: Counter = Counter()
    try:
        cfgs = c02.cfgs_for(run.tier)
        sets = dc.routine_sets_from_programs(run, pool, n, cfgs)
        sets = c02.wf_filter(sets, drv, jobs)
        # (no input class is excluded: where the decompiled text itself is wrong - C02's business - no op correspondence
        # exists and only the per-entry clauses are evaluated)
        # every eighth set: a single-line string parameter gets a character that str.splitlines() treats as a line boundary
        # but that is not '\n' (U+2028, U+0085): the writers' line counter must count newlines only
        import copy as _copy
        for i, s_ in enumerate(sets):
            if i % 8 != 3:
                continue
            cands = []
            for r in s_["rs"]["ops"]:
                for o in r:
                    for p in o["params"]:
                        if isinstance(p, dict) and "s" in p and "\n" not in p["s"] and p["s"]:
                            cands.append(p)
                        elif isinstance(p, dict) and "ls" in p:
                            cands += [kv for kv in p["ls"] if kv[1] and "\n" not in kv[1]]
            if cands:
                s_["rs"] = _copy.deepcopy(s_["rs"])     # (do not touch sets shared with other lists)
        for i, s_ in enumerate(sets):
            if i % 8 != 3:
                continue
            done = False
            for r in s_["rs"]["ops"]:
                for o in r:
                    for p in o["params"]:
                        if done:
                            break
                        ch = run.rng.choice(["\u2028", "\x85"])
                        if isinstance(p, dict) and "s" in p and p["s"] and "\n" not in p["s"]:
                            p["s"] = p["s"][:1] + ch + p["s"][1:]
                            done = True
                        elif isinstance(p, dict) and "ls" in p:
                            for kv in p["ls"]:
                                if kv[1] and "\n" not in kv[1]:
                                    kv[1] = kv[1][:1] + ch + kv[1][1:]
                                    done = True
                                    break
            cnt["unicode_line_separator_in_string"] += int(done)
        args = [{"rs": s["rs"], "ssbs": False} for s in sets] + [{"rs": s["rs"], "ssbs": True} for s in sets[: len(sets) // 3]]
        for i, a in enumerate(args):
            a["twice"] = (i % 7 == 6) and not a["ssbs"]
        chunks = [args[i:i + 8] for i in range(0, len(args), 8)]
        outs = pool.map("harness.props.c09:traced_many", chunks, timeout=60)
        # channel ssbstext: the SsbScript decompiler's text and source map, character by character
        tcases = ssbstext_cases(random.Random(run.rng.getrandbits(48)), sets, 1500 if run.tier == "quick" else 12000, cnt)
        tchunks = [tcases[i:i + 50] for i in range(0, len(tcases), 50)]
        touts = pool.map("harness.impl_ssbs_text:decompile_text_many", tchunks, timeout=60)
        banner = pool.map("harness.impl_ssbs_text:fallback_banner_in_repo", [None], timeout=30)[0]
    finally:
        pool.close()
    if not isinstance(banner, dict) or banner.get("banner") != ist.FALLBACK_BANNER:
        run.broken_tie("correspondence C09: the fallback banner of ExplorerScriptSsbDecompiler.convert is not the prefix the channel ssbstext uses",
                       {"channel": "ssbstext", "repo": banner, "harness": ist.FALLBACK_BANNER})
    treal: list[Any] = []
    for ch, o in zip(tchunks, touts):
        treal += o if isinstance(o, list) and len(o) == len(ch) else [{"__noanswer__": True} for _ in ch]
    tmodel = drv.batch_parallel([{"op": "ssbstext.decompile", "set": c["rs"], "prefix": c["prefix"]} for c in tcases], jobs)
    t_mism = t_viol = 0
    for c, d, m in zip(tcases, treal, tmodel):
        if "__noanswer__" in d:
            cnt["ssbstext_no_answer"] += 1
            continue
        cnt["ssbstext_cases"] += 1
        cnt["ssbstext_prefix_" + ("none" if c["prefix"] == "" else "banner" if c["prefix"] == ist.FALLBACK_BANNER else "other")] += 1
        bad_t: list[tuple[str, str]] = []
        if "error" in d:
            cnt["ssbstext_error_" + d["error"]] += 1
        else:
            pk = [p for r in c["rs"]["ops"] for o in r for p in o["params"] if isinstance(p, dict)]
            cnt["ssbstext_with_multiline_string"] += int(any("\n" in p.get("s", "") or any("\n" in kv[1] for kv in p.get("ls", [])) for p in pk))
            cnt["ssbstext_with_language_string"] += int(any("ls" in p for p in pk))
            cnt["ssbstext_with_position_mark"] += int(bool(d["marks"]))
            if c["src"] != "illformed":
                bad_t = ssbstext_oracle(c["rs"], d)
        if bad_t:
            t_viol += 1
            run.violation(bad_t[0][0], bad_t[0][1], {"channel": "ssbstext", "rs": c["rs"], "prefix": c["prefix"], "ssbs": True,
                                                     "text": d["text"], "map": d["map"], "all": bad_t[:6]})
        why = ssbstext_compare(d, m)
        if why is not None:
            t_mism += 1
            if t_mism <= 2:
                run.broken_tie("correspondence C09: the Lean text model of the SsbScript decompiler and SsbScriptSsbDecompiler.convert differ: " + why,
                               {"channel": "ssbstext", "rs": c["rs"], "prefix": c["prefix"], "real": {k: d.get(k) for k in ("text", "calls", "map", "marks", "error")},
                                "model": m})
    res: list[Any] = []
    for ch, o in zip(chunks, outs):
        res += o if isinstance(o, list) else [{"error": "NoAnswer", "msg": "", "site": ""} for _ in ch]
    # Lean: replay of the writer protocol + op correspondences
    reqs, idx = [], []
    for i, (a, d) in enumerate(zip(args, res)):
        if "error" in d:
            cnt["decompiler_error"] += 1
            continue
        if (a["ssbs"] or not d.get("fallback")) and d.get("log") is not None:
            # (a fallback is written by an inner SsbScript decompiler object; that writer is covered by the ssbs runs)
            reqs.append({"op": "writer.replay", "cmds": d["log"]})
            idx.append((i, "replay"))
        y = d.get("recompiled")
        if y and "error" not in y and not a["ssbs"] and not d.get("fallback"):
            reqs.append(dc.mm_request(y["ops"], a["rs"]["ops"], len(a["rs"]["ops"])))
            idx.append((i, "rel"))
    reps = drv.batch_parallel(reqs, jobs)
    heads: dict[int, list] = {}
    mism = 0
    for (i, what), rep in zip(idx, reps):
        d = res[i]
        if what == "replay":
            real_map = sorted([int(k), v[0], v[1]] for k, v in d["source_map"]["map"].items())
            model_map: dict = {}
            for off, l, c in rep.get("map", []):
                model_map[off] = [off, l, c]     # dict semantics: the last entry for an offset wins
            if rep.get("text") != d["text"] or sorted(model_map.values()) != real_map:
                mism += 1
                if mism <= 2:
                    run.broken_tie("correspondence C09: replaying the recorded writer calls through the Lean writer gives a different text or map",
                                   {"channel": "writer", "rs": args[i]["rs"], "ssbs": args[i]["ssbs"], "model_map": rep.get("map"), "real_map": real_map})
        else:
            hs = []
            for v in rep.get("routines", []):
                if v.get("verdict") == "equiv":
                    hs += v.get("heads", [])
                else:
                    hs = None  # behaviour differs: C02's business, no op correspondence available
                    break
            if hs is not None:
                heads[i] = hs
    n_viol = 0
    for i, (a, d) in enumerate(zip(args, res)):
        if "error" in d:
            continue
        cnt["ssbscript" if a["ssbs"] else ("fallback" if d.get("fallback") else "structured")] += 1
        if not a["ssbs"] and not d.get("fallback") and i not in heads:
            cnt["no_correspondence"] += 1
        bad = check_one(a["rs"], d, heads.get(i), a["ssbs"])
        if bad:
            n_viol += 1
            run.violation(bad[0][0], bad[0][1], {"rs": a["rs"], "ssbs": a["ssbs"], "text": d["text"], "map": d["source_map"]["map"], "all": bad[:6]})
    if not prep["proofs_ok"] or not aud["ok"]:
        run.broken_tie("Lean obligations of C09 do not check", {"theorems": THEOREMS, "log": prep["log"][-3000:]})
    cov = {
        "explanation": "proof: writer protocol theorems for all call sequences (line counter = 1 + newlines written; an entry recorded before a statement names the "
                       "line and column where its text begins, also for multi-line strings; inline entries for elseif headers), tied to the code by replaying every "
                       "recorded real call sequence through the Lean writer; on the SsbScript path (also the fallback text) the whole decompiler is modelled at "
                       "character level, tied by exact comparison, and the entry theorems are proved for all routine sets and prefixes. validation per input: keys are input offsets, entries sit at statement starts, every "
                       "printed op has an entry, and the op the proven checker relates to it after recompiling the text sits on the same line.",
        "evaluations": len(args), "distinct_nontrivial": core.distinct(a["rs"]["ops"] for a in args),
        "rule": "well-formed compiler-shaped routine sets (nested blocks, loops, switches, multi-line strings and language strings at all depths, message switches), decompiled by the ExplorerScript decompiler (structured and fallback output) and by the SsbScript decompiler",
        "samples": [{"rs": args[0]["rs"], "map": res[0].get("source_map", {}).get("map") if isinstance(res[0], dict) else None}],
        "outcomes": dict(cnt), "writer_replay_mismatches": mism, "oracle_violations": n_viol,
        "ssbstext": {"explanation": "SsbScript decompiler (= fallback text): Lean model decompileText compared exactly (text, add_opcode calls in recording order, "
                                    "serialized map in dict order, position marks, exception class) with SsbScriptSsbDecompiler.convert(prefix) on this run's routine "
                                    "sets and gen_set random sets (negative offsets, gaps, alias routines, all parameter kinds, multi-line and language strings, "
                                    "position marks, every fifth ill-formed), each without and with a prefix (fallback banner / short prefixes); theorems "
                                    "ssbs_entry_per_op, ssbs_entry_points_at_statement, ssbs_line_of_next hold for all routine sets and prefixes",
                     "evaluations": cnt["ssbstext_cases"], "mismatches": t_mism, "oracle_violations": t_viol},
        "obligations": aud["obligations"], "discharged": aud["discharged"] if prep["proofs_ok"] else 0, "theorems": THEOREMS,
    }
    return run.finish("other", cov, ["op-to-statement attribution depends on unmodelled graph passes: validated per input only",
                                     "the compile-time source map of the emitted text is taken as reference (C08)"])


def replay(run: core.Run, path: str) -> int:
    data = json.load(open(path))["replay"]
    if data.get("channel") == "ssbstext":
        pool = core.Pool(1)
        try:
            d = pool.map("harness.impl_ssbs_text:decompile_text_many", [[{"rs": data["rs"], "prefix": data.get("prefix", "")}]], timeout=60)[0][0]
        finally:
            pool.close()
        bad = [] if "error" in d else ssbstext_oracle(data["rs"], d)
        for k, w in bad:
            print("VIOLATION-REPLAY", k, w)
        return 1 if bad else 0
    a = {"rs": data["rs"], "ssbs": data.get("ssbs", False)}
    pool = core.Pool(1)
    try:
        d = pool.map("harness.props.c09:traced_many", [[a]], timeout=60)[0][0]
    finally:
        pool.close()
    heads = None
    y = d.get("recompiled")
    if y and "error" not in y and not a["ssbs"] and not d.get("fallback"):
        rep = core.Driver().batch([dc.mm_request(y["ops"], a["rs"]["ops"], len(a["rs"]["ops"]))])[0]
        heads = [h for v in rep["routines"] for h in v.get("heads", [])]
    bad = check_one(a["rs"], d, heads, a["ssbs"])
    for k, w in bad:
        print("VIOLATION-REPLAY", k, w)
    return 1 if bad else 0
